#!/bin/sh
# setup: everything runs from files on disk, offline.  Byte-compiles pyvc and (best effort) re-checks the
# Lean lemma library that backs the pow2/bit_length axiom schemas of pyvc/theory.py, writing a stamp that the
# checks report in their evidence.  A failing Lean check does not block the checks (the schemas are also
# numerically self-tested); it is recorded in build/lean.stamp.
cd "$(dirname "$0")" || exit 1
mkdir -p build evidence replays
/opt/veriftools/pyvenv/bin/python -m compileall -q pyvc speclib.py replay.py spec contracts >/dev/null 2>&1
/opt/veriftools/pyvenv/bin/python -c "
import sys; sys.path.insert(0, '.')
from pyvc import theory
r = theory.selftest_schemas()
assert not r['bad'], r
print('schema selftest ok', r['cases'])
r2 = theory.selftest_instances(24)
assert not r2['bad'], r2
print('axiom-instance soundness fuzz ok', r2['cases'])
" || exit 1
SHA=$(cat lean/FpyLemmas.lean pyvc/theory.py | sha256sum | cut -c1-16)
if [ "${VERIF_SKIP_LEAN:-0}" = "1" ]; then
  echo "skipped $SHA" > build/lean.stamp
elif timeout 1500 bash lean/check.sh > build/lean.log 2>&1; then
  echo "ok $SHA $(tail -1 build/lean.log)" > build/lean.stamp
else
  echo "failed $SHA $(tail -1 build/lean.log)" > build/lean.stamp
fi
cat build/lean.stamp
exit 0
