#!/usr/bin/env bash
# lean/check.sh -- compile lean/FpyLemmas.lean offline against the precompiled Mathlib and
# verify that it is hole-free.  Exit 0 iff
#   (a) the source contains no `sorry` / `admit` / `axiom` / `native_decide` / `unsafe` token,
#   (b) `lean` compiles it with exit code 0 and no error / sorry diagnostics,
#   (c) `#print axioms` of EVERY theorem lists only propext / Classical.choice / Quot.sound,
#   (d) every schema name used in pyvc/theory.py ('P.pos', 'S1', ...) has a theorem of the same
#       name (dot -> underscore) in BOTH namespaces FpyLemmas (Nat) and FpyLemmas.Z (Int, literal).
# Works from any cwd; writes only to lean/build/.  Wall time: ~3-6 min (loading Mathlib oleans, I/O bound).
# Environment: MATHLIB_DIR (default /opt/veriftools/mathlib4), LEAN (default lean).
set -u
HERE="$(cd "$(dirname "${BASH_SOURCE[0]}")" && pwd)"
SRC="$HERE/FpyLemmas.lean"
BUILD="$HERE/build"
LEAN_BIN="${LEAN:-lean}"
mkdir -p "$BUILD"
. "$HERE/leanpath.sh"

fail() { echo "lean/check.sh: FAIL: $*" >&2; exit 1; }

[ -f "$SRC" ] || fail "missing $SRC"

# (a) forbidden tokens anywhere in the source (comments included: keep the file free of the words)
if grep -nwE 'sorry|admit|native_decide|unsafe|axiom|implemented_by|extern' "$SRC"; then
  fail "forbidden token in FpyLemmas.lean (see lines above)"
fi

# theorem list with fully qualified names (tracks `namespace X` / `end X`)
awk '
  /^namespace[ \t]+/ { ns[++d] = $2; next }
  /^end[ \t]+/       { if (d > 0) d--; next }
  /^theorem[ \t]+/   { p = ""; for (i = 1; i <= d; i++) p = p ns[i] "."; print p $2 }
' "$SRC" > "$BUILD/theorems.txt"
NTHM=$(wc -l < "$BUILD/theorems.txt" | tr -d ' ')
[ "$NTHM" -gt 0 ] || fail "no theorems found"

# (d) schema names of theory.py all have theorems (both layers)
THEORY="$HERE/../pyvc/theory.py"
if [ -f "$THEORY" ]; then
  grep -oE "\('[A-Za-z0-9]+(\.[A-Za-z0-9]+)?', *z3\." "$THEORY" | sed -E "s/^\('//; s/'.*//" | sort -u > "$BUILD/schemas.txt"
  NS=$(wc -l < "$BUILD/schemas.txt" | tr -d ' ')
  missing=0
  while read -r s; do
    t="${s//./_}"
    grep -qx "FpyLemmas.$t" "$BUILD/theorems.txt"   || { echo "schema $s: no theorem FpyLemmas.$t" >&2; missing=1; }
    grep -qx "FpyLemmas.Z.$t" "$BUILD/theorems.txt" || { echo "schema $s: no theorem FpyLemmas.Z.$t" >&2; missing=1; }
  done < "$BUILD/schemas.txt"
  [ "$missing" -eq 0 ] || fail "schema(s) of pyvc/theory.py without Lean theorem"
else
  NS="?"
  echo "lean/check.sh: note: $THEORY not found, schema-name cross-check skipped" >&2
fi

# (b)+(c) compile a copy with `#print axioms` appended for every theorem
CHK="$BUILD/FpyLemmasCheck.lean"
{ cat "$SRC"; echo; sed 's/^/#print axioms /' "$BUILD/theorems.txt"; } > "$CHK"
LOG="$BUILD/check.log"
START=$(date +%s)
"$LEAN_BIN" "$CHK" > "$LOG" 2>&1
RC=$?
END=$(date +%s)
[ "$RC" -eq 0 ] || { grep -v 'conda' "$LOG" | head -50 >&2; fail "lean exited with code $RC"; }
if grep -nE "error|sorry" "$LOG"; then fail "error/sorry diagnostics in $LOG"; fi

NAX=$(grep -cE "^'.*' (depends on axioms|does not depend on any axioms)" "$LOG")
[ "$NAX" -eq "$NTHM" ] || fail "#print axioms reported $NAX theorems, expected $NTHM"
# join continuation lines, collect every axiom name mentioned, compare with whitelist
BADAX=$(tr '\n' ' ' < "$LOG" | grep -oE "depends on axioms: \[[^]]*\]" | sed -E 's/.*\[//; s/\]//' | tr ',' '\n' | tr -d ' ' \
        | grep -v '^$' | sort -u | grep -vxE 'propext|Classical\.choice|Quot\.sound' || true)
[ -z "$BADAX" ] || fail "non-standard axioms used: $BADAX"

echo "lean/check.sh: OK: $NTHM theorems compiled (schemas in theory.py: $NS), no holes, axioms within {propext, Classical.choice, Quot.sound}; lean wall time $((END-START)) s"
exit 0
