/-
FpyLemmas.lean -- Lean 4 / Mathlib proofs of the background-theory schemas of pyvc/theory.py.

The SMT side (pyvc/theory.py) treats

  pow2 : Int -> Int      pow2(k) = 2^k           for k >= 0
  bl   : Int -> Int      bl(x)   = x.bit_length() for x >= 0
  ipow : Int -> Int -> Int   ipow(b, e) = b**e    for e >= 0

as uninterpreted functions and adds ground instances of named schemas.
This file proves every schema.

PART 1 (namespace `FpyLemmas`) states each schema over the natural numbers:
`2 ^ k` for pow2, `Nat.size` for bl (Mathlib's `Nat.size` is exactly Python's
`int.bit_length` on non-negative ints, see `bit_length_spec` and
`bit_length_unique` below), and Nat `/`, `%` for SMT-LIB `div`, `mod`.
The restriction to `Nat` is justified by the guards every schema instance
carries in theory.py (`k >= 0`, `x >= 0`, `c > 0`, ...): a guarded integer
variable ranges exactly over `Nat`, and on non-negative operands with a positive
divisor SMT-LIB `div`/`mod`, Python `//`/`%`, Lean `Int./`/`Int.%` and Lean
`Nat./`/`Nat.%` all coincide.  Where a schema mentions a subtraction
(`pow2(a-1)`, `pow2(b-a)`, `bl(x)-k`) the Nat statement carries the natural side
condition (`1 ≤ a`, `a ≤ b`) that the schema's guard provides; for `S1` the SMT
term `ite(bl(x)-k >= 0, bl(x)-k, 0)` is literally truncated subtraction.

PART 2 (namespace `FpyLemmas.Z`) re-states each schema LITERALLY as written in
theory.py, over `Int`, with exactly the guards of theory.py and no others,
against the reference interpretation

  pow2 k   := 2 ^ k.toNat
  bl x     := Nat.size x.natAbs     (Python: bit_length ignores the sign)
  ipow b e := b ^ e.toNat

and Lean's `Int./`, `Int.%` (Euclidean = SMT-LIB `div`/`mod`).  This is the part
that would expose a missing guard: variables that are unguarded in theory.py
(the numerator in DM.def, S3, S6, S6q; `x` in M.sign; the base in IP.*) are
unguarded here too.

Every proof is complete: no proof holes and no postulates beyond Lean's three
standard ones (propext, Classical.choice, Quot.sound); lean/check.sh enforces
this by a token scan and by `#print axioms` on every theorem.
-/
import Mathlib

namespace FpyLemmas

/-! ## PART 1 : schemas over `Nat` -/

/-! ### `_ax_pow2` -/

theorem P_pos (a : ℕ) : 1 ≤ 2 ^ a := Nat.one_le_two_pow

theorem P_zero : (2 : ℕ) ^ 0 = 1 := rfl

theorem P_one : (2 : ℕ) ^ 1 = 2 := rfl

theorem P_two : (2 : ℕ) ^ 2 = 4 := rfl

theorem P_ge (a : ℕ) : a < 2 ^ a := Nat.lt_two_pow_self

theorem P_step (a : ℕ) (h : 1 ≤ a) : 2 ^ a = 2 * 2 ^ (a - 1) := by
  obtain ⟨n, rfl⟩ : ∃ n, a = n + 1 := ⟨a - 1, by omega⟩
  rw [Nat.add_sub_cancel, pow_succ, mul_comm]

/-! ### `_ax_bl` -/

theorem B_zero : Nat.size 0 = 0 := Nat.size_zero

theorem B_nonneg (c : ℕ) : 0 ≤ Nat.size c := Nat.zero_le _

theorem B_one : Nat.size 1 = 1 := Nat.size_one

theorem B_pos (c : ℕ) (h : 0 < c) : 1 ≤ Nat.size c := Nat.size_pos.mpr h

theorem B_bracket (c : ℕ) (h : 0 < c) :
    2 ^ (Nat.size c - 1) ≤ c ∧ c < 2 ^ Nat.size c := by
  refine ⟨?_, Nat.lt_size_self c⟩
  have h1 : 1 ≤ Nat.size c := B_pos c h
  have h2 : Nat.size c - 1 < Nat.size c := by omega
  exact Nat.lt_size.mp h2

theorem B_bracket2 (c : ℕ) (h : 0 < c) :
    2 ^ Nat.size c = 2 * 2 ^ (Nat.size c - 1) :=
  P_step _ (B_pos c h)

/-- `Nat.size` satisfies Python's documented characterisation of `bit_length`:
for `c > 0`, `2^(k-1) <= c < 2^k` with `k = c.bit_length()`. -/
theorem bit_length_spec (c : ℕ) (h : 0 < c) :
    2 ^ (Nat.size c - 1) ≤ c ∧ c < 2 ^ Nat.size c := B_bracket c h

/-- ... and that characterisation determines it. -/
theorem bit_length_unique (c n : ℕ) (hn : 1 ≤ n) (h1 : 2 ^ (n - 1) ≤ c) (h2 : c < 2 ^ n) :
    Nat.size c = n := by
  apply le_antisymm
  · exact Nat.size_le.mpr h2
  · have : n - 1 < Nat.size c := Nat.lt_size.mpr h1
    omega

/-- S1: `bl(x div 2^k) = max(bl x - k, 0)` (truncated subtraction). -/
theorem S1 (x k : ℕ) : Nat.size (x / 2 ^ k) = Nat.size x - k := by
  apply eq_of_forall_ge_iff
  intro m
  rw [Nat.size_le, Nat.div_lt_iff_lt_mul (by positivity), ← pow_add, ← Nat.size_le]
  omega

theorem S3 (x k : ℕ) : Nat.size (x % 2 ^ k) ≤ k :=
  Nat.size_le.mpr (Nat.mod_lt _ (by positivity))

theorem S2 (x k : ℕ) (h : 0 < x) : Nat.size (x * 2 ^ k) = Nat.size x + k := by
  rw [← Nat.shiftLeft_eq, Nat.size_shiftLeft (by omega)]

/-! ### `_ax_pp` -/

theorem PP_mono (a b : ℕ) (h : a ≤ b) : 2 ^ a ≤ 2 ^ b :=
  Nat.pow_le_pow_right (by norm_num) h

theorem PP_strict (a b : ℕ) (h : a < b) : 2 * 2 ^ a ≤ 2 ^ b :=
  calc 2 * 2 ^ a = 2 ^ (a + 1) := by ring
    _ ≤ 2 ^ b := Nat.pow_le_pow_right (by norm_num) h

theorem PP_split (a b : ℕ) (h : a ≤ b) : 2 ^ b = 2 ^ a * 2 ^ (b - a) := by
  rw [← pow_add, Nat.add_sub_of_le h]

/-! ### `_ax_bb` -/

theorem BB_mono (a b : ℕ) (h : a ≤ b) : Nat.size a ≤ Nat.size b :=
  Nat.size_le_size h

/-- S7, the carry lemma: if incrementing lengthens the number, the result is a power of two. -/
theorem S7 (a : ℕ) (h : Nat.size a < Nat.size (a + 1)) : a + 1 = 2 ^ Nat.size a := by
  apply le_antisymm
  · exact Nat.lt_size_self a
  · exact Nat.lt_size.mp h

theorem S7b (a : ℕ) : Nat.size (a + 1) ≤ Nat.size a + 1 := by
  rw [Nat.size_le, pow_succ]
  have := Nat.lt_size_self a
  omega

/-! ### `_ax_bp` -/

theorem S4 (x k : ℕ) : Nat.size x ≤ k ↔ x < 2 ^ k := Nat.size_le

theorem S4b (x k : ℕ) (h : x = 2 ^ k) : Nat.size x = k + 1 := by
  rw [h, Nat.size_pow]

/-! ### `_ax_dm` -/

theorem DM_def (x k : ℕ) :
    x = x / 2 ^ k * 2 ^ k + x % 2 ^ k ∧ 0 ≤ x % 2 ^ k ∧ x % 2 ^ k < 2 ^ k :=
  ⟨(Nat.div_add_mod' x (2 ^ k)).symm, Nat.zero_le _, Nat.mod_lt _ (by positivity)⟩

theorem DM_nonneg (x k : ℕ) : 0 ≤ x / 2 ^ k ∧ x / 2 ^ k ≤ x :=
  ⟨Nat.zero_le _, Nat.div_le_self _ _⟩

theorem DM_small (x k : ℕ) (h : x < 2 ^ k) : x / 2 ^ k = 0 ∧ x % 2 ^ k = x :=
  ⟨Nat.div_eq_of_lt h, Nat.mod_eq_of_lt h⟩

theorem S6 (a j k : ℕ) (h : k ≤ j) : (a * 2 ^ j) % 2 ^ k = 0 :=
  Nat.mod_eq_zero_of_dvd (Dvd.dvd.mul_left (pow_dvd_pow 2 h) a)

theorem S6q (a j k : ℕ) (h : k ≤ j) : (a * 2 ^ j) / 2 ^ k = a * 2 ^ (j - k) := by
  have e : 2 ^ j = 2 ^ (j - k) * 2 ^ k := by rw [← pow_add, Nat.sub_add_cancel h]
  rw [e, ← mul_assoc, Nat.mul_div_cancel _ (by positivity)]

/-! ### `_ax_dd` -/

theorem DD_nest (x a b : ℕ) (h : a ≤ b) : x / 2 ^ b = (x / 2 ^ a) / 2 ^ (b - a) := by
  rw [Nat.div_div_eq_div_mul, ← pow_add, Nat.add_sub_of_le h]

theorem DD_mod (x a b : ℕ) (h : a ≤ b) :
    (x / 2 ^ a) % 2 ^ (b - a) = (x % 2 ^ b) / 2 ^ a := by
  have e : 2 ^ b = 2 ^ a * 2 ^ (b - a) := PP_split a b h
  rw [e, Nat.mod_mul_right_div_self]

theorem DD_mono (x a b : ℕ) (h : a ≤ b) : x / 2 ^ b ≤ x / 2 ^ a :=
  Nat.div_le_div_left (PP_mono a b h) (by positivity)

/-! ### `_ax_mul` -/

theorem S2i (x k : ℕ) (h : 0 < x) : Nat.size (x * 2 ^ k) = Nat.size x + k := S2 x k h

theorem M_sign (x k : ℕ) :
    (0 ≤ x * 2 ^ k ↔ 0 ≤ x) ∧ (0 < x * 2 ^ k ↔ 0 < x) ∧ (x * 2 ^ k = 0 ↔ x = 0) := by
  have hp : 0 < 2 ^ k := by positivity
  refine ⟨by simp, ?_, ?_⟩
  · constructor
    · intro h; exact Nat.pos_of_mul_pos_right h
    · intro h; exact Nat.mul_pos h hp
  · constructor
    · intro h
      rcases Nat.mul_eq_zero.mp h with h | h
      · exact h
      · omega
    · rintro rfl; simp

theorem M_ge (x k : ℕ) : x ≤ x * 2 ^ k :=
  Nat.le_mul_of_pos_right x (by positivity)

/-! ### `_ax_ipow`  (`ipow(b, e) = b ^ e`) -/

theorem IP_zero (b : ℕ) : b ^ 0 = 1 := pow_zero b

theorem IP_one (b : ℕ) : b ^ 1 = b := pow_one b

theorem IP_pos (b e : ℕ) (h : 0 < b) : 0 < b ^ e := Nat.pow_pos h

theorem IP_nonneg (b e : ℕ) : 0 ≤ b ^ e := Nat.zero_le _

theorem IP_zerob (e : ℕ) (h : 0 < e) : (0 : ℕ) ^ e = 0 := Nat.zero_pow h

theorem IP_two (b e : ℕ) (h : b = 2) : b ^ e = 2 ^ e := by rw [h]

/-! ### L4 : counting lemma for stochastic rounding -/

theorem L4_gen (n L : ℕ) (h : L ≤ n) :
    ((Finset.range n).filter (fun r => n ≤ r + L)).card = L := by
  have e : (Finset.range n).filter (fun r => n ≤ r + L) = Finset.Ico (n - L) n := by
    ext r
    simp only [Finset.mem_filter, Finset.mem_range, Finset.mem_Ico]
    omega
  rw [e, Nat.card_Ico]
  omega

/-- L4: for `0 ≤ L ≤ 2^k`, `#{ r ∈ [0, 2^k) : r + L ≥ 2^k } = L`. -/
theorem L4 (k L : ℕ) (h : L ≤ 2 ^ k) :
    ((Finset.range (2 ^ k)).filter (fun r => r + L ≥ 2 ^ k)).card = L :=
  L4_gen (2 ^ k) L h

/-! ### extras: pack-normal-form rewrite rules of DESIGN.md §2.4 (F1, F2) -/

theorem F1_div (a b k : ℕ) (h : b < 2 ^ k) : (a * 2 ^ k + b) / 2 ^ k = a := by
  rw [Nat.add_comm, Nat.add_mul_div_right _ _ (by positivity), Nat.div_eq_of_lt h, Nat.zero_add]

theorem F1_mod (a b k : ℕ) (h : b < 2 ^ k) : (a * 2 ^ k + b) % 2 ^ k = b := by
  rw [Nat.add_comm, Nat.add_mul_mod_self_right, Nat.mod_eq_of_lt h]

theorem F2 (j k : ℕ) : 2 ^ (j + k) = 2 ^ j * 2 ^ k := pow_add 2 j k

end FpyLemmas

/-! ## PART 2 : the schemas literally as in theory.py, over `Int` -/

namespace FpyLemmas.Z

/-- reference interpretation of the SMT function `pow2` (only `k ≥ 0` matters) -/
def pow2 (k : ℤ) : ℤ := 2 ^ k.toNat

/-- reference interpretation of the SMT function `bl` (Python `int.bit_length`, which ignores the sign) -/
def bl (x : ℤ) : ℤ := (Nat.size x.natAbs : ℤ)

/-- reference interpretation of the SMT function `ipow` (only `e ≥ 0` matters) -/
def ipow (b e : ℤ) : ℤ := b ^ e.toNat

theorem pow2_cast (k : ℕ) : pow2 (k : ℤ) = ((2 ^ k : ℕ) : ℤ) := by
  simp [pow2]

theorem bl_cast (x : ℕ) : bl (x : ℤ) = (Nat.size x : ℤ) := by
  simp [bl]

theorem pow2_pos (k : ℤ) : 0 < pow2 k := by
  unfold pow2; positivity

theorem pow2_add (a b : ℤ) (ha : 0 ≤ a) (hb : 0 ≤ b) : pow2 (a + b) = pow2 a * pow2 b := by
  unfold pow2
  rw [Int.toNat_add ha hb, pow_add]

theorem cast_sub_of_le (a b : ℕ) (h : a ≤ b) : ((b : ℤ) - (a : ℤ)) = ((b - a : ℕ) : ℤ) := by
  omega

theorem cast_ediv_pow2 (x k : ℕ) : ((x : ℤ) / pow2 (k : ℤ)) = ((x / 2 ^ k : ℕ) : ℤ) := by
  rw [pow2_cast]; norm_cast

theorem cast_emod_pow2 (x k : ℕ) : ((x : ℤ) % pow2 (k : ℤ)) = ((x % 2 ^ k : ℕ) : ℤ) := by
  rw [pow2_cast]; norm_cast

theorem cast_mul_pow2 (x k : ℕ) : ((x : ℤ) * pow2 (k : ℤ)) = ((x * 2 ^ k : ℕ) : ℤ) := by
  rw [pow2_cast]; norm_cast

/-! ### `_ax_pow2` -/

theorem P_pos (a : ℤ) : a ≥ 0 → pow2 a ≥ 1 := by
  intro h
  have := pow2_pos a
  omega

theorem P_zero (a : ℤ) : a = 0 → pow2 a = 1 := by
  rintro rfl; simp [pow2]

theorem P_one (a : ℤ) : a = 1 → pow2 a = 2 := by
  rintro rfl; norm_num [pow2]

theorem P_two (a : ℤ) : a = 2 → pow2 a = 4 := by
  rintro rfl
  have e : (2 : ℤ).toNat = 2 := rfl
  unfold pow2
  rw [e]
  norm_num

theorem P_ge (a : ℤ) : a ≥ 0 → pow2 a > a := by
  intro h
  lift a to ℕ using h
  rw [pow2_cast]
  exact_mod_cast FpyLemmas.P_ge a

theorem P_step (a : ℤ) : a ≥ 1 → pow2 a = 2 * pow2 (a - 1) := by
  intro h
  have e := pow2_add 1 (a - 1) (by norm_num) (by omega)
  have e1 : pow2 1 = 2 := by norm_num [pow2]
  rw [e1] at e
  rw [← e]
  congr 1
  ring

/-! ### `_ax_bl` -/

theorem B_zero (c : ℤ) : c = 0 → bl c = 0 := by
  rintro rfl; simp [bl]

theorem B_nonneg (c : ℤ) : c ≥ 0 → bl c ≥ 0 := by
  intro _; unfold bl; positivity

theorem B_one (c : ℤ) : c = 1 → bl c = 1 := by
  rintro rfl; simp [bl, Nat.size_one]

theorem B_pos (c : ℤ) : c > 0 → bl c ≥ 1 := by
  intro h
  lift c to ℕ using h.le
  rw [bl_cast]
  have := FpyLemmas.B_pos c (by exact_mod_cast h)
  exact_mod_cast this

theorem B_bracket (c : ℤ) : c > 0 → pow2 (bl c - 1) ≤ c ∧ c < pow2 (bl c) := by
  intro h
  lift c to ℕ using h.le
  have hc : 0 < c := by exact_mod_cast h
  have h1 := FpyLemmas.B_pos c hc
  rw [bl_cast]
  have e : ((Nat.size c : ℤ) - 1) = ((Nat.size c - 1 : ℕ) : ℤ) := by omega
  rw [e, pow2_cast, pow2_cast]
  exact_mod_cast FpyLemmas.B_bracket c hc

theorem B_bracket2 (c : ℤ) : c > 0 → pow2 (bl c) = 2 * pow2 (bl c - 1) := by
  intro h
  have := B_pos c h
  exact P_step (bl c) this

/-- S1 with `c = x / pow2 kk` -/
theorem S1 (x kk : ℤ) : x ≥ 0 ∧ kk ≥ 0 →
    bl (x / pow2 kk) = if bl x - kk ≥ 0 then bl x - kk else 0 := by
  rintro ⟨hx, hk⟩
  lift x to ℕ using hx
  lift kk to ℕ using hk
  rw [cast_ediv_pow2, bl_cast, bl_cast, FpyLemmas.S1]
  split_ifs <;> omega

/-- S3 with `c = x % pow2 kk`; note: NO guard on `x` -/
theorem S3 (x kk : ℤ) : kk ≥ 0 → bl (x % pow2 kk) ≤ kk := by
  intro hk
  lift kk to ℕ using hk
  have hp := pow2_pos (kk : ℤ)
  have h0 : 0 ≤ x % pow2 (kk : ℤ) := Int.emod_nonneg _ (ne_of_gt hp)
  have h1 : x % pow2 (kk : ℤ) < pow2 (kk : ℤ) := Int.emod_lt_of_pos _ hp
  generalize x % pow2 (kk : ℤ) = r at h0 h1 ⊢
  lift r to ℕ using h0
  rw [pow2_cast] at h1
  rw [bl_cast]
  have h2 : r < 2 ^ kk := by exact_mod_cast h1
  exact_mod_cast Nat.size_le.mpr h2

/-- S2 with `c = x * pow2 kk` -/
theorem S2 (x kk : ℤ) : x > 0 ∧ kk ≥ 0 → bl (x * pow2 kk) = bl x + kk := by
  rintro ⟨hx, hk⟩
  lift x to ℕ using hx.le
  lift kk to ℕ using hk
  have hx' : 0 < x := by exact_mod_cast hx
  rw [cast_mul_pow2, bl_cast, bl_cast, FpyLemmas.S2 x kk hx']
  push_cast
  rfl

/-- S2, other operand order: `c = pow2 kk * x` -/
theorem S2' (x kk : ℤ) : x > 0 ∧ kk ≥ 0 → bl (pow2 kk * x) = bl x + kk := by
  rw [mul_comm]; exact S2 x kk

/-! ### `_ax_pp` -/

theorem PP_mono (a b : ℤ) : a ≥ 0 ∧ a ≤ b → pow2 a ≤ pow2 b := by
  rintro ⟨ha, hab⟩
  lift a to ℕ using ha
  lift b to ℕ using (by omega)
  rw [pow2_cast, pow2_cast]
  exact_mod_cast FpyLemmas.PP_mono a b (by exact_mod_cast hab)

theorem PP_strict (a b : ℤ) : a ≥ 0 ∧ a < b → 2 * pow2 a ≤ pow2 b := by
  rintro ⟨ha, hab⟩
  lift a to ℕ using ha
  lift b to ℕ using (by omega)
  rw [pow2_cast, pow2_cast]
  exact_mod_cast FpyLemmas.PP_strict a b (by exact_mod_cast hab)

theorem PP_split (a b : ℤ) : a ≥ 0 ∧ a ≤ b → pow2 b = pow2 a * pow2 (b - a) := by
  rintro ⟨ha, hab⟩
  rw [← pow2_add a (b - a) ha (by omega)]
  congr 1
  ring

/-! ### `_ax_bb` -/

theorem BB_mono (a b : ℤ) : a ≥ 0 ∧ a ≤ b → bl a ≤ bl b := by
  rintro ⟨ha, hab⟩
  lift a to ℕ using ha
  lift b to ℕ using (by omega)
  rw [bl_cast, bl_cast]
  exact_mod_cast FpyLemmas.BB_mono a b (by exact_mod_cast hab)

theorem S7 (a b : ℤ) : a ≥ 0 ∧ b = a + 1 ∧ bl b > bl a → b = pow2 (bl a) := by
  rintro ⟨ha, rfl, h⟩
  lift a to ℕ using ha
  have e : ((a : ℤ) + 1) = ((a + 1 : ℕ) : ℤ) := by push_cast; rfl
  rw [e] at h ⊢
  rw [bl_cast, bl_cast] at h
  rw [bl_cast, pow2_cast]
  have h' : Nat.size a < Nat.size (a + 1) := by exact_mod_cast h
  exact_mod_cast FpyLemmas.S7 a h'

theorem S7b (a b : ℤ) : a ≥ 0 ∧ b = a + 1 → bl b ≤ bl a + 1 := by
  rintro ⟨ha, rfl⟩
  lift a to ℕ using ha
  have e : ((a : ℤ) + 1) = ((a + 1 : ℕ) : ℤ) := by push_cast; rfl
  rw [e, bl_cast, bl_cast]
  exact_mod_cast FpyLemmas.S7b a

/-! ### `_ax_bp` -/

theorem S4 (x k : ℤ) : x ≥ 0 ∧ k ≥ 0 → ((bl x ≤ k) ↔ (x < pow2 k)) := by
  rintro ⟨hx, hk⟩
  lift x to ℕ using hx
  lift k to ℕ using hk
  rw [bl_cast, pow2_cast]
  norm_cast
  exact Nat.size_le

theorem S4b (x k : ℤ) : k ≥ 0 → (x = pow2 k → bl x = k + 1) := by
  rintro hk rfl
  lift k to ℕ using hk
  rw [pow2_cast, bl_cast, Nat.size_pow]
  push_cast
  rfl

/-! ### `_ax_dm`  (`q = num / pow2 k`, `r = num % pow2 k`; `num` is an arbitrary integer) -/

theorem DM_def (num k : ℤ) : k ≥ 0 →
    num = num / pow2 k * pow2 k + num % pow2 k ∧ num % pow2 k ≥ 0 ∧ num % pow2 k < pow2 k := by
  intro _
  have hp := pow2_pos k
  exact ⟨(Int.ediv_mul_add_emod num (pow2 k)).symm, Int.emod_nonneg _ (ne_of_gt hp),
    Int.emod_lt_of_pos _ hp⟩

theorem DM_nonneg (num k : ℤ) : k ≥ 0 ∧ num ≥ 0 → num / pow2 k ≥ 0 ∧ num / pow2 k ≤ num := by
  rintro ⟨_, hn⟩
  exact ⟨Int.ediv_nonneg hn (pow2_pos k).le, Int.ediv_le_self _ hn⟩

theorem DM_small (num k : ℤ) : k ≥ 0 ∧ num ≥ 0 ∧ num < pow2 k →
    num / pow2 k = 0 ∧ num % pow2 k = num := by
  rintro ⟨_, h0, h1⟩
  exact ⟨Int.ediv_eq_zero_of_lt h0 h1, Int.emod_eq_of_lt h0 h1⟩

/-- S6 with `num = a * pow2 j`; `a` is an arbitrary integer -/
theorem S6 (a j k : ℤ) : k ≥ 0 ∧ k ≤ j → (a * pow2 j) % pow2 k = 0 := by
  rintro ⟨hk, hkj⟩
  have e : pow2 j = pow2 k * pow2 (j - k) := PP_split k j ⟨hk, hkj⟩
  rw [e]
  apply Int.emod_eq_zero_of_dvd
  exact Dvd.intro (a * pow2 (j - k)) (by ring)

theorem S6' (a j k : ℤ) : k ≥ 0 ∧ k ≤ j → (pow2 j * a) % pow2 k = 0 := by
  rw [mul_comm]; exact S6 a j k

/-- S6q with `num = a * pow2 j`; `a` is an arbitrary integer -/
theorem S6q (a j k : ℤ) : k ≥ 0 ∧ k ≤ j → (a * pow2 j) / pow2 k = a * pow2 (j - k) := by
  rintro ⟨hk, hkj⟩
  have e : pow2 j = pow2 k * pow2 (j - k) := PP_split k j ⟨hk, hkj⟩
  have e2 : a * (pow2 k * pow2 (j - k)) = (a * pow2 (j - k)) * pow2 k := by ring
  rw [e, e2, Int.mul_ediv_cancel _ (ne_of_gt (pow2_pos k))]

theorem S6q' (a j k : ℤ) : k ≥ 0 ∧ k ≤ j → (pow2 j * a) / pow2 k = a * pow2 (j - k) := by
  rw [mul_comm]; exact S6q a j k

/-! ### `_ax_dd`  (`qa = x / pow2 a`, `qb = x / pow2 b`) -/

theorem DD_nest (x a b : ℤ) : a ≥ 0 ∧ a ≤ b ∧ x ≥ 0 →
    x / pow2 b = (x / pow2 a) / pow2 (b - a) := by
  rintro ⟨ha, hab, hx⟩
  lift a to ℕ using ha
  lift b to ℕ using (by omega)
  lift x to ℕ using hx
  have hab' : a ≤ b := by exact_mod_cast hab
  rw [cast_sub_of_le a b hab', cast_ediv_pow2, cast_ediv_pow2, cast_ediv_pow2]
  exact_mod_cast FpyLemmas.DD_nest x a b hab'

theorem DD_mod (x a b : ℤ) : a ≥ 0 ∧ a ≤ b ∧ x ≥ 0 →
    (x / pow2 a) % pow2 (b - a) = (x % pow2 b) / pow2 a := by
  rintro ⟨ha, hab, hx⟩
  lift a to ℕ using ha
  lift b to ℕ using (by omega)
  lift x to ℕ using hx
  have hab' : a ≤ b := by exact_mod_cast hab
  rw [cast_sub_of_le a b hab', cast_ediv_pow2, cast_emod_pow2, cast_emod_pow2, cast_ediv_pow2]
  exact_mod_cast FpyLemmas.DD_mod x a b hab'

theorem DD_mono (x a b : ℤ) : a ≥ 0 ∧ a ≤ b ∧ x ≥ 0 → x / pow2 b ≤ x / pow2 a := by
  rintro ⟨ha, hab, hx⟩
  lift a to ℕ using ha
  lift b to ℕ using (by omega)
  lift x to ℕ using hx
  have hab' : a ≤ b := by exact_mod_cast hab
  rw [cast_ediv_pow2, cast_ediv_pow2]
  exact_mod_cast FpyLemmas.DD_mono x a b hab'

/-! ### `_ax_mul`  (`t = x * pow2 k`) -/

theorem S2i (x k : ℤ) : x > 0 ∧ k ≥ 0 → bl (x * pow2 k) = bl x + k := S2 x k

/-- M.sign; `x` is an arbitrary integer -/
theorem M_sign (x k : ℤ) : k ≥ 0 →
    ((x * pow2 k ≥ 0) ↔ (x ≥ 0)) ∧ ((x * pow2 k > 0) ↔ (x > 0)) ∧ ((x * pow2 k = 0) ↔ (x = 0)) := by
  intro _
  have hp := pow2_pos k
  refine ⟨?_, ?_, ?_⟩
  · constructor
    · intro h
      by_contra hx
      have : x * pow2 k < 0 := mul_neg_of_neg_of_pos (by omega) hp
      omega
    · intro h; exact mul_nonneg h hp.le
  · constructor
    · intro h
      by_contra hx
      have : x * pow2 k ≤ 0 := mul_nonpos_of_nonpos_of_nonneg (by omega) hp.le
      omega
    · intro h; exact mul_pos h hp
  · constructor
    · intro h
      rcases mul_eq_zero.mp h with h | h
      · exact h
      · omega
    · rintro rfl; simp

theorem M_ge (x k : ℤ) : x ≥ 0 ∧ k ≥ 0 → x * pow2 k ≥ x := by
  rintro ⟨hx, _⟩
  have hp := pow2_pos k
  nlinarith

/-! ### `_ax_ipow`  (`t = ipow b e`; `b` is an arbitrary integer) -/

theorem IP_zero (b e : ℤ) : e = 0 → ipow b e = 1 := by
  rintro rfl; simp [ipow]

theorem IP_one (b e : ℤ) : e = 1 → ipow b e = b := by
  rintro rfl; simp [ipow]

theorem IP_pos (b e : ℤ) : b > 0 ∧ e ≥ 0 → ipow b e > 0 := by
  rintro ⟨hb, _⟩
  exact pow_pos hb _

theorem IP_nonneg (b e : ℤ) : b ≥ 0 ∧ e ≥ 0 → ipow b e ≥ 0 := by
  rintro ⟨hb, _⟩
  exact pow_nonneg hb _

theorem IP_zerob (b e : ℤ) : b = 0 ∧ e > 0 → ipow b e = 0 := by
  rintro ⟨rfl, he⟩
  unfold ipow
  apply zero_pow
  omega

theorem IP_two (b e : ℤ) : b = 2 ∧ e ≥ 0 → ipow b e = pow2 e := by
  rintro ⟨rfl, _⟩
  rfl

/-! ### negative controls: the literal layer does see guards (dropping one makes a schema false) -/

/-- S2 without its guard `x > 0` is false (`x = 0`, `kk = 1`). -/
theorem S2_guard_needed : ¬ (∀ x kk : ℤ, kk ≥ 0 → bl (x * pow2 kk) = bl x + kk) := by
  intro h
  have := h 0 1 (by norm_num)
  simp [bl] at this

/-- S6 without its guard `k ≤ j` is false (`a = 1`, `j = 0`, `k = 1`). -/
theorem S6_guard_needed : ¬ (∀ a j k : ℤ, k ≥ 0 → (a * pow2 j) % pow2 k = 0) := by
  intro h
  have := h 1 0 1 (by norm_num)
  norm_num [pow2] at this

end FpyLemmas.Z
