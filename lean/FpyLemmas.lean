/-
FpyLemmas.lean -- Lean 4 / Mathlib proofs of the background-theory schemas of pyvc/theory.py.

The SMT side (pyvc/theory.py) treats

  pow2 : Int -> Int      pow2(k) = 2^k           for k >= 0
  bl   : Int -> Int      bl(x)   = x.bit_length() for x >= 0
  ipow : Int -> Int -> Int   ipow(b, e) = b**e    for e >= 0

as uninterpreted functions and adds ground instances of named schemas.
This file proves every schema.

PART 1 (namespace `FpyLemmas`) states each schema over the natural numbers:
`2 ^ k` for pow2, `Nat.size` for bl (Mathlib's `Nat.size` is exactly Python's
`int.bit_length` on non-negative ints, see `bit_length_spec` and
`bit_length_unique` below), and Nat `/`, `%` for SMT-LIB `div`, `mod`.
The restriction to `Nat` is justified by the guards every schema instance
carries in theory.py (`k >= 0`, `x >= 0`, `c > 0`, ...): a guarded integer
variable ranges exactly over `Nat`, and on non-negative operands with a positive
divisor SMT-LIB `div`/`mod`, Python `//`/`%`, Lean `Int./`/`Int.%` and Lean
`Nat./`/`Nat.%` all coincide.  Where a schema mentions a subtraction
(`pow2(a-1)`, `pow2(b-a)`, `bl(x)-k`) the Nat statement carries the natural side
condition (`1 ≤ a`, `a ≤ b`) that the schema's guard provides; for `S1` the SMT
term `ite(bl(x)-k >= 0, bl(x)-k, 0)` is literally truncated subtraction.

PART 2 (namespace `FpyLemmas.Z`) re-states each schema LITERALLY as written in
theory.py, over `Int`, with exactly the guards of theory.py and no others,
against the reference interpretation

  pow2 k   := 2 ^ k.toNat
  bl x     := Nat.size x.natAbs     (Python: bit_length ignores the sign)
  ipow b e := b ^ e.toNat
  tz x     := padicValNat 2 x.toNat (trailing zeros of x > 0 = 2-adic valuation)

and Lean's `Int./`, `Int.%` (Euclidean = SMT-LIB `div`/`mod`).  This is the part
that would expose a missing guard: variables that are unguarded in theory.py
(the numerator in DM.def, S3, S6, S6q; `x` in M.sign; the base in IP.*) are
unguarded here too.

Every proof is complete: no proof holes and no postulates beyond Lean's three
standard ones (propext, Classical.choice, Quot.sound); lean/check.sh enforces
this by a token scan and by `#print axioms` on every theorem.
-/
import Mathlib

namespace FpyLemmas

/-! ## PART 1 : schemas over `Nat` -/

/-! ### `_ax_pow2` -/

theorem P_pos (a : ℕ) : 1 ≤ 2 ^ a := Nat.one_le_two_pow

theorem P_zero : (2 : ℕ) ^ 0 = 1 := rfl

theorem P_one : (2 : ℕ) ^ 1 = 2 := rfl

theorem P_two : (2 : ℕ) ^ 2 = 4 := rfl

theorem P_ge (a : ℕ) : a < 2 ^ a := Nat.lt_two_pow_self

theorem P_step (a : ℕ) (h : 1 ≤ a) : 2 ^ a = 2 * 2 ^ (a - 1) := by
  obtain ⟨n, rfl⟩ : ∃ n, a = n + 1 := ⟨a - 1, by omega⟩
  rw [Nat.add_sub_cancel, pow_succ, mul_comm]

/-! ### `_ax_bl` -/

theorem B_zero : Nat.size 0 = 0 := Nat.size_zero

theorem B_nonneg (c : ℕ) : 0 ≤ Nat.size c := Nat.zero_le _

theorem B_one : Nat.size 1 = 1 := Nat.size_one

theorem B_pos (c : ℕ) (h : 0 < c) : 1 ≤ Nat.size c := Nat.size_pos.mpr h

theorem B_bracket (c : ℕ) (h : 0 < c) :
    2 ^ (Nat.size c - 1) ≤ c ∧ c < 2 ^ Nat.size c := by
  refine ⟨?_, Nat.lt_size_self c⟩
  have h1 : 1 ≤ Nat.size c := B_pos c h
  have h2 : Nat.size c - 1 < Nat.size c := by omega
  exact Nat.lt_size.mp h2

theorem B_bracket2 (c : ℕ) (h : 0 < c) :
    2 ^ Nat.size c = 2 * 2 ^ (Nat.size c - 1) :=
  P_step _ (B_pos c h)

/-- `Nat.size` satisfies Python's documented characterisation of `bit_length`:
for `c > 0`, `2^(k-1) <= c < 2^k` with `k = c.bit_length()`. -/
theorem bit_length_spec (c : ℕ) (h : 0 < c) :
    2 ^ (Nat.size c - 1) ≤ c ∧ c < 2 ^ Nat.size c := B_bracket c h

/-- ... and that characterisation determines it. -/
theorem bit_length_unique (c n : ℕ) (hn : 1 ≤ n) (h1 : 2 ^ (n - 1) ≤ c) (h2 : c < 2 ^ n) :
    Nat.size c = n := by
  apply le_antisymm
  · exact Nat.size_le.mpr h2
  · have : n - 1 < Nat.size c := Nat.lt_size.mpr h1
    omega

/-- S1: `bl(x div 2^k) = max(bl x - k, 0)` (truncated subtraction). -/
theorem S1 (x k : ℕ) : Nat.size (x / 2 ^ k) = Nat.size x - k := by
  apply eq_of_forall_ge_iff
  intro m
  rw [Nat.size_le, Nat.div_lt_iff_lt_mul (by positivity), ← pow_add, ← Nat.size_le]
  omega

theorem S3 (x k : ℕ) : Nat.size (x % 2 ^ k) ≤ k :=
  Nat.size_le.mpr (Nat.mod_lt _ (by positivity))

theorem S2 (x k : ℕ) (h : 0 < x) : Nat.size (x * 2 ^ k) = Nat.size x + k := by
  rw [← Nat.shiftLeft_eq, Nat.size_shiftLeft (by omega)]

/-! ### `_ax_pp` -/

theorem PP_mono (a b : ℕ) (h : a ≤ b) : 2 ^ a ≤ 2 ^ b :=
  Nat.pow_le_pow_right (by norm_num) h

theorem PP_strict (a b : ℕ) (h : a < b) : 2 * 2 ^ a ≤ 2 ^ b :=
  calc 2 * 2 ^ a = 2 ^ (a + 1) := by ring
    _ ≤ 2 ^ b := Nat.pow_le_pow_right (by norm_num) h

theorem PP_split (a b : ℕ) (h : a ≤ b) : 2 ^ b = 2 ^ a * 2 ^ (b - a) := by
  rw [← pow_add, Nat.add_sub_of_le h]

/-! ### `_ax_bb` -/

theorem BB_mono (a b : ℕ) (h : a ≤ b) : Nat.size a ≤ Nat.size b :=
  Nat.size_le_size h

/-- S7, the carry lemma: if incrementing lengthens the number, the result is a power of two. -/
theorem S7 (a : ℕ) (h : Nat.size a < Nat.size (a + 1)) : a + 1 = 2 ^ Nat.size a := by
  apply le_antisymm
  · exact Nat.lt_size_self a
  · exact Nat.lt_size.mp h

theorem S7b (a : ℕ) : Nat.size (a + 1) ≤ Nat.size a + 1 := by
  rw [Nat.size_le, pow_succ]
  have := Nat.lt_size_self a
  omega

/-! ### `_ax_bp` -/

theorem S4 (x k : ℕ) : Nat.size x ≤ k ↔ x < 2 ^ k := Nat.size_le

theorem S4b (x k : ℕ) (h : x = 2 ^ k) : Nat.size x = k + 1 := by
  rw [h, Nat.size_pow]

/-! ### `_ax_dm` -/

theorem DM_def (x k : ℕ) :
    x = x / 2 ^ k * 2 ^ k + x % 2 ^ k ∧ 0 ≤ x % 2 ^ k ∧ x % 2 ^ k < 2 ^ k :=
  ⟨(Nat.div_add_mod' x (2 ^ k)).symm, Nat.zero_le _, Nat.mod_lt _ (by positivity)⟩

theorem DM_nonneg (x k : ℕ) : 0 ≤ x / 2 ^ k ∧ x / 2 ^ k ≤ x :=
  ⟨Nat.zero_le _, Nat.div_le_self _ _⟩

theorem DM_small (x k : ℕ) (h : x < 2 ^ k) : x / 2 ^ k = 0 ∧ x % 2 ^ k = x :=
  ⟨Nat.div_eq_of_lt h, Nat.mod_eq_of_lt h⟩

theorem S6 (a j k : ℕ) (h : k ≤ j) : (a * 2 ^ j) % 2 ^ k = 0 :=
  Nat.mod_eq_zero_of_dvd (Dvd.dvd.mul_left (pow_dvd_pow 2 h) a)

theorem S6q (a j k : ℕ) (h : k ≤ j) : (a * 2 ^ j) / 2 ^ k = a * 2 ^ (j - k) := by
  have e : 2 ^ j = 2 ^ (j - k) * 2 ^ k := by rw [← pow_add, Nat.sub_add_cancel h]
  rw [e, ← mul_assoc, Nat.mul_div_cancel _ (by positivity)]

/-! ### `_ax_dd` -/

theorem DD_nest (x a b : ℕ) (h : a ≤ b) : x / 2 ^ b = (x / 2 ^ a) / 2 ^ (b - a) := by
  rw [Nat.div_div_eq_div_mul, ← pow_add, Nat.add_sub_of_le h]

theorem DD_mod (x a b : ℕ) (h : a ≤ b) :
    (x / 2 ^ a) % 2 ^ (b - a) = (x % 2 ^ b) / 2 ^ a := by
  have e : 2 ^ b = 2 ^ a * 2 ^ (b - a) := PP_split a b h
  rw [e, Nat.mod_mul_right_div_self]

theorem DD_mono (x a b : ℕ) (h : a ≤ b) : x / 2 ^ b ≤ x / 2 ^ a :=
  Nat.div_le_div_left (PP_mono a b h) (by positivity)

/-! ### `_ax_mul` -/

theorem S2i (x k : ℕ) (h : 0 < x) : Nat.size (x * 2 ^ k) = Nat.size x + k := S2 x k h

theorem M_sign (x k : ℕ) :
    (0 ≤ x * 2 ^ k ↔ 0 ≤ x) ∧ (0 < x * 2 ^ k ↔ 0 < x) ∧ (x * 2 ^ k = 0 ↔ x = 0) := by
  have hp : 0 < 2 ^ k := by positivity
  refine ⟨by simp, ?_, ?_⟩
  · constructor
    · intro h; exact Nat.pos_of_mul_pos_right h
    · intro h; exact Nat.mul_pos h hp
  · constructor
    · intro h
      rcases Nat.mul_eq_zero.mp h with h | h
      · exact h
      · omega
    · rintro rfl; simp

theorem M_ge (x k : ℕ) : x ≤ x * 2 ^ k :=
  Nat.le_mul_of_pos_right x (by positivity)

/-! ### `_ax_ipow`  (`ipow(b, e) = b ^ e`) -/

theorem IP_zero (b : ℕ) : b ^ 0 = 1 := pow_zero b

theorem IP_one (b : ℕ) : b ^ 1 = b := pow_one b

theorem IP_pos (b e : ℕ) (h : 0 < b) : 0 < b ^ e := Nat.pow_pos h

theorem IP_nonneg (b e : ℕ) : 0 ≤ b ^ e := Nat.zero_le _

theorem IP_zerob (e : ℕ) (h : 0 < e) : (0 : ℕ) ^ e = 0 := Nat.zero_pow h

theorem IP_two (b e : ℕ) (h : b = 2) : b ^ e = 2 ^ e := by rw [h]

/-! ### L4 : counting lemma for stochastic rounding -/

theorem L4_gen (n L : ℕ) (h : L ≤ n) :
    ((Finset.range n).filter (fun r => n ≤ r + L)).card = L := by
  have e : (Finset.range n).filter (fun r => n ≤ r + L) = Finset.Ico (n - L) n := by
    ext r
    simp only [Finset.mem_filter, Finset.mem_range, Finset.mem_Ico]
    omega
  rw [e, Nat.card_Ico]
  omega

/-- L4: for `0 ≤ L ≤ 2^k`, `#{ r ∈ [0, 2^k) : r + L ≥ 2^k } = L`. -/
theorem L4 (k L : ℕ) (h : L ≤ 2 ^ k) :
    ((Finset.range (2 ^ k)).filter (fun r => r + L ≥ 2 ^ k)).card = L :=
  L4_gen (2 ^ k) L h

/-! ### extras: pack-normal-form rewrite rules of DESIGN.md §2.4 (F1, F2) -/

theorem F1_div (a b k : ℕ) (h : b < 2 ^ k) : (a * 2 ^ k + b) / 2 ^ k = a := by
  rw [Nat.add_comm, Nat.add_mul_div_right _ _ (by positivity), Nat.div_eq_of_lt h, Nat.zero_add]

theorem F1_mod (a b k : ℕ) (h : b < 2 ^ k) : (a * 2 ^ k + b) % 2 ^ k = b := by
  rw [Nat.add_comm, Nat.add_mul_mod_self_right, Nat.mod_eq_of_lt h]

theorem F2 (j k : ℕ) : 2 ^ (j + k) = 2 ^ j * 2 ^ k := pow_add 2 j k

/-! ### second batch (schemas added to theory.py later): DM.one, M.ge2, MM.*, TZ.*, CL -/

theorem DM_one (x k : ℕ) (h1 : 2 ^ k ≤ x) (h2 : x < 2 * 2 ^ k) :
    x / 2 ^ k = 1 ∧ x % 2 ^ k = x - 2 ^ k := by
  have hp : 0 < 2 ^ k := by positivity
  generalize 2 ^ k = p at h1 h2 hp ⊢
  have hq : x / p = 1 := Nat.div_eq_of_lt_le (by omega) (by omega)
  have hdm := Nat.div_add_mod x p
  rw [hq] at hdm
  exact ⟨hq, by omega⟩

theorem M_ge2 (x k : ℕ) (h : 1 ≤ k) : 2 * x ≤ x * 2 ^ k := by
  have h2 : 2 ^ 1 ≤ 2 ^ k := Nat.pow_le_pow_right (by norm_num) h
  have := Nat.mul_le_mul_left x h2
  omega

/-- MM.div (two remainders of one numerator): `2^b ∣ x → 2^a ∣ x` for `a ≤ b`. -/
theorem MM_div (x a b : ℕ) (h : a ≤ b) (hv : x % 2 ^ b = 0) : x % 2 ^ a = 0 :=
  Nat.mod_eq_zero_of_dvd (dvd_trans (pow_dvd_pow 2 h) (Nat.dvd_of_mod_eq_zero hv))

/-- MM.le (two remainders of one numerator): `x mod 2^a ≤ x mod 2^b` for `a ≤ b`. -/
theorem MM_le (x a b : ℕ) (h : a ≤ b) : x % 2 ^ a ≤ x % 2 ^ b :=
  calc x % 2 ^ a = x % 2 ^ b % 2 ^ a := (Nat.mod_mod_of_dvd x (pow_dvd_pow 2 h)).symm
    _ ≤ x % 2 ^ b := Nat.mod_le _ _

theorem mul_lt_mul_right_iff' (a c p : ℕ) (hp : 0 < p) : a * p < c * p ↔ a < c :=
  ⟨fun h => lt_of_mul_lt_mul_right h hp.le, fun h => Nat.mul_lt_mul_of_pos_right h hp⟩

/-- MM.lt (two products): `a*2^j < b*2^k ↔ a < b*2^(k-j)` for `j ≤ k`. -/
theorem MM_lt (a b j k : ℕ) (h : j ≤ k) : a * 2 ^ j < b * 2 ^ k ↔ a < b * 2 ^ (k - j) := by
  have e : b * 2 ^ k = (b * 2 ^ (k - j)) * 2 ^ j := by rw [PP_split j k h]; ring
  rw [e]
  exact mul_lt_mul_right_iff' _ _ _ (by positivity)

theorem MM_gt (a b j k : ℕ) (h : j ≤ k) : b * 2 ^ k < a * 2 ^ j ↔ b * 2 ^ (k - j) < a := by
  have e : b * 2 ^ k = (b * 2 ^ (k - j)) * 2 ^ j := by rw [PP_split j k h]; ring
  rw [e]
  exact mul_lt_mul_right_iff' _ _ _ (by positivity)

theorem MM_eq (a b j k : ℕ) (h : j ≤ k) : a * 2 ^ j = b * 2 ^ k ↔ a = b * 2 ^ (k - j) := by
  have e : b * 2 ^ k = (b * 2 ^ (k - j)) * 2 ^ j := by rw [PP_split j k h]; ring
  rw [e]
  constructor
  · intro h'
    exact Nat.eq_of_mul_eq_mul_right (by positivity) h'
  · intro h'
    rw [h']

/-! #### trailing zeros: `tz x` = 2-adic valuation of `x` -/

/-- model of the SMT function `tz`: number of trailing zero bits = 2-adic valuation -/
def tz (x : ℕ) : ℕ := padicValNat 2 x

theorem tz_dvd_iff (x n : ℕ) (hx : 0 < x) : 2 ^ n ∣ x ↔ n ≤ tz x :=
  padicValNat_dvd_iff_le (p := 2) (Nat.pos_iff_ne_zero.mp hx)

theorem tz_pow (n : ℕ) : tz (2 ^ n) = n := padicValNat.prime_pow n

/-- the defining decomposition: `x = (2m+1) * 2^tz(x)` -/
theorem tz_decomp (x : ℕ) (hx : 0 < x) : ∃ m, x = 2 ^ (tz x + 1) * m + 2 ^ tz x := by
  have hA : 2 ^ tz x ∣ x := (tz_dvd_iff x (tz x) hx).mpr le_rfl
  have hB : ¬ 2 ^ (tz x + 1) ∣ x := by
    rw [tz_dvd_iff x (tz x + 1) hx]; omega
  obtain ⟨q, hq⟩ := hA
  obtain ⟨m, hm | hm⟩ := Nat.even_or_odd' q
  · exfalso
    apply hB
    refine ⟨m, ?_⟩
    calc x = 2 ^ tz x * q := hq
      _ = 2 ^ tz x * (2 * m) := by rw [hm]
      _ = 2 ^ (tz x + 1) * m := by rw [pow_succ]; ring
  · refine ⟨m, ?_⟩
    rw [pow_succ]
    calc x = 2 ^ tz x * q := hq
      _ = 2 ^ tz x * (2 * m + 1) := by rw [hm]
      _ = 2 ^ tz x * 2 * m + 2 ^ tz x := by ring

/-- ... and the decomposition determines `tz` -/
theorem tz_of_decomp (x k m : ℕ) (h : x = 2 ^ (k + 1) * m + 2 ^ k) : tz x = k := by
  have hp : 0 < 2 ^ k := by positivity
  have hx : 0 < x := by omega
  have h1 : 2 ^ k ∣ x := ⟨2 * m + 1, by rw [h, pow_succ]; ring⟩
  have h2 : ¬ 2 ^ (k + 1) ∣ x := by
    intro hd
    rw [h] at hd
    have hd' : 2 ^ (k + 1) ∣ 2 ^ k := (Nat.dvd_add_right (Dvd.intro m rfl)).mp hd
    have hle := Nat.le_of_dvd hp hd'
    rw [pow_succ] at hle
    omega
  rw [tz_dvd_iff x k hx] at h1
  rw [tz_dvd_iff x (k + 1) hx] at h2
  omega

theorem TZ_le (x : ℕ) (h : 0 < x) : 2 ^ tz x ≤ x :=
  Nat.le_of_dvd h ((tz_dvd_iff x (tz x) h).mpr le_rfl)

theorem TZ_range (x : ℕ) (h : 0 < x) : 0 ≤ tz x ∧ tz x ≤ Nat.size x - 1 := by
  have h1 : tz x < Nat.size x := Nat.lt_size.mpr (TZ_le x h)
  exact ⟨Nat.zero_le _, by omega⟩

theorem TZ_div (x : ℕ) (h : 0 < x) : x % 2 ^ tz x = 0 ∧ (x / 2 ^ tz x) % 2 = 1 := by
  obtain ⟨m, hm⟩ := tz_decomp x h
  generalize tz x = t at hm ⊢
  subst hm
  have e : 2 ^ (t + 1) * m + 2 ^ t = 2 ^ t * (2 * m + 1) := by rw [pow_succ]; ring
  rw [e, Nat.mul_mod_right, Nat.mul_div_cancel_left _ (by positivity)]
  exact ⟨rfl, by omega⟩

theorem TZ_pow2 (x : ℕ) (h : 0 < x) : x = 2 ^ tz x ↔ tz x = Nat.size x - 1 := by
  constructor
  · intro h'
    have hs := congrArg Nat.size h'
    rw [Nat.size_pow] at hs
    omega
  · intro h'
    have hpos := B_pos x h
    have hs : Nat.size x = tz x + 1 := by omega
    have hlt := Nat.lt_size_self x
    rw [hs] at hlt
    obtain ⟨m, hm⟩ := tz_decomp x h
    generalize tz x = t at hm hlt ⊢
    rcases m with _ | m
    · simpa using hm
    · exfalso
      have : 2 ^ (t + 1) ≤ 2 ^ (t + 1) * (m + 1) := Nat.le_mul_of_pos_right _ (by omega)
      omega

theorem TZ_pow2b (x : ℕ) (h : 0 < x) : x = 2 ^ (Nat.size x - 1) ↔ tz x = Nat.size x - 1 := by
  constructor
  · intro h'
    have ht := congrArg tz h'
    rw [tz_pow] at ht
    exact ht
  · intro h'
    rw [← h']
    exact (TZ_pow2 x h).mpr h'

/-- the refutation-mode table for `tz` (`bounded_defs`): the standard value satisfies its row ... -/
theorem TZ_bounded (x : ℕ) (h : 0 < x) : x % 2 ^ (tz x + 1) = 2 ^ tz x := by
  obtain ⟨m, hm⟩ := tz_decomp x h
  generalize tz x = t at hm ⊢
  subst hm
  have hlt : 2 ^ t < 2 ^ (t + 1) := Nat.pow_lt_pow_right (by norm_num) (by omega)
  rw [Nat.mul_add_mod, Nat.mod_eq_of_lt hlt]

/-- ... and no other row can hold -/
theorem TZ_bounded_unique (x k : ℕ) (hk : x % 2 ^ (k + 1) = 2 ^ k) : tz x = k := by
  have hdm := (Nat.div_add_mod x (2 ^ (k + 1))).symm
  rw [hk] at hdm
  exact tz_of_decomp x k _ hdm

/-- law CL of pyvc/interp.py (`x & (x-1)` for `x ≥ 1`, with `r = x - 2^tz(x)`). -/
theorem CL (x : ℕ) (h : 1 ≤ x) :
    2 ^ tz x ≤ x ∧ x - 2 ^ tz x < x ∧ (x - 2 ^ tz x = 0 ↔ x = 2 ^ (Nat.size x - 1)) := by
  have hle := TZ_le x h
  have hpos : 0 < 2 ^ tz x := by positivity
  refine ⟨hle, by omega, ?_⟩
  constructor
  · intro h0
    have hx : x = 2 ^ tz x := by omega
    exact (TZ_pow2b x h).mpr ((TZ_pow2 x h).mp hx)
  · intro h1
    have hx := (TZ_pow2 x h).mpr ((TZ_pow2b x h).mp h1)
    omega

/-- TZ.def, the meaning the interpreter gives to `x & (x-1)`: it clears the lowest set bit. -/
theorem TZ_def (x : ℕ) (h : 0 < x) : x &&& (x - 1) = x - 2 ^ tz x := by
  obtain ⟨m, hm⟩ := tz_decomp x h
  generalize tz x = t at hm ⊢
  subst hm
  have hP : 0 < 2 ^ (t + 1) := by positivity
  have hpos : 0 < 2 ^ t := by positivity
  have hlt : 2 ^ t < 2 ^ (t + 1) := Nat.pow_lt_pow_right (by norm_num) (by omega)
  have hlt' : 2 ^ t - 1 < 2 ^ (t + 1) := by omega
  have hb : 2 ^ (t + 1) * m + 2 ^ t - 1 = 2 ^ (t + 1) * m + (2 ^ t - 1) := by omega
  rw [hb]
  have hz := (Nat.div_add_mod
    ((2 ^ (t + 1) * m + 2 ^ t) &&& (2 ^ (t + 1) * m + (2 ^ t - 1))) (2 ^ (t + 1))).symm
  have d1 : (2 ^ (t + 1) * m + 2 ^ t) / 2 ^ (t + 1) = m := by
    rw [Nat.mul_add_div hP, Nat.div_eq_of_lt hlt, Nat.add_zero]
  have d2 : (2 ^ (t + 1) * m + (2 ^ t - 1)) / 2 ^ (t + 1) = m := by
    rw [Nat.mul_add_div hP, Nat.div_eq_of_lt hlt', Nat.add_zero]
  have m1 : (2 ^ (t + 1) * m + 2 ^ t) % 2 ^ (t + 1) = 2 ^ t := by
    rw [Nat.mul_add_mod, Nat.mod_eq_of_lt hlt]
  have m2 : (2 ^ (t + 1) * m + (2 ^ t - 1)) % 2 ^ (t + 1) = 2 ^ t - 1 := by
    rw [Nat.mul_add_mod, Nat.mod_eq_of_lt hlt']
  rw [Nat.and_div_two_pow, Nat.and_mod_two_pow, d1, d2, m1, m2, Nat.and_self,
    Nat.and_two_pow_sub_one_eq_mod, Nat.mod_self, Nat.add_zero] at hz
  rw [hz]
  omega

end FpyLemmas

/-! ## PART 2 : the schemas literally as in theory.py, over `Int` -/

namespace FpyLemmas.Z

/-- reference interpretation of the SMT function `pow2` (only `k ≥ 0` matters) -/
def pow2 (k : ℤ) : ℤ := 2 ^ k.toNat

/-- reference interpretation of the SMT function `bl` (Python `int.bit_length`, which ignores the sign) -/
def bl (x : ℤ) : ℤ := (Nat.size x.natAbs : ℤ)

/-- reference interpretation of the SMT function `ipow` (only `e ≥ 0` matters) -/
def ipow (b e : ℤ) : ℤ := b ^ e.toNat

theorem pow2_cast (k : ℕ) : pow2 (k : ℤ) = ((2 ^ k : ℕ) : ℤ) := by
  simp [pow2]

theorem bl_cast (x : ℕ) : bl (x : ℤ) = (Nat.size x : ℤ) := by
  simp [bl]

theorem pow2_pos (k : ℤ) : 0 < pow2 k := by
  unfold pow2; positivity

theorem pow2_add (a b : ℤ) (ha : 0 ≤ a) (hb : 0 ≤ b) : pow2 (a + b) = pow2 a * pow2 b := by
  unfold pow2
  rw [Int.toNat_add ha hb, pow_add]

theorem cast_sub_of_le (a b : ℕ) (h : a ≤ b) : ((b : ℤ) - (a : ℤ)) = ((b - a : ℕ) : ℤ) := by
  omega

theorem cast_ediv_pow2 (x k : ℕ) : ((x : ℤ) / pow2 (k : ℤ)) = ((x / 2 ^ k : ℕ) : ℤ) := by
  rw [pow2_cast]; norm_cast

theorem cast_emod_pow2 (x k : ℕ) : ((x : ℤ) % pow2 (k : ℤ)) = ((x % 2 ^ k : ℕ) : ℤ) := by
  rw [pow2_cast]; norm_cast

theorem cast_mul_pow2 (x k : ℕ) : ((x : ℤ) * pow2 (k : ℤ)) = ((x * 2 ^ k : ℕ) : ℤ) := by
  rw [pow2_cast]; norm_cast

/-! ### `_ax_pow2` -/

theorem P_pos (a : ℤ) : a ≥ 0 → pow2 a ≥ 1 := by
  intro h
  have := pow2_pos a
  omega

theorem P_zero (a : ℤ) : a = 0 → pow2 a = 1 := by
  rintro rfl; simp [pow2]

theorem P_one (a : ℤ) : a = 1 → pow2 a = 2 := by
  rintro rfl; norm_num [pow2]

theorem P_two (a : ℤ) : a = 2 → pow2 a = 4 := by
  rintro rfl
  have e : (2 : ℤ).toNat = 2 := rfl
  unfold pow2
  rw [e]
  norm_num

theorem P_ge (a : ℤ) : a ≥ 0 → pow2 a > a := by
  intro h
  lift a to ℕ using h
  rw [pow2_cast]
  exact_mod_cast FpyLemmas.P_ge a

theorem P_step (a : ℤ) : a ≥ 1 → pow2 a = 2 * pow2 (a - 1) := by
  intro h
  have e := pow2_add 1 (a - 1) (by norm_num) (by omega)
  have e1 : pow2 1 = 2 := by norm_num [pow2]
  rw [e1] at e
  rw [← e]
  congr 1
  ring

/-! ### `_ax_bl` -/

theorem B_zero (c : ℤ) : c = 0 → bl c = 0 := by
  rintro rfl; simp [bl]

theorem B_nonneg (c : ℤ) : c ≥ 0 → bl c ≥ 0 := by
  intro _; unfold bl; positivity

theorem B_one (c : ℤ) : c = 1 → bl c = 1 := by
  rintro rfl; simp [bl, Nat.size_one]

theorem B_pos (c : ℤ) : c > 0 → bl c ≥ 1 := by
  intro h
  lift c to ℕ using h.le
  rw [bl_cast]
  have := FpyLemmas.B_pos c (by exact_mod_cast h)
  exact_mod_cast this

theorem B_bracket (c : ℤ) : c > 0 → pow2 (bl c - 1) ≤ c ∧ c < pow2 (bl c) := by
  intro h
  lift c to ℕ using h.le
  have hc : 0 < c := by exact_mod_cast h
  have h1 := FpyLemmas.B_pos c hc
  rw [bl_cast]
  have e : ((Nat.size c : ℤ) - 1) = ((Nat.size c - 1 : ℕ) : ℤ) := by omega
  rw [e, pow2_cast, pow2_cast]
  exact_mod_cast FpyLemmas.B_bracket c hc

theorem B_bracket2 (c : ℤ) : c > 0 → pow2 (bl c) = 2 * pow2 (bl c - 1) := by
  intro h
  have := B_pos c h
  exact P_step (bl c) this

/-- S1 with `c = x / pow2 kk` -/
theorem S1 (x kk : ℤ) : x ≥ 0 ∧ kk ≥ 0 →
    bl (x / pow2 kk) = if bl x - kk ≥ 0 then bl x - kk else 0 := by
  rintro ⟨hx, hk⟩
  lift x to ℕ using hx
  lift kk to ℕ using hk
  rw [cast_ediv_pow2, bl_cast, bl_cast, FpyLemmas.S1]
  split_ifs <;> omega

/-- S3 with `c = x % pow2 kk`; note: NO guard on `x` -/
theorem S3 (x kk : ℤ) : kk ≥ 0 → bl (x % pow2 kk) ≤ kk := by
  intro hk
  lift kk to ℕ using hk
  have hp := pow2_pos (kk : ℤ)
  have h0 : 0 ≤ x % pow2 (kk : ℤ) := Int.emod_nonneg _ (ne_of_gt hp)
  have h1 : x % pow2 (kk : ℤ) < pow2 (kk : ℤ) := Int.emod_lt_of_pos _ hp
  generalize x % pow2 (kk : ℤ) = r at h0 h1 ⊢
  lift r to ℕ using h0
  rw [pow2_cast] at h1
  rw [bl_cast]
  have h2 : r < 2 ^ kk := by exact_mod_cast h1
  exact_mod_cast Nat.size_le.mpr h2

/-- S2 with `c = x * pow2 kk` -/
theorem S2 (x kk : ℤ) : x > 0 ∧ kk ≥ 0 → bl (x * pow2 kk) = bl x + kk := by
  rintro ⟨hx, hk⟩
  lift x to ℕ using hx.le
  lift kk to ℕ using hk
  have hx' : 0 < x := by exact_mod_cast hx
  rw [cast_mul_pow2, bl_cast, bl_cast, FpyLemmas.S2 x kk hx']
  push_cast
  rfl

/-- S2, other operand order: `c = pow2 kk * x` -/
theorem S2' (x kk : ℤ) : x > 0 ∧ kk ≥ 0 → bl (pow2 kk * x) = bl x + kk := by
  rw [mul_comm]; exact S2 x kk

/-! ### `_ax_pp` -/

theorem PP_mono (a b : ℤ) : a ≥ 0 ∧ a ≤ b → pow2 a ≤ pow2 b := by
  rintro ⟨ha, hab⟩
  lift a to ℕ using ha
  lift b to ℕ using (by omega)
  rw [pow2_cast, pow2_cast]
  exact_mod_cast FpyLemmas.PP_mono a b (by exact_mod_cast hab)

theorem PP_strict (a b : ℤ) : a ≥ 0 ∧ a < b → 2 * pow2 a ≤ pow2 b := by
  rintro ⟨ha, hab⟩
  lift a to ℕ using ha
  lift b to ℕ using (by omega)
  rw [pow2_cast, pow2_cast]
  exact_mod_cast FpyLemmas.PP_strict a b (by exact_mod_cast hab)

theorem PP_split (a b : ℤ) : a ≥ 0 ∧ a ≤ b → pow2 b = pow2 a * pow2 (b - a) := by
  rintro ⟨ha, hab⟩
  rw [← pow2_add a (b - a) ha (by omega)]
  congr 1
  ring

/-! ### `_ax_bb` -/

theorem BB_mono (a b : ℤ) : a ≥ 0 ∧ a ≤ b → bl a ≤ bl b := by
  rintro ⟨ha, hab⟩
  lift a to ℕ using ha
  lift b to ℕ using (by omega)
  rw [bl_cast, bl_cast]
  exact_mod_cast FpyLemmas.BB_mono a b (by exact_mod_cast hab)

theorem S7 (a b : ℤ) : a ≥ 0 ∧ b = a + 1 ∧ bl b > bl a → b = pow2 (bl a) := by
  rintro ⟨ha, rfl, h⟩
  lift a to ℕ using ha
  have e : ((a : ℤ) + 1) = ((a + 1 : ℕ) : ℤ) := by push_cast; rfl
  rw [e] at h ⊢
  rw [bl_cast, bl_cast] at h
  rw [bl_cast, pow2_cast]
  have h' : Nat.size a < Nat.size (a + 1) := by exact_mod_cast h
  exact_mod_cast FpyLemmas.S7 a h'

theorem S7b (a b : ℤ) : a ≥ 0 ∧ b = a + 1 → bl b ≤ bl a + 1 := by
  rintro ⟨ha, rfl⟩
  lift a to ℕ using ha
  have e : ((a : ℤ) + 1) = ((a + 1 : ℕ) : ℤ) := by push_cast; rfl
  rw [e, bl_cast, bl_cast]
  exact_mod_cast FpyLemmas.S7b a

/-! ### `_ax_bp` -/

theorem S4 (x k : ℤ) : x ≥ 0 ∧ k ≥ 0 → ((bl x ≤ k) ↔ (x < pow2 k)) := by
  rintro ⟨hx, hk⟩
  lift x to ℕ using hx
  lift k to ℕ using hk
  rw [bl_cast, pow2_cast]
  norm_cast
  exact Nat.size_le

theorem S4b (x k : ℤ) : k ≥ 0 → (x = pow2 k → bl x = k + 1) := by
  rintro hk rfl
  lift k to ℕ using hk
  rw [pow2_cast, bl_cast, Nat.size_pow]
  push_cast
  rfl

/-! ### `_ax_dm`  (`q = num / pow2 k`, `r = num % pow2 k`; `num` is an arbitrary integer) -/

theorem DM_def (num k : ℤ) : k ≥ 0 →
    num = num / pow2 k * pow2 k + num % pow2 k ∧ num % pow2 k ≥ 0 ∧ num % pow2 k < pow2 k := by
  intro _
  have hp := pow2_pos k
  exact ⟨(Int.ediv_mul_add_emod num (pow2 k)).symm, Int.emod_nonneg _ (ne_of_gt hp),
    Int.emod_lt_of_pos _ hp⟩

theorem DM_nonneg (num k : ℤ) : k ≥ 0 ∧ num ≥ 0 → num / pow2 k ≥ 0 ∧ num / pow2 k ≤ num := by
  rintro ⟨_, hn⟩
  exact ⟨Int.ediv_nonneg hn (pow2_pos k).le, Int.ediv_le_self _ hn⟩

theorem DM_small (num k : ℤ) : k ≥ 0 ∧ num ≥ 0 ∧ num < pow2 k →
    num / pow2 k = 0 ∧ num % pow2 k = num := by
  rintro ⟨_, h0, h1⟩
  exact ⟨Int.ediv_eq_zero_of_lt h0 h1, Int.emod_eq_of_lt h0 h1⟩

/-- S6 with `num = a * pow2 j`; `a` is an arbitrary integer -/
theorem S6 (a j k : ℤ) : k ≥ 0 ∧ k ≤ j → (a * pow2 j) % pow2 k = 0 := by
  rintro ⟨hk, hkj⟩
  have e : pow2 j = pow2 k * pow2 (j - k) := PP_split k j ⟨hk, hkj⟩
  rw [e]
  apply Int.emod_eq_zero_of_dvd
  exact Dvd.intro (a * pow2 (j - k)) (by ring)

theorem S6' (a j k : ℤ) : k ≥ 0 ∧ k ≤ j → (pow2 j * a) % pow2 k = 0 := by
  rw [mul_comm]; exact S6 a j k

/-- S6q with `num = a * pow2 j`; `a` is an arbitrary integer -/
theorem S6q (a j k : ℤ) : k ≥ 0 ∧ k ≤ j → (a * pow2 j) / pow2 k = a * pow2 (j - k) := by
  rintro ⟨hk, hkj⟩
  have e : pow2 j = pow2 k * pow2 (j - k) := PP_split k j ⟨hk, hkj⟩
  have e2 : a * (pow2 k * pow2 (j - k)) = (a * pow2 (j - k)) * pow2 k := by ring
  rw [e, e2, Int.mul_ediv_cancel _ (ne_of_gt (pow2_pos k))]

theorem S6q' (a j k : ℤ) : k ≥ 0 ∧ k ≤ j → (pow2 j * a) / pow2 k = a * pow2 (j - k) := by
  rw [mul_comm]; exact S6q a j k

/-! ### `_ax_dd`  (`qa = x / pow2 a`, `qb = x / pow2 b`) -/

theorem DD_nest (x a b : ℤ) : a ≥ 0 ∧ a ≤ b ∧ x ≥ 0 →
    x / pow2 b = (x / pow2 a) / pow2 (b - a) := by
  rintro ⟨ha, hab, hx⟩
  lift a to ℕ using ha
  lift b to ℕ using (by omega)
  lift x to ℕ using hx
  have hab' : a ≤ b := by exact_mod_cast hab
  rw [cast_sub_of_le a b hab', cast_ediv_pow2, cast_ediv_pow2, cast_ediv_pow2]
  exact_mod_cast FpyLemmas.DD_nest x a b hab'

theorem DD_mod (x a b : ℤ) : a ≥ 0 ∧ a ≤ b ∧ x ≥ 0 →
    (x / pow2 a) % pow2 (b - a) = (x % pow2 b) / pow2 a := by
  rintro ⟨ha, hab, hx⟩
  lift a to ℕ using ha
  lift b to ℕ using (by omega)
  lift x to ℕ using hx
  have hab' : a ≤ b := by exact_mod_cast hab
  rw [cast_sub_of_le a b hab', cast_ediv_pow2, cast_emod_pow2, cast_emod_pow2, cast_ediv_pow2]
  exact_mod_cast FpyLemmas.DD_mod x a b hab'

theorem DD_mono (x a b : ℤ) : a ≥ 0 ∧ a ≤ b ∧ x ≥ 0 → x / pow2 b ≤ x / pow2 a := by
  rintro ⟨ha, hab, hx⟩
  lift a to ℕ using ha
  lift b to ℕ using (by omega)
  lift x to ℕ using hx
  have hab' : a ≤ b := by exact_mod_cast hab
  rw [cast_ediv_pow2, cast_ediv_pow2]
  exact_mod_cast FpyLemmas.DD_mono x a b hab'

/-! ### `_ax_mul`  (`t = x * pow2 k`) -/

theorem S2i (x k : ℤ) : x > 0 ∧ k ≥ 0 → bl (x * pow2 k) = bl x + k := S2 x k

/-- M.sign; `x` is an arbitrary integer -/
theorem M_sign (x k : ℤ) : k ≥ 0 →
    ((x * pow2 k ≥ 0) ↔ (x ≥ 0)) ∧ ((x * pow2 k > 0) ↔ (x > 0)) ∧ ((x * pow2 k = 0) ↔ (x = 0)) := by
  intro _
  have hp := pow2_pos k
  refine ⟨?_, ?_, ?_⟩
  · constructor
    · intro h
      by_contra hx
      have : x * pow2 k < 0 := mul_neg_of_neg_of_pos (by omega) hp
      omega
    · intro h; exact mul_nonneg h hp.le
  · constructor
    · intro h
      by_contra hx
      have : x * pow2 k ≤ 0 := mul_nonpos_of_nonpos_of_nonneg (by omega) hp.le
      omega
    · intro h; exact mul_pos h hp
  · constructor
    · intro h
      rcases mul_eq_zero.mp h with h | h
      · exact h
      · omega
    · rintro rfl; simp

theorem M_ge (x k : ℤ) : x ≥ 0 ∧ k ≥ 0 → x * pow2 k ≥ x := by
  rintro ⟨hx, _⟩
  have hp := pow2_pos k
  nlinarith

/-! ### `_ax_ipow`  (`t = ipow b e`; `b` is an arbitrary integer) -/

theorem IP_zero (b e : ℤ) : e = 0 → ipow b e = 1 := by
  rintro rfl; simp [ipow]

theorem IP_one (b e : ℤ) : e = 1 → ipow b e = b := by
  rintro rfl; simp [ipow]

theorem IP_pos (b e : ℤ) : b > 0 ∧ e ≥ 0 → ipow b e > 0 := by
  rintro ⟨hb, _⟩
  exact pow_pos hb _

theorem IP_nonneg (b e : ℤ) : b ≥ 0 ∧ e ≥ 0 → ipow b e ≥ 0 := by
  rintro ⟨hb, _⟩
  exact pow_nonneg hb _

theorem IP_zerob (b e : ℤ) : b = 0 ∧ e > 0 → ipow b e = 0 := by
  rintro ⟨rfl, he⟩
  unfold ipow
  apply zero_pow
  omega

theorem IP_two (b e : ℤ) : b = 2 ∧ e ≥ 0 → ipow b e = pow2 e := by
  rintro ⟨rfl, _⟩
  rfl

/-! ### second batch (schemas added to theory.py later): DM.one, M.ge2, MM.*, TZ.*, CL -/

/-- reference interpretation of the SMT function `tz` (only `x > 0` matters) -/
def tz (x : ℤ) : ℤ := (FpyLemmas.tz x.toNat : ℤ)

theorem tz_cast (x : ℕ) : tz (x : ℤ) = (FpyLemmas.tz x : ℤ) := by
  simp [tz]

theorem cast_size_pred (c : ℕ) (h : 0 < c) : ((Nat.size c : ℤ) - 1) = ((Nat.size c - 1 : ℕ) : ℤ) := by
  have := FpyLemmas.B_pos c h
  omega

/-- DM.one (option 'DM1'); `num` unguarded (but `num ≥ pow2 k > 0`) -/
theorem DM_one (num k : ℤ) : k ≥ 0 ∧ num ≥ pow2 k ∧ num < 2 * pow2 k →
    num / pow2 k = 1 ∧ num % pow2 k = num - pow2 k := by
  rintro ⟨hk, h1, h2⟩
  have hp := pow2_pos k
  lift num to ℕ using (by omega)
  lift k to ℕ using hk
  rw [cast_ediv_pow2, cast_emod_pow2]
  rw [pow2_cast] at h1 h2 ⊢
  have h1' : 2 ^ k ≤ num := by exact_mod_cast h1
  have h2' : num < 2 * 2 ^ k := by exact_mod_cast h2
  obtain ⟨hq, hr⟩ := FpyLemmas.DM_one num k h1' h2'
  rw [hq, hr]
  refine ⟨by norm_num, ?_⟩
  push_cast [Nat.cast_sub h1']
  rfl

/-- M.ge2 (option 'MM') with `t = x * pow2 k` -/
theorem M_ge2 (x k : ℤ) : x ≥ 0 ∧ k ≥ 1 → x * pow2 k ≥ 2 * x := by
  rintro ⟨hx, hk⟩
  have e := P_step k hk
  have hp := pow2_pos (k - 1)
  rw [e]
  nlinarith

/-- MM.div with `u = x % pow2 a`, `v = x % pow2 b`; `x` is an arbitrary integer -/
theorem MM_div (x a b : ℤ) : a ≥ 0 ∧ a ≤ b ∧ x % pow2 b = 0 → x % pow2 a = 0 := by
  rintro ⟨ha, hab, hv⟩
  have e : pow2 b = pow2 a * pow2 (b - a) := PP_split a b ⟨ha, hab⟩
  have d1 : pow2 a ∣ pow2 b := Dvd.intro _ e.symm
  have d2 : pow2 b ∣ x := Int.dvd_of_emod_eq_zero hv
  exact Int.emod_eq_zero_of_dvd (dvd_trans d1 d2)

/-- MM.le with `u = x % pow2 a`, `v = x % pow2 b` -/
theorem MM_le (x a b : ℤ) : a ≥ 0 ∧ a ≤ b ∧ x ≥ 0 → x % pow2 a ≤ x % pow2 b := by
  rintro ⟨ha, hab, hx⟩
  lift a to ℕ using ha
  lift b to ℕ using (by omega)
  lift x to ℕ using hx
  have hab' : a ≤ b := by exact_mod_cast hab
  rw [cast_emod_pow2, cast_emod_pow2]
  exact_mod_cast FpyLemmas.MM_le x a b hab'

theorem mul_lt_mul_right_iff' (a c p : ℤ) (hp : 0 < p) : a * p < c * p ↔ a < c :=
  ⟨fun h => lt_of_mul_lt_mul_right h hp.le, fun h => mul_lt_mul_of_pos_right h hp⟩

theorem MM_aux (b j k : ℤ) (hj : j ≥ 0) (hjk : j ≤ k) :
    b * pow2 k = (b * pow2 (k - j)) * pow2 j := by
  rw [PP_split j k ⟨hj, hjk⟩]; ring

/-- MM.lt (option 'MM') with `ta = a * pow2 j`, `tb = b * pow2 k`, `d = pow2 (k - j)`; `a`, `b` arbitrary integers -/
theorem MM_lt (a b j k : ℤ) : j ≥ 0 ∧ j ≤ k →
    ((a * pow2 j < b * pow2 k) ↔ (a < b * pow2 (k - j))) := by
  rintro ⟨hj, hjk⟩
  rw [MM_aux b j k hj hjk]
  exact mul_lt_mul_right_iff' _ _ _ (pow2_pos j)

theorem MM_gt (a b j k : ℤ) : j ≥ 0 ∧ j ≤ k →
    ((b * pow2 k < a * pow2 j) ↔ (b * pow2 (k - j) < a)) := by
  rintro ⟨hj, hjk⟩
  rw [MM_aux b j k hj hjk]
  exact mul_lt_mul_right_iff' _ _ _ (pow2_pos j)

theorem MM_eq (a b j k : ℤ) : j ≥ 0 ∧ j ≤ k →
    ((a * pow2 j = b * pow2 k) ↔ (a = b * pow2 (k - j))) := by
  rintro ⟨hj, hjk⟩
  rw [MM_aux b j k hj hjk]
  constructor
  · intro h
    exact mul_right_cancel₀ (ne_of_gt (pow2_pos j)) h
  · intro h
    rw [h]

/-- What theory.py emitted (before fix b15ccef) for two remainders of one numerator while `_ax_mm` was defined twice
(the product version shadowed the remainder version and read `x % pow2 a` as `x * pow2 a`):
that formula is false (`x = 4`, `a = 1`, `b = 2`). -/
theorem MM_lt_on_remainders_is_false :
    ¬ (∀ x a b : ℤ, a ≥ 0 ∧ a ≤ b → ((x % pow2 a < x % pow2 b) ↔ (x < x * pow2 (b - a)))) := by
  intro h
  have h1 := h 4 1 2 ⟨by norm_num, by norm_num⟩
  have p1 : pow2 1 = 2 := P_one 1 rfl
  have p2 : pow2 2 = 4 := P_two 2 rfl
  have e : (2 : ℤ) - 1 = 1 := by norm_num
  rw [e, p1, p2] at h1
  have h2 := h1.mpr (by norm_num)
  norm_num at h2

/-! #### `_ax_tz` -/

theorem TZ_range (x : ℤ) : x > 0 → tz x ≥ 0 ∧ tz x ≤ bl x - 1 := by
  intro h
  lift x to ℕ using h.le
  have hx : 0 < x := by exact_mod_cast h
  rw [tz_cast, bl_cast]
  have h1 := FpyLemmas.TZ_range x hx
  have h2 := FpyLemmas.B_pos x hx
  omega

theorem TZ_div (x : ℤ) : x > 0 → x % pow2 (tz x) = 0 ∧ (x / pow2 (tz x)) % 2 = 1 := by
  intro h
  lift x to ℕ using h.le
  have hx : 0 < x := by exact_mod_cast h
  rw [tz_cast, cast_emod_pow2, cast_ediv_pow2]
  obtain ⟨h1, h2⟩ := FpyLemmas.TZ_div x hx
  exact ⟨by exact_mod_cast h1, by exact_mod_cast h2⟩

theorem TZ_le (x : ℤ) : x > 0 → pow2 (tz x) ≤ x := by
  intro h
  lift x to ℕ using h.le
  have hx : 0 < x := by exact_mod_cast h
  rw [tz_cast, pow2_cast]
  exact_mod_cast FpyLemmas.TZ_le x hx

theorem TZ_pow2 (x : ℤ) : x > 0 → ((x = pow2 (tz x)) ↔ (tz x = bl x - 1)) := by
  intro h
  lift x to ℕ using h.le
  have hx : 0 < x := by exact_mod_cast h
  rw [tz_cast, pow2_cast, bl_cast]
  have key := FpyLemmas.TZ_pow2 x hx
  have hpos := FpyLemmas.B_pos x hx
  constructor
  · intro h'
    have h'' : x = 2 ^ FpyLemmas.tz x := by exact_mod_cast h'
    have := key.mp h''
    omega
  · intro h'
    have h'' : FpyLemmas.tz x = Nat.size x - 1 := by omega
    exact_mod_cast key.mpr h''

theorem TZ_pow2b (x : ℤ) : x > 0 → ((x = pow2 (bl x - 1)) ↔ (tz x = bl x - 1)) := by
  intro h
  lift x to ℕ using h.le
  have hx : 0 < x := by exact_mod_cast h
  rw [tz_cast, bl_cast, cast_size_pred x hx, pow2_cast]
  have key := FpyLemmas.TZ_pow2b x hx
  constructor
  · intro h'
    have h'' : x = 2 ^ (Nat.size x - 1) := by exact_mod_cast h'
    exact_mod_cast key.mp h''
  · intro h'
    have h'' : FpyLemmas.tz x = Nat.size x - 1 := by exact_mod_cast h'
    exact_mod_cast key.mpr h''

/-- refutation-mode table row for `tz` (`bounded_defs`): `x % 2^(k+1) = 2^k ∧ tz x = k` holds for `k = tz x` ... -/
theorem TZ_bounded (x : ℤ) : x > 0 → x % pow2 (tz x + 1) = pow2 (tz x) := by
  intro h
  lift x to ℕ using h.le
  have hx : 0 < x := by exact_mod_cast h
  rw [tz_cast]
  have e : ((FpyLemmas.tz x : ℤ) + 1) = ((FpyLemmas.tz x + 1 : ℕ) : ℤ) := by push_cast; rfl
  rw [e, cast_emod_pow2, pow2_cast]
  exact_mod_cast FpyLemmas.TZ_bounded x hx

/-- ... and for no other `k` -/
theorem TZ_bounded_unique (x k : ℤ) : x > 0 ∧ k ≥ 0 ∧ x % pow2 (k + 1) = pow2 k → tz x = k := by
  rintro ⟨h, hk, hm⟩
  lift x to ℕ using h.le
  lift k to ℕ using hk
  have e : ((k : ℤ) + 1) = ((k + 1 : ℕ) : ℤ) := by push_cast; rfl
  rw [e, cast_emod_pow2, pow2_cast] at hm
  have hm' : x % 2 ^ (k + 1) = 2 ^ k := by exact_mod_cast hm
  rw [tz_cast]
  exact_mod_cast FpyLemmas.TZ_bounded_unique x k hm'

/-- law CL as assumed in pyvc/interp.py for `big & (big-1)`, `big ≥ 1`, `r = big - pow2 (tz big)` -/
theorem CL (big : ℤ) : big ≥ 1 →
    big - pow2 (tz big) ≥ 0 ∧ big - pow2 (tz big) < big ∧
      ((big - pow2 (tz big) = 0) ↔ (big = pow2 (bl big - 1))) := by
  intro h
  have hpos := pow2_pos (tz big)
  have hle := TZ_le big (by omega)
  refine ⟨by omega, by omega, ?_⟩
  have k1 := TZ_pow2 big (by omega)
  have k2 := TZ_pow2b big (by omega)
  constructor
  · intro h0
    exact k2.mpr (k1.mp (by omega))
  · intro h1
    have := k1.mpr (k2.mp h1)
    omega

/-- TZ.def: for `x > 0` the bitwise `x & (x-1)` (on naturals) is `x - pow2 (tz x)` -/
theorem TZ_def (x : ℤ) : x > 0 → ((x.toNat &&& (x.toNat - 1) : ℕ) : ℤ) = x - pow2 (tz x) := by
  intro h
  lift x to ℕ using h.le
  have hx : 0 < x := by exact_mod_cast h
  rw [tz_cast, pow2_cast, Int.toNat_natCast, FpyLemmas.TZ_def x hx]
  exact Nat.cast_sub (FpyLemmas.TZ_le x hx)

/-! ### negative controls: the literal layer does see guards (dropping one makes a schema false) -/

/-- S2 without its guard `x > 0` is false (`x = 0`, `kk = 1`). -/
theorem S2_guard_needed : ¬ (∀ x kk : ℤ, kk ≥ 0 → bl (x * pow2 kk) = bl x + kk) := by
  intro h
  have := h 0 1 (by norm_num)
  simp [bl] at this

/-- S6 without its guard `k ≤ j` is false (`a = 1`, `j = 0`, `k = 1`). -/
theorem S6_guard_needed : ¬ (∀ a j k : ℤ, k ≥ 0 → (a * pow2 j) % pow2 k = 0) := by
  intro h
  have := h 1 0 1 (by norm_num)
  norm_num [pow2] at this

end FpyLemmas.Z
