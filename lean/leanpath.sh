# sourced by check.sh : sets LEAN_PATH for the precompiled Mathlib (no `lake env`, which costs ~50 s of I/O)
MATHLIB_DIR="${MATHLIB_DIR:-/opt/veriftools/mathlib4}"
LP="$MATHLIB_DIR/.lake/build/lib/lean"
for d in "$MATHLIB_DIR"/.lake/packages/*/.lake/build/lib/lean; do
  [ -d "$d" ] && LP="$LP:$d"
done
export LEAN_PATH="$LP"
