# Reproduces the soundness bug reported in lean/STATUS.md: _ax_mm is defined twice in pyvc/theory.py, so two
# remainders x % pow2(a), x % pow2(b) get the PRODUCT schemas MM.lt/gt/eq, which are false for them.
# Run: python3-vt lean/repro_mm_shadow.py   ("unsat" twice while the bug is present; "sat" twice after the fix b15ccef)
import sys
import os; sys.path.insert(0, os.path.join(os.path.dirname(os.path.abspath(__file__)), '..'))
import z3
from pyvc import theory as T
x, a, b = z3.Ints('x a b')
f = z3.And(x % T.pow2(a) >= 0, x % T.pow2(b) >= 0)
ax, names = T.instantiate([f])
print(sorted(set(names)))
for n, A in zip(names, ax):
    if n.startswith('MM'):
        print(n, A)
# standard-model consistency at x=4, a=1, b=2
s = z3.Solver()
s.add(ax)
s.add(T.bounded_defs([f] + ax, 8))
s.add(x == 4, a == 1, b == 2)
print('axioms + standard model + (x=4,a=1,b=2):', s.check())
# direct "proof" of a false claim: x=4,a=1,b=2 is impossible
s2 = z3.Solver(); s2.add(ax); s2.add(x == 4, a == 1, b == 2)
s2.add(T.pow2(1) == 2, T.pow2(2) == 4, T.pow2(0) == 1)
print('axioms + pow2(0..2) standard + (x=4,a=1,b=2):', s2.check())
