"""
Type descriptors for symbolic inputs / fresh results.

  ('int',) ('bool',) ('none',) ('float',) ('frac',) ('str',) ('any',)
  ('obj', ClassInfo)  ('enum', ClassInfo)  ('default',)   # the DEFAULT sentinel
  ('union', (t1, t2, ...))  ('tuple', (t1, ...))  ('seq', t)  ('opaque', name)

Parsed from strings given in contract files, or from the annotations found in
the class bodies of the repository (fields of an object are read from the
class's annotations, base classes first).
"""
from __future__ import annotations

import ast

from .source import ClassInfo, SourceIndex
from .values import Unsupported

INT = ('int',)
BOOL = ('bool',)
NONE = ('none',)
FLOAT = ('float',)
FRAC = ('frac',)
STR = ('str',)
ANY = ('any',)
DEFAULT_T = ('default',)


def union(*alts):
    flat = []
    for a in alts:
        if a[0] == 'union':
            for b in a[1]:
                if b not in flat:
                    flat.append(b)
        elif a not in flat:
            flat.append(a)
    if len(flat) == 1:
        return flat[0]
    return ('union', tuple(flat))


_BUILTIN = {
    'int': INT, 'bool': BOOL, 'None': NONE, 'float': FLOAT, 'Fraction': FRAC,
    'str': STR, 'Any': ANY, 'object': ANY,
    'numstr': ('numstr',),     # symbolic numeral spelling (pyvc/strings.py)
    # concrete float sentinels (for fields documented as `int | float('inf')` etc.)
    'PosInf': ('fconst', 'inf'), 'NegInf': ('fconst', '-inf'), 'FloatNaN': ('fconst', 'nan'),
}


class TypeParser:
    def __init__(self, index: SourceIndex, default_modules: list[str]):
        self.index = index
        self.default_modules = default_modules

    def parse_str(self, s: str, modname: str | None = None, self_cls: ClassInfo | None = None):
        node = ast.parse(s.strip(), mode='eval').body
        return self.parse(node, modname, self_cls)

    def _lookup(self, name: str, modname: str | None):
        mods = ([modname] if modname else []) + self.default_modules
        for m in mods:
            r = self.index.lookup(m, name)
            if r is not None and r[0] != 'external':
                return r
            if r is not None and r[0] == 'external':
                ext = r
        return locals().get('ext')

    def parse(self, node: ast.expr, modname: str | None, self_cls: ClassInfo | None = None, depth=0):
        if depth > 20:
            return ('opaque', 'deep')
        P = lambda n: self.parse(n, modname, self_cls, depth + 1)
        if isinstance(node, ast.Constant):
            if node.value is None:
                return NONE
            if isinstance(node.value, str):
                return self.parse(ast.parse(node.value, mode='eval').body, modname, self_cls, depth + 1)
            raise Unsupported(f'type constant {node.value!r}')
        if isinstance(node, ast.BinOp) and isinstance(node.op, ast.BitOr):
            return union(P(node.left), P(node.right))
        if isinstance(node, ast.Name):
            nm = node.id
            if nm in _BUILTIN:
                return _BUILTIN[nm]
            if nm == 'Self':
                if self_cls is None:
                    raise Unsupported('Self outside class')
                return ('obj', self_cls)
            r = self._lookup(nm, modname)
            if r is None:
                return ('opaque', nm)
            if r[0] == 'class':
                ci = r[1]
                if self.index.is_enum(ci):
                    if ci.name == 'Default':
                        return DEFAULT_T
                    return ('enum', ci)
                return ('obj', ci)
            if r[0] == 'assign':
                # type alias
                return self.parse(r[2], r[1].name, self_cls, depth + 1)
            if r[0] == 'external':
                full = f'{r[1]}.{r[2]}'
                if full in ('fractions.Fraction',):
                    return FRAC
                if full in ('numbers.Rational',):
                    return union(INT, FRAC)
                return ('opaque', full)
            return ('opaque', nm)
        if isinstance(node, ast.Attribute):
            full = ast.unparse(node)
            if full.endswith('Fraction'):
                return FRAC
            return ('opaque', full)
        if isinstance(node, ast.Subscript):
            base = node.value
            bname = base.id if isinstance(base, ast.Name) else ast.unparse(base)
            sl = node.slice
            elts = list(sl.elts) if isinstance(sl, ast.Tuple) else [sl]
            if bname in ('Optional',):
                return union(P(elts[0]), NONE)
            if bname in ('Union',):
                return union(*[P(e) for e in elts])
            if bname in ('tuple', 'Tuple'):
                if len(elts) == 2 and isinstance(elts[1], ast.Constant) and elts[1].value is Ellipsis:
                    return ('seq', P(elts[0]), 'tuple')
                return ('tuple', tuple(P(e) for e in elts))
            if bname in ('list', 'List', 'Sequence', 'Iterable', 'Collection'):
                return ('seq', P(elts[0]), 'list' if bname in ('list', 'List') else 'tuple')
            from . import containers   # containers
            ct = containers.parse_generic(self, bname, elts, P)
            if ct is not None:
                return ct
            if bname == 'DefaultOr':
                return union(P(elts[0]), DEFAULT_T)
            if bname == 'Literal':
                if len(elts) == 1 and isinstance(elts[0], ast.Constant):
                    return ('const', elts[0].value)      # Literal[c]: the concrete constant c (witness contracts)
                return ('opaque', 'Literal')
            if bname in ('type', 'Type'):
                return ('opaque', 'type')
            return ('opaque', bname)
        return ('opaque', ast.unparse(node))


def show(t) -> str:
    k = t[0]
    if k in ('obj', 'enum'):
        return t[1].name
    if k == 'union':
        return ' | '.join(show(a) for a in t[1])
    if k == 'tuple':
        return 'tuple[' + ', '.join(show(a) for a in t[1]) + ']'
    if k == 'seq':
        return f'list[{show(t[1])}]'
    if k == 'opaque':
        return f'opaque<{t[1]}>'
    if k == 'fconst':
        return f'float({t[1]})'
    return k
