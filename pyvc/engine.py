"""
Explorer: drives path exploration of one function against its contract,
generates the obligations and discharges them (z3, then cvc5 on the SMT-LIB
dump, then z3 with another seed).
"""
from __future__ import annotations

import ast
from fractions import Fraction
import copy
import os
import subprocess
import tempfile
import traceback
import time
from collections import defaultdict, deque

import z3

from . import theory
from . import containers   # containers
from .interp import (Frame, MergeAbort, Obligation, Path, PathInfeasible, SymRaise, _Return,
                     mk_exc)
from . import seqs
from .intrinsics import Intrinsics
from .source import ClassInfo, ExtractionError, FunctionInfo, SourceIndex
from .types import TypeParser, show
from .values import (ClassV, EnumV, ExcV, ExtV, FlagV, FuncV, InterpError, Lazy, Opaque, SObj,
                     SymFloat, Unsupported, as_z3bool, is_z3, simp)


MISSING_ = object()


class Tags:
    def __init__(self):
        self.mask = {}
        self.shl = {}
        self.keep = []


class Contract:
    def __init__(self, index: SourceIndex, ci: ClassInfo):
        self.ci = ci
        self.name = ci.name
        self.kind = 'lemma' if any(isinstance(b, ast.Name) and b.id == 'Lemma' for b in ci.node.bases) else 'contract'
        g = lambda k, d=None: ast.literal_eval(ci.class_attrs[k]) if k in ci.class_attrs else d
        self.target: str | None = g('target')
        self.params: dict = g('params', {})
        self.returns: str = g('returns', 'None')
        self.split: list = g('split', [])
        self.overrides: dict = g('overrides', {})
        self.inline: bool = g('inline', False)
        self.trusted: bool = g('trusted', False)
        self.modifies: list = g('modifies', [])
        self.props: list = g('properties', [])
        self.opts: dict = g('options', {})
        self.use: list | None = g('use', None)      # restrict which contracts are used modularly (None = all)
        self.no_use: list = g('no_use', [])
        self.note: str = g('note', '')
        self.loop_types: dict = g('loop_types', {})   # loop index -> {assigned variable: type string}
        self.aliases: dict = g('aliases', {})         # 'a.b': 'c.d'  -- input field a.b IS the object c.d
        self.may_raise: list = g('may_raise', [])   # exceptions the function may raise under no stated condition
        # binds = {'result._ctx': 'self'}: at modular call sites the named field of the fresh result *is* the named
        # input object (object identity cannot be assumed as a formula); verified as obligation #post[bind:<path>]
        self.binds: dict = g('binds', {})
        self.pre = ci.methods.get('pre')
        self.post = ci.methods.get('post')
        self.raises = ci.methods.get('raises')
        self.decreases = ci.methods.get('decreases')   # termination measure (tuple), see seqs.lex_less
        self.axioms = ci.methods.get('axioms')      # definitional facts about ghosts: assumed when verifying, not obliged at call sites

    @property
    def short(self) -> str:
        if self.target:
            return self.target.split(':')[1]
        return self.name


def load_contracts(index: SourceIndex, modules: list[str]) -> dict[str, Contract]:
    out = {}
    for m in modules:
        mi = index.module(m)
        if mi is None:
            raise ExtractionError(f'contract module not found: {m}')
        for ci in mi.classes.values():
            bases = [b.id for b in ci.node.bases if isinstance(b, ast.Name)]
            if 'Contract' in bases or 'Lemma' in bases:
                c = Contract(index, ci)
                if c.name in out:
                    # a second class of the same name would silently replace the first one
                    raise ExtractionError(f'duplicate contract name {c.name}: {out[c.name].ci.module.name} and {m}')
                out[c.name] = c
    return out


class PathResult:
    def __init__(self):
        self.outcome = None
        self.obligations = []     # (name, kind, status, secs, backend, info)
        self.unsupported = None
        self.trace = []
        self.inlined = set()
        self.modular = set()


class Explorer:
    def __init__(self, index: SourceIndex, contracts: dict[str, Contract], invariants: dict[str, FunctionInfo],
                 timeout_ms=10000, feas_timeout_ms=1000, strict=False):
        self.index = index
        self.contracts = contracts
        self.by_target = {}
        self.by_target_all = defaultdict(list)      # several contracts may share a target (disjoint operand types)
        for c in contracts.values():
            if c.target:
                self.by_target[c.target] = c
                self.by_target_all[c.target].append(c)
        self.invariants = invariants
        self.types = TypeParser(index, ['fpy2.number', 'fpy2.utils', 'fpy2', 'fpy2.ast', 'fpy2.analysis',
                                        'spec.c02', 'fpy2.number.context', 'fpy2.transform.path', 'fpy2.transform.cursor', 'fpy2.transform.error',
                                        'fpy2.analysis.format_infer', 'fpy2.number.engine'])
        # stand-in classes for external objects (Python ast nodes) live in spec modules; searched last
        self.types.default_modules += [m for m in ('spec.c06', 'spec.c07', 'spec.c07y', 'spec.c19x', 'spec.c02x') if index.module(m) is not None]
        # searched last: private classes of the format analysis (`_FormatInferInstance`) and the stand-in `DefUseM` of spec/c14x_refine.py as Lemma parameter types
        self.types.default_modules += [m for m in ('fpy2.analysis.format_infer.analysis', 'spec.c14x_refine') if index.module(m) is not None]
        # C13y: probes / stand-ins of spec/c13y.py (SeedProbe, FixProbe ...), searched last
        self.types.default_modules += [m for m in ('fpy2.analysis.array_size', 'fpy2.analysis.value_class', 'spec.c13y') if index.module(m) is not None]
        self.intrinsics = Intrinsics(self)
        self.global_cache = {}
        self.tags = Tags()
        self.queue = deque()
        self.stats = defaultdict(int)
        self.feas_timeout_ms = feas_timeout_ms
        self.strict = strict
        self._feas_default = feas_timeout_ms
        self.feas_axioms = True
        self.feas_light = os.environ.get('PYVC_FEAS_LIGHT', '1') == '1'   # feasibility checks without pairwise schemas
        self.timeout_ms = timeout_ms
        self.merging = True
        self.merge_light_only = False
        self.max_depth = 60
        self.max_unroll = 64
        self.max_paths = 5000
        self.max_seconds = float(os.environ.get('PYVC_MAX_SECONDS', '1800'))
        self.native_div = True
        self.overrides = {}
        self.current: Contract | None = None
        self._enum_vals = {}
        self.externals = {}
        self.dump_dir = None
        self.draw_fn = None       # concrete RNG script (encoder cross-check only)
        self.opaque_specs = {}    # spec function name -> (fixed parameter names, return type string)
        self.quant = None
        self.refute_bound = [8, 24]
        self.refute_timeout_ms = 20000
        self.refute_quick_ms = 8000

    # ----------------------------------------------------------------- misc
    def enqueue(self, prefix):
        self.queue.append(list(prefix))

    def enum_values(self, ci: ClassInfo):
        k = ci.qualname
        if k in self._enum_vals:
            return self._enum_vals[k]
        P = Path(self, [])
        vals = []
        auto = 0
        is_flag = self.index.is_flag_enum(ci)
        for nm, expr in self.index.enum_members(ci):
            if isinstance(expr, ast.Call) and getattr(expr.func, 'id', getattr(expr.func, 'attr', None)) == 'auto':
                v = (1 << auto) if is_flag else auto + 1
                auto += 1
            else:
                P.in_global += 1
                fr = Frame(ci.module, cls=ci)
                # earlier members are visible by name
                for (n2, _), v2 in zip(self.index.enum_members(ci), vals):
                    fr.locals[n2] = v2
                v = P.ev(expr, fr)
                P.in_global -= 1
                if is_flag and isinstance(v, int):
                    auto = max(auto, v.bit_length())
            vals.append(v)
        self._enum_vals[k] = vals
        return vals

    def hash_model(self, P, v):
        # assumed stdlib contract (DESIGN H3): hash(int i) == hash(Fraction(i)) == H(i) for one uninterpreted H: Q -> Z
        from .values import is_fraclike, is_intlike
        from .intrinsics import PYHASH
        from .values import as_z3real
        if is_intlike(v) or is_fraclike(v):
            return PYHASH(as_z3real(v))
        raise Unsupported('hash() of builtin value (only int / Fraction are modelled)')

    def frac_part(self, P, v, attr):
        """
        numerator / denominator of a symbolic Fraction v: integers n, d with d >= 1 and v == n/d
        (one pair per term and path).  Of 'lowest terms' only "n, d not both even" is stated
        (all that statements about powers of two can use); full coprimality is left unspecified.
        """
        cache = P.__dict__.setdefault('_frac_parts', {})
        key = v.get_id()
        if key not in cache:
            # -w: Fraction.__neg__ keeps the denominator and negates the numerator
            w = None
            if z3.is_app(v) and v.decl().kind() == z3.Z3_OP_UMINUS:
                w = v.arg(0)
            elif z3.is_app(v) and v.decl().kind() == z3.Z3_OP_MUL and v.num_args() == 2 \
                    and z3.is_rational_value(v.arg(0)) and v.arg(0).numerator_as_long() == -1 \
                    and v.arg(0).denominator_as_long() == 1:
                w = v.arg(1)
            if w is not None:
                nw = self.frac_part(P, w, 'numerator')
                dw = self.frac_part(P, w, 'denominator')
                cache[key] = (-nw, dw, v)
                return cache[key][0] if attr == 'numerator' else cache[key][1]
            base = v.decl().name() if z3.is_const(v) else P.fresh_name('frac')
            n, d = z3.Int(base + '#num'), z3.Int(base + '#den')
            P.assume(z3.And(d >= 1, v == z3.ToReal(n) / z3.ToReal(d), z3.ToReal(n) == v * z3.ToReal(d),
                            z3.Or(n % 2 != 0, d % 2 != 0), z3.Implies(v == 0, z3.And(n == 0, d == 1)),
                            (n > 0) == (v > 0), (n < 0) == (v < 0)), fact=True)
            cache[key] = (n, d, v)
        n, d, _ = cache[key]
        return n if attr == 'numerator' else d

    def external_contract(self, name):
        return self.externals.get(name)

    def _type_matches(self, v, t) -> bool:
        from .values import is_boollike, is_fraclike, is_intlike
        k = t[0]
        if isinstance(v, Lazy):
            return True
        if k == 'union':
            return any(self._type_matches(v, a) for a in t[1])
        if k == 'int':
            return is_intlike(v)
        if k == 'bool':
            return is_boollike(v)
        if k == 'float':
            return isinstance(v, (float, SymFloat))
        if k == 'frac':
            return is_fraclike(v)
        if k == 'none':
            return v is None
        if k == 'obj':
            if isinstance(v, SObj):
                return v.cls is not None and self.index.is_subclass(v.cls, t[1])
            if v is None or isinstance(v, (bool, int, float, str, Fraction, SymFloat, tuple, list, dict)) or is_z3(v):
                return False
            return True      # other engine value kinds (keys, symbolic containers, ADTs ...): typed by their contracts
        if k == 'enum':
            return isinstance(v, EnumV) and v.cls == t[1]
        return True

    def _select_contract(self, P, info: FunctionInfo, args, kwargs):
        """among several contracts of one target: the first whose declared parameter types fit the actual arguments"""
        try:
            bound = self.bind_target(P, info, args, kwargs or {})
        except SymRaise:
            return None
        cands = self.by_target_all[info.qualname]
        if self.current is not None:
            # helper contracts written next to the contract being verified come first
            here = self.current.ci.module.name
            cands = [c for c in cands if c.ci.module.name == here] + [c for c in cands if c.ci.module.name != here]
            # c14x: a contract excluded BY NAME (`no_use` / not in `use`) is skipped here, so that the next contract of
            # the same target is tried instead of inlining (exclusion by target name still means: inline)
            cur = self.current
            cands = [c for c in cands if c.name not in cur.no_use and (cur.use is None or c.name in cur.use or c.short in cur.use)]
            # helper contracts marked options={'local': True} serve only the contracts of their own module
            cands = [c for c in cands if self._local_ok(c, here)]
        for c in cands:
            ok = True
            for p_, tstr in c.params.items():
                if p_ not in bound:
                    continue
                t = self.types.parse_str(tstr, info.module.name, info.cls)
                if not self._type_matches(bound[p_], t):
                    ok = False
                    break
            if ok:
                return c
        return None

    @staticmethod
    def _local_ok(c, here):
        """options={'local': True} -- only contracts of the same module may use c; {'local': 'contracts.c14'} -- only
        contracts of modules with that name prefix"""
        loc = c.opts.get('local')
        if not loc:
            return True
        if here is None:
            return False
        return here == c.ci.module.name if loc is True else here.startswith(loc)

    def contract_for(self, info: FunctionInfo, P=None, args=None, kwargs=None):
        c = self.by_target.get(info.qualname)
        if c is None:
            return None
        if P is not None and len(self.by_target_all[info.qualname]) > 1:
            c = self._select_contract(P, info, args, kwargs)
            if c is None:
                return None
        cur = self.current
        if c.inline:
            return None
        if not self._local_ok(c, cur.ci.module.name if cur is not None else None):
            return None
        if cur is not None:
            if cur.use is not None and c.name not in cur.use and c.short not in cur.use:
                return None
            if c.name in cur.no_use or c.short in cur.no_use:
                return None
        return c

    def args_fit(self, c: Contract, info: FunctionInfo, args, kwargs) -> bool:
        """do the actual arguments have the kinds the contract declares (object vs scalar)?  A contract
        written for `other: RealFloat` says nothing about a call with a float operand: such calls are inlined."""
        names = [a.arg for a in info.node.args.posonlyargs + info.node.args.args]
        vals = dict(zip(names, args))
        vals.update(kwargs)
        for p, tstr in c.params.items():
            if p not in vals:
                continue
            try:
                t = self.types.parse_str(tstr, info.module.name, info.cls)
            except Exception:
                continue
            if not self._fits(vals[p], t):
                return False
        return True

    def _fits(self, v, t) -> bool:
        k = t[0]
        if k == 'union':
            return any(self._fits(v, a) for a in t[1])
        if k == 'obj':
            if isinstance(v, SObj):
                return v.cls is not None and self.index.is_subclass(v.cls, t[1])
            if v is None or isinstance(v, (bool, int, float, str, Fraction, SymFloat, tuple, list, dict)) or is_z3(v):
                return False
            return True      # other engine value kinds (keys, symbolic containers, ADTs ...): typed by their contracts
        if k == 'none':
            return v is None
        if k in ('int', 'bool', 'float', 'frac', 'fconst', 'enum'):
            if isinstance(v, SObj):
                return False
            if k != 'none' and v is None:
                return False
            if k in ('int', 'bool', 'frac', 'enum') and isinstance(v, (float, SymFloat)):
                return False
        return True

    # --------------------------------------------------------- contract call
    def _call_spec(self, P: Path, fn: FunctionInfo, bound: dict, extra: dict | None = None):
        names = [a.arg for a in fn.node.args.args]
        kw = {}
        for n in names:
            if n in bound:
                kw[n] = bound[n]
            elif extra and n in extra:
                kw[n] = extra[n]
            elif n == 'self':
                kw[n] = None        # contract of a module-level function
            else:
                raise InterpError(f'{fn.qualname}: contract parameter {n} not among target parameters {list(bound)}')
        try:
            r = P.call_function(FuncV(fn), [], kw, force_inline=True)
        except SymRaise as e:
            raise InterpError(f'contract function {fn.qualname} raised {e.exc.name} ({e.where})')
        if not isinstance(r, dict):
            raise InterpError(f'{fn.qualname} must return a dict of named clauses')
        return r

    def _measure(self, P: Path, fn: FunctionInfo, bound: dict):
        kw = {}
        for a in fn.node.args.args:
            n = a.arg
            if n in bound:
                kw[n] = bound[n]
            elif n == 'self':
                kw[n] = None
            else:
                raise InterpError(f'{fn.qualname}: measure parameter {n} not among the target parameters')
        return P.call_function(FuncV(fn), [], kw, force_inline=True)

    def bind_target(self, P: Path, info: FunctionInfo, args, kwargs) -> dict:
        fr = Frame(info.module, info, info.cls)
        P.bind_args(info.node.args, args, kwargs, fr, info.qualname, Frame(info.module, cls=info.cls))
        return dict(fr.locals)

    def call_contract(self, P: Path, c: Contract, info: FunctionInfo, args, kwargs, is_init):
        if P.txns:
            raise MergeAbort()
        P.modular.add(c.short)
        P.modular_calls[c.short] = P.modular_calls.get(c.short, 0) + 1
        bound = self.bind_target(P, info, args, kwargs)
        short = c.short
        for p_, tstr in c.params.items():
            # an object argument whose class is unrelated to the class the contract was verified for
            a_ = bound.get(p_)
            if isinstance(a_, SObj) and a_.cls is not None:
                t_ = self.types.parse_str(tstr, info.module.name, info.cls)
                alts_ = [x[1] for x in (t_[1] if t_[0] == 'union' else (t_,)) if x[0] == 'obj']
                if alts_ and len(alts_) == len(t_[1] if t_[0] == 'union' else (t_,)) and not any(
                        self.index.is_subclass(a_.cls, ci_) or self.index.is_subclass(ci_, a_.cls) for ci_ in alts_):
                    P.oblige(f'pre@{short}[type:{p_}]', 'pre', False, {'arg_class': a_.cls.name})
        if c.pre is not None:
            for k, cond in self._call_spec(P, c.pre, bound).items():
                cond = P.truthy(cond)
                P.oblige(f'pre@{short}[{k}]', 'pre', cond)
                P.assume(cond, fact=True)
        cur = self.current
        if c.decreases is not None and cur is not None and cur.decreases is not None and getattr(P, 'bound', None):
            # a call inside a group of (mutually) recursive contracted functions: the measure decreases
            m_new = self._measure(P, c.decreases, bound)
            m_old = self._measure(P, cur.decreases, P.bound)
            P.oblige(f'decreases@{short}', 'decreases', seqs.lex_less(P, m_new, m_old))
        if c.raises is not None:
            for ename, cond in self._call_spec(P, c.raises, bound).items():
                cond = P.truthy(cond)
                if P.branch(cond, f'{short} raises {ename}'):
                    raise SymRaise(mk_exc(ename), f'contract {short}')
        for ename in c.may_raise:
            if P.branch(z3.Bool(P.fresh_name(f'{short}#may_raise_{ename}')), f'{short} may raise {ename}'):
                raise SymRaise(mk_exc(ename), f'contract {short}')
        old = None
        needs_old = c.post is not None and 'old' in [a.arg for a in c.post.node.args.args]
        if needs_old:
            old = self.snapshot(bound)
        for path in c.modifies:
            base, _, fld = path.rpartition('.')
            obj = self._resolve_path(P, bound, base)
            ft = self.field_type(obj.cls, fld)
            if path in c.overrides:      # the callee's contract retypes this field (e.g. a symbolic container)
                ft = self.types.parse_str(c.overrides[path], info.module.name, info.cls)
            P.write(obj.fields, fld, Lazy(ft, P.fresh_name(f'{short}.{path}')))
        if is_init:
            obj = args[0]
            nm = P.fresh_name(short.split('.')[0])
            obj.name = nm
            for f, (owner, ann) in self.index.fields(obj.cls).items():
                ft = self.types.parse(ann, owner.module.name, obj.cls)
                obj.fields[f] = Lazy(ft, f'{nm}.{f}')
            result = obj
        else:
            ri = c.opts.get('result_is')
            if ri:
                # (trusted contracts only) the result IS the object at this path of the arguments, e.g. a ghost field
                if not c.trusted:
                    raise InterpError('option result_is is only allowed on trusted contracts')
                result = self._resolve_path(P, bound, ri)
            else:
                rt = self.types.parse_str(c.returns, info.module.name, info.cls)
                result = P.fresh(rt, P.fresh_name(short))
        for path, src in c.binds.items():
            base, _, fld = path.rpartition('.')
            env = dict(bound, result=result)
            tgt = self._resolve_path(P, env, base)
            P.write(tgt.fields, fld, self._resolve_path(P, env, src))
        if c.post is not None:
            extra = {'result': result}
            if needs_old:
                extra['old'] = old
            P.hints_off = getattr(P, 'hints_off', 0) + 1      # case_split hints are for the contract's own proof
            try:
                clauses = self._call_spec(P, c.post, bound, extra)
            finally:
                P.hints_off -= 1
            for k, cond in clauses.items():
                cond = P.truthy(cond)
                if cond is False:
                    # A concretely false callee postcondition prunes the path.  That is normal when the fresh
                    # result forked on a union type (`p is None` for a result that must be an int) or a contract
                    # enumerates operand kinds.  A contract that can never hold would make later obligations
                    # vacuous; the count of pruned paths goes into the evidence, and the must-fail mutants are
                    # the guard against vacuous contracts.
                    self.stats['paths_pruned_by_callee_post'] += 1
                    if os.environ.get('PYVC_DEBUG'):
                        print(f'[pyvc] callee post clause concretely false: {c.name}[{k}]', flush=True)
                P.assume(cond, fact=True)
        return None if is_init else result

    def _result_has_union(self, c, info):
        try:
            rt = self.types.parse_str(c.returns, info.module.name, info.cls)
        except Exception:
            return False

        def has(t):
            if t[0] == 'union':
                return True
            if t[0] == 'tuple':
                return any(has(x) for x in t[1])
            return False
        return has(rt)

    def field_type(self, ci, fld):
        f = self.index.fields(ci).get(fld)
        if f is None:
            raise InterpError(f'no declared field {ci.name}.{fld}')
        return self.types.parse(f[1], f[0].module.name, ci)

    def _resolve_path(self, P, bound, path):
        parts = path.split('.')
        v = bound[parts[0]]
        for p in parts[1:]:
            v = P.getattr(v, p)
        return v

    def snapshot(self, bound: dict):
        memo = {}

        def cp(v):
            if isinstance(v, SObj):
                if id(v) in memo:
                    return memo[id(v)]
                n = SObj(v.cls, {}, v.name)
                memo[id(v)] = n
                for k, x in v.fields.items():
                    n.fields[k] = cp(x)
                return n
            if isinstance(v, tuple):
                return tuple(cp(x) for x in v)
            if isinstance(v, list):
                return [cp(x) for x in v]
            if isinstance(v, dict):
                return {k: cp(x) for k, x in v.items()}
            if isinstance(v, containers.MUTABLE):   # containers
                if id(v) not in memo:
                    memo[id(v)] = v.clone()
                return memo[id(v)]
            return v
        ns = SObj(None, {k: cp(v) for k, v in bound.items()}, 'old')
        return ns

    def call_opaque(self, P, info, args):
        """
        Opaque spec function (contract option `opaque = {'fn': [[fixed param names], 'return type']}`):
        a call whose leading arguments are *identical* to the named target parameters is replaced by an
        uninterpreted function of the remaining arguments.  Sound abstraction (the spec function is a pure
        function of its arguments); it hides a definition the proof does not need.
        """
        fixed, rtype = self.opaque_specs[info.name]
        if fixed == 'all':
            # every argument becomes an argument of the uninterpreted function (objects by their scalar fields):
            # equal arguments give equal results by congruence, nothing else is known
            zs = []

            def flat(v, depth=0):
                if v is None:
                    zs.extend([z3.IntVal(1), z3.IntVal(0)])
                    return True
                if isinstance(v, bool):
                    zs.extend([z3.IntVal(0), z3.IntVal(int(v))])
                    return True
                if isinstance(v, int):
                    zs.extend([z3.IntVal(0), z3.IntVal(v)])
                    return True
                if isinstance(v, EnumV):
                    zs.extend([z3.IntVal(0), z3.IntVal(v.idx) if isinstance(v.idx, int) else v.idx])
                    return True
                if is_z3(v) and v.sort() == z3.IntSort():
                    zs.extend([z3.IntVal(0), v])
                    return True
                if is_z3(v) and v.sort() == z3.BoolSort():
                    zs.extend([z3.IntVal(0), z3.If(v, z3.IntVal(1), z3.IntVal(0))])
                    return True
                if isinstance(v, SObj) and v.cls is not None and depth < 3:
                    for f in self.index.fields(v.cls):
                        try:
                            x = P.getattr(v, f)
                        except Exception:
                            return False
                        if isinstance(x, SObj) and x.cls is not None and x.cls.name == 'Flags':
                            continue
                        if not flat(x, depth + 1):
                            return False
                    return True
                return False
            for a in args:
                if not flat(a):
                    return None
        else:
            bound = getattr(P, 'bound', None)
            if bound is None or len(args) < len(fixed):
                return None
            for a, nm in zip(args, fixed):
                b = bound.get(nm, MISSING_)
                if b is MISSING_:
                    return None
                if a is b:
                    continue
                if is_z3(a) and is_z3(b) and a.eq(b):
                    continue
                if not is_z3(a) and not is_z3(b) and not isinstance(a, SObj) and a == b and type(a) is type(b):
                    continue
                return None
            rest = args[len(fixed):]
            zs = []
            for r in rest:
                if isinstance(r, EnumV):
                    zs.append(z3.IntVal(r.idx) if isinstance(r.idx, int) else r.idx)
                elif isinstance(r, bool):
                    zs.append(z3.IntVal(int(r)))
                elif isinstance(r, int):
                    zs.append(z3.IntVal(r))
                elif is_z3(r) and r.sort() == z3.IntSort():
                    zs.append(r)
                elif is_z3(r) and r.sort() == z3.BoolSort():
                    zs.append(z3.If(r, z3.IntVal(1), z3.IntVal(0)))
                else:
                    return None
        rt = self.types.parse_str(rtype, None, None)
        parts = rt[1] if rt[0] == 'tuple' else (rt,)
        outs = []
        for i, t in enumerate(parts):
            sort = z3.IntSort() if t[0] == 'int' else z3.BoolSort()
            f = z3.Function(f'opq_{info.name}_{i}_{len(zs)}', *([z3.IntSort()] * len(zs) + [sort]))
            outs.append(f(*zs))
        P.opaque_used = getattr(P, 'opaque_used', 0) + 1
        return tuple(outs) if rt[0] == 'tuple' else outs[0]

    # ------------------------------------------------------------- verifying
    def cases(self, c: Contract, info: FunctionInfo | None):
        """Explicit case splits requested by the contract: list of dict param -> concrete value spec."""
        out = [{}]
        for p in c.split:
            tstr = c.params[p] if p in c.params else c.overrides[p]     # a field path listed in `overrides`
            t = self.types.parse_str(tstr, info.module.name if info else None, info.cls if info else None)
            alts = []
            if t[0] == 'enum' and self.index.is_flag_enum(t[1]):
                # a Flag enum: every combination of the single-bit members (the finite abstract domain), 0 = empty flag
                mems = [(nm, v) for (nm, _), v in zip(self.index.enum_members(t[1]), self.enum_values(t[1]))
                        if isinstance(v, int) and v > 0 and v & (v - 1) == 0]
                full = 0
                for _, v in mems:
                    full |= v
                for bits in range(full + 1):
                    if bits & ~full:
                        continue
                    alts.append(('flag', t[1].qualname, bits, '|'.join(nm for nm, v in mems if v & bits) or '0'))
            elif t[0] == 'enum':
                only = c.opts.get('enum_cases', {}).get(p)      # optional: restrict the split to the named members
                for i, (nm, _) in enumerate(self.index.enum_members(t[1])):
                    if only is None or nm in only:
                        alts.append(('enum', t[1].qualname, i, nm))
            elif t[0] == 'bool':
                alts = [('bool', False), ('bool', True)]
            elif t[0] == 'union':
                for i, a in enumerate(t[1]):
                    alts.append(('alt', i, show(a)))
            elif t[0] == 'int' and p in c.opts.get('int_cases', {}):
                # explicit concrete values of an int parameter (e.g. the precision of a bounded stand-in)
                alts = [('int', v, str(v)) for v in c.opts['int_cases'][p]]
            else:
                raise InterpError(f'cannot split on {p}: {tstr}')
            out = [dict(o, **{p: a}) for o in out for a in alts]
        return out

    def verify_path(self, P: Path, c: Contract, info: FunctionInfo | None, case: dict, res: PathResult):
        self.overrides = {}
        modname = info.module.name if info else None
        cls = info.cls if info else None
        for k, v in c.overrides.items():
            if '@' in k:
                # 'e.args@UnaryOp': the override applies only in the cases where the split parameter `e` is an
                # instance of the named class (a dispatch contract over classes whose fields have different shapes)
                k, _, guard = k.partition('@')
                root = k.split('.')[0]
                ok = False
                if root in case and case[root][0] == 'alt' and root in c.params:
                    a = self.types.parse_str(c.params[root], modname, cls)[1][case[root][1]]
                    ok = a[0] == 'obj' and any(m.name == guard for m in self.index.mro(a[1]))
                if not ok:
                    continue
            self.overrides[k] = self.types.parse_str(v, modname, cls)
            if k in case and case[k][0] == 'alt':          # case split on an overridden field type
                self.overrides[k] = self.overrides[k][1][case[k][1]]
        bound = {}
        P.param_types = {}
        is_init = info is not None and info.name == '__init__'
        for p, tstr in c.params.items():
            t = self.types.parse_str(tstr, modname, cls)
            if p in case:
                cs = case[p]
                if cs[0] == 'enum':
                    bound[p] = EnumV(self.index.find_class(cs[1]), cs[2])
                    P.param_types[p] = (t, bound[p])
                    continue
                if cs[0] == 'flag':
                    bound[p] = FlagV(self.index.find_class(cs[1]), cs[2])
                    P.param_types[p] = (t, bound[p])
                    continue
                if cs[0] == 'bool':
                    bound[p] = cs[1]
                    P.param_types[p] = (t, bound[p])
                    continue
                if cs[0] == 'int':
                    bound[p] = cs[1]
                    P.param_types[p] = (t, bound[p])
                    continue
                if cs[0] == 'alt':
                    t = t[1][cs[1]]
            if is_init and p == 'self':
                bound[p] = SObj(t[1], {}, 'self')
                continue
            P.param_types[p] = (t, None)
            if info is not None and info.name == '__post_init__' and p == 'self' and t[0] == 'obj':
                # dataclass hook: the fields are set, nothing is validated yet (no class invariant)
                bound[p] = seqs.fresh_raw_obj(P, t, p)
                continue
            bound[p] = P.fresh(t, p)
        for dst, src in c.aliases.items():
            base, _, fld = dst.rpartition('.')
            holder = self._resolve_path(P, bound, base)
            P.write(holder.fields, fld, self._resolve_path(P, bound, src))
        P.bound = bound
        if c.pre is not None:
            for k, cond in self._call_spec(P, c.pre, bound).items():
                P.assume(P.truthy(cond), fact=True)
        if c.axioms is not None:
            for k, cond in self._call_spec(P, c.axioms, bound).items():
                P.assume(P.truthy(cond), fact=True)
        needs_old = c.post is not None and 'old' in [a.arg for a in c.post.node.args.args]
        old = self.snapshot(bound) if needs_old or True else None
        P.old = old
        outcome = None
        result = None
        short = c.short
        if c.kind == 'lemma':
            outcome = ('return', None)
        else:
            names = [a.arg for a in info.node.args.posonlyargs + info.node.args.args]
            kwnames = [a.arg for a in info.node.args.kwonlyargs]
            args = [bound[n] for n in names if n in bound]
            if len(args) != len([n for n in names if n in bound]):
                raise InterpError('bad params')
            # positional params must be a prefix
            missing = [n for n in names if n not in bound]
            kwargs = {}
            if missing:
                # pass everything by keyword except the first (self)
                args = []
                for n in names:
                    if n in bound:
                        kwargs[n] = bound[n]
            for n in kwnames:
                if n in bound:
                    kwargs[n] = bound[n]
            try:
                r = P.call_function(FuncV(info), args, kwargs, force_inline=True)
                result = bound['self'] if is_init else r
                outcome = ('return', result)
            except SymRaise as e:
                outcome = ('raise', e.exc.name, e.exc.bases, e.where)
            except seqs.PathEnd:
                # end of a loop-step path: its obligations (inv-step) are already recorded
                res.outcome = 'loop-step'
                return
            except containers.LoopStepDone:   # containers: invariant-preservation path ends inside the loop
                res.outcome = 'loop-step'
                return
        res.outcome = outcome[0] if outcome[0] == 'return' else f'raise {outcome[1]}'
        # --- exceptional behaviour
        rz = self._call_spec(P, c.raises, bound) if c.raises is not None else {}
        if outcome[0] == 'raise':
            ename = outcome[1]
            key = ename if ename in rz else next((b for b in outcome[2] if b in rz), None)
            if key is None and (ename in c.may_raise or any(b in c.may_raise for b in outcome[2])):
                pass
            elif key is None:
                P.oblige(f'{short}#raises[unexpected:{ename}]', 'raises', False, {'where': outcome[3]})
            else:
                P.oblige(f'{short}#raises[{key}]', 'raises', P.truthy(rz[key]), {'where': outcome[3]})
        else:
            for ename, cond in rz.items():
                cond = P.truthy(cond)
                ncond = (not cond) if isinstance(cond, bool) else simp(z3.Not(cond))
                P.oblige(f'{short}#noraise[{ename}]', 'raises', ncond)
            if c.post is not None:
                extra = {'result': result, 'old': SObj(None, old.fields, 'old')}
                for k, cond in self._call_spec(P, c.post, bound, extra).items():
                    cond = P.truthy(cond)
                    P.oblige(f'{short}#post[{k}]', 'post', cond)
                    if c.opts.get('chain'):
                        # proof steps: a clause, once stated as an obligation, is a fact for the *later* clauses
                        # (sound by induction over the clause order; an open step leaves the contract open)
                        P.assume(cond, fact=True)
            for path, src in c.binds.items():
                env = dict(bound, result=result)
                P.oblige(f'{short}#post[bind:{path}]', 'post',
                         P.truthy(P.identical(self._resolve_path(P, env, path), self._resolve_path(P, env, src))))
            for callee, cnt in c.opts.get('call_counts', {}).items():
                P.oblige(f'{short}#calls[{callee}=={cnt}]', 'calls', P.modular_calls.get(callee, 0) == cnt)
            # frame: inputs unchanged unless listed in modifies
            self._frame(P, c, bound, old)

    def _frame(self, P, c, bound, old):
        seen = set()

        def walk(cur, prev, path):
            if isinstance(cur, SObj) and isinstance(prev, SObj):
                if id(cur) in seen:
                    return
                seen.add(id(cur))
                for k, pv in prev.fields.items():
                    cv = cur.fields.get(k)
                    pth = f'{path}.{k}'
                    if pth in c.modifies or any(pth.startswith(m + '.') for m in c.modifies):
                        continue
                    if isinstance(cv, containers.SYM) or isinstance(pv, containers.SYM):   # containers
                        if isinstance(pv, Lazy):
                            ov = self.overrides.get(pv.name)
                            g = containers.same_content(P, cv, (ov if ov is not None else pv.typ, pv.name))
                        elif isinstance(pv, containers.SYM) and isinstance(cv, containers.SYM):
                            g = containers.equal_content(cv, pv)
                        else:
                            g = False
                        P.oblige(f'{c.short}#frame[{pth}]', 'frame', g)
                        continue
                    if isinstance(pv, Lazy):
                        if isinstance(cv, Lazy):
                            continue
                        # forced during execution (reads), or overwritten?
                        if isinstance(cv, SObj) and cv.name == pv.name:
                            continue
                        if is_z3(cv) and z3.is_const(cv) and cv.decl().name() in (pv.name, pv.name + '#bits'):
                            continue
                        if isinstance(cv, EnumV) and is_z3(cv.idx) and z3.is_const(cv.idx) and cv.idx.decl().name() == pv.name:
                            continue
                        if isinstance(cv, containers.SymKey) and z3.is_const(cv.term) and cv.term.decl().name() == pv.name:   # containers
                            continue
                        if cv is None or isinstance(cv, Opaque) or isinstance(cv, (SymFloat,)):
                            # union resolved to None / opaque: fine if forced from this lazy
                            continue
                        if isinstance(cv, tuple):
                            continue
                        if seqs.forced_from(cv, pv.name):
                            continue
                        if type(cv).__name__ == 'SymStr' and cv.name == pv.name:
                            continue      # symbolic numeral string forced from this lazy (immutable)
                        P.oblige(f'{c.short}#frame[{pth}]', 'frame', False)
                        continue
                    if cv is pv:
                        continue
                    if isinstance(pv, SObj):
                        if isinstance(cv, SObj) and cv.name == pv.name:
                            walk(cv, pv, pth)
                        else:
                            P.oblige(f'{c.short}#frame[{pth}]', 'frame', False)
                        continue
                    if (isinstance(pv, tuple) and isinstance(cv, tuple) and len(pv) == len(cv) and pv
                            and all(isinstance(x, SObj) and isinstance(y, SObj) and x.name is not None and x.name == y.name
                                    for x, y in zip(cv, pv))):
                        # c14y: a fixed-shape tuple of input objects (override `tuple[A, B]`) that was forced before the
                        # snapshot: tuples are immutable, the elements are the same objects -- check their fields
                        for i_, (x, y) in enumerate(zip(cv, pv)):
                            walk(x, y, f'{pth}.{i_}')
                        continue
                    eq = P.equal(cv, pv) if not isinstance(pv, (Opaque,)) else (cv is pv)
                    P.oblige(f'{c.short}#frame[{pth}]', 'frame', P.truthy(eq))
        for p, v in bound.items():
            if isinstance(v, SObj) and p in old.fields and not (p == 'self' and v.name == 'self' and not old.fields[p].fields):
                walk(v, old.fields[p], p)

    # ------------------------------------------------------------- discharge
    def discharge(self, facts_pc, goal, timeout_ms=None):
        """Returns (status, secs, backend, smt2); honours the contract option `bounded`."""
        B = self.current.opts.get('bounded') if self.current is not None else None
        if B is None:
            return self._discharge(facts_pc, goal, timeout_ms)
        self._enum_pins = []
        if self.current.opts.get('bv_enum'):
            # small bit-vector query: exhaustive evaluation (pyvc/bvenum.py); None = not applicable, use the solver
            from .bvenum import enum_discharge
            r = enum_discharge(self, facts_pc, goal, B)
            if r is not None:
                return r
        st, secs, backend, smt2 = self._discharge(facts_pc, goal, self.current.opts.get('bounded_try_ms', 3000), fallback=False)
        if st == 'unsat':
            return st, secs, backend, smt2
        from .refute import bounded_model
        t0 = time.time()
        g = z3.BoolVal(False) if goal is False else as_z3bool(goal)
        bst, _ = bounded_model(list(facts_pc) + [z3.Not(g)], B, self.current.opts.get('bounded_ms', 60000))
        if bst == 'unsat':
            return 'bounded-unsat', secs + time.time() - t0, f'z3-bounded({B})', None
        return st, secs + time.time() - t0, backend, smt2

    def _discharge(self, facts_pc, goal, timeout_ms=None, fallback=True, skip_first=False, smt2=None):
        t0 = time.time()
        if goal is True:
            return 'unsat', 0.0, 'trivial', None
        if goal is False:
            g = z3.BoolVal(False)
        else:
            g = as_z3bool(goal)
        if not skip_first and self.current is not None and self.current.opts.get('light_first', False):
            # stage 0 (opt-in): only the hypotheses free of pow2/bl/div terms.  Dropping hypotheses is sound;
            # it keeps goals of plain linear arithmetic away from an irrelevant non-linear context.
            light = [f for f in facts_pc if not self._is_heavy_formula(f)]
            if len(light) < len(facts_pc):
                s0 = z3.Solver()
                s0.set('timeout', 2000)
                for f in light:
                    s0.add(f)
                s0.add(z3.Not(g))
                for a_ in theory.instantiate(light + [z3.Not(g)])[0]:
                    s0.add(a_)
                self.stats['queries'] += 1
                if s0.check() == z3.unsat:
                    return 'unsat', time.time() - t0, 'z3-light', None
        formulas = list(facts_pc) + [z3.Not(g)]
        if self.current is not None and self.current.opts.get('solve_eqs'):
            # opt-in preprocessing: eliminate constants defined by equalities (callee post `r.f == term`)
            # before the pow2/bl axioms are instantiated; equisatisfiable, so `unsat` is preserved
            try:
                goal_ = z3.Goal()
                for f in formulas:
                    goal_.add(f)
                sub = z3.Then('simplify', 'solve-eqs')(goal_)
                if len(sub) == 1:
                    formulas = [f for f in sub[0]] or [z3.BoolVal(True)]
            except z3.Z3Exception:
                pass
        # option noax_first_ms: first try without any pow2/bl axiom instance (sound: fewer assumptions); many
        # obligations of callers of contracts follow by congruence alone and the axioms only slow them down
        nf = self.current.opts.get('noax_first_ms') if self.current is not None else None
        if nf and not skip_first:
            s0 = z3.Solver()
            s0.set('timeout', nf)
            s0.set('arith.nl', False)      # products stay opaque terms: incomplete (unknown), never wrong about unsat
            for f in formulas:
                s0.add(f)
            if s0.check() == z3.unsat:
                self.stats['queries'] += 1
                return 'unsat', time.time() - t0, 'z3-noax', None
        light = self.current is not None and (self.current.opts.get('light_axioms', False) or self.current.opts.get('light_theory', False))
        # options light_axioms / light_theory: no product-splitting instances (PP.split / S6q)
        tl = self.current is not None and self.current.opts.get('theory_light', False)   # one round, no product splitting
        _o = self.current.opts if self.current is not None else {}
        ax, _ = theory.instantiate(formulas, rounds=(1 if tl else _o.get('theory_rounds', 2)),
                                   heavy=(not (light or tl)) and _o.get('theory_heavy', True), quant=self.quant)
        s = z3.Solver()
        s.set('timeout', timeout_ms or self.timeout_ms)
        for f in formulas:
            s.add(f)
        for a in ax:
            s.add(a)
        if skip_first:
            r = z3.unknown
        else:
            r = s.check()
            self.stats['queries'] += 1
        dt = time.time() - t0
        if r == z3.unsat:
            return 'unsat', dt, 'z3', None
        smt2 = s.to_smt2()
        if not fallback:
            return ('sat' if r == z3.sat else 'unknown'), time.time() - t0, 'z3', smt2
        # cvc5 second opinion
        st2 = self._cvc5(smt2)
        if st2 == 'unsat':
            return 'unsat', time.time() - t0, 'cvc5', None
        if r == z3.unknown:
            # retry with a different configuration
            s2 = z3.SolverFor('QF_UFNIA')
            s2.set('timeout', (timeout_ms or self.timeout_ms) * 3)
            s2.set('random_seed', 7)
            for f in formulas:
                s2.add(f)
            for a in ax:
                s2.add(a)
            r2 = s2.check()
            if r2 == z3.unsat:
                return 'unsat', time.time() - t0, 'z3-retry', None
            if r2 == z3.sat:
                r = r2
        return ('sat' if r == z3.sat else 'unknown'), time.time() - t0, 'z3', smt2

    @staticmethod
    def _is_heavy_formula(f) -> bool:
        p2, bls, dms, ipows = theory._collect1(f)
        return bool(p2 or bls or dms or ipows)

    def _cvc5(self, smt2: str, tlimit_ms=20000):
        try:
            with tempfile.NamedTemporaryFile('w', suffix='.smt2', delete=False, dir=self.dump_dir) as f:
                f.write('(set-logic ALL)\n')
                f.write(smt2)
                path = f.name
            try:
                out = subprocess.run(['/usr/bin/cvc5', f'--tlimit={tlimit_ms}', path],
                                     capture_output=True, text=True, timeout=tlimit_ms / 1000 + 10)
                first = out.stdout.strip().split('\n')[0] if out.stdout.strip() else ''
                return first
            finally:
                os.unlink(path)
        except Exception:
            return 'error'

    def refute(self, P, c, ob, bounds=None, timeout_ms=None):
        """bounded standard-model search for a counterexample of an open obligation"""
        from .refute import Concretizer, bounded_model, ghost_values
        g = z3.BoolVal(False) if ob.goal is False else as_z3bool(ob.goal)
        formulas = list(ob.pc) + [z3.Not(g)] + list(getattr(self, '_enum_pins', None) or [])   # bvenum: the point found
        status = 'none'
        for B in (bounds or self.refute_bound):
            try:
                from . import ufmaps   # ufmaps: finite key universe for counter-model search (option refute_universe)
                status, model = bounded_model(ufmaps.finite_universe(c, formulas), B, timeout_ms or self.refute_timeout_ms,
                                              extra=seqs.len_bounds(P, B))
            except Exception as e:
                return None, f'error: {e}'
            if model is not None:
                try:
                    cz = Concretizer(self, P, model)
                    args = {}
                    for p_, (t, pinned) in P.param_types.items():
                        args[p_] = cz.value(pinned) if pinned is not None else cz.entry(t, p_)
                    for dst, src in c.aliases.items():
                        seqs.apply_alias(args, dst, src)
                    return {'args': args, 'ghost': ghost_values(model), 'bound': B}, 'sat'
                except Exception as e:
                    if os.environ.get('PYVC_DEBUG'):
                        traceback.print_exc()
                    return None, f'concretize-error: {type(e).__name__}: {e}'
        return None, status

    # ------------------------------------------------------------------ main
    def verify(self, cname: str, case: dict | None = None):
        """Explore all paths of contract `cname` (one explicit case); returns a report dict."""
        c = self.contracts[cname]
        self.current = c
        theory.reset_caches()
        self.tags = Tags()
        import gc
        gc.collect()
        self.merge_light_only = bool(c.opts.get('split_heavy', False))
        self.opaque_specs = {k: (v[0], v[1]) for k, v in c.opts.get('opaque', {}).items()}
        self.quant = c.opts.get('quant')
        self.feas_timeout_ms = c.opts.get('feas_ms', getattr(self, '_feas_default', None) or self.feas_timeout_ms)   # per-contract feasibility timeout (unknown = feasible)
        theory.EXTRA = set(c.opts.get('schemas', []))
        info = self.index.find_function(c.target) if c.target else None
        case = case or {}
        self.queue.clear()
        self.queue.append([])
        t0 = time.time()
        paths = []
        npaths = 0
        unsupported = []
        crashes = []
        obl = defaultdict(lambda: {'paths': 0, 'unsat': 0, 'open': [], 'secs': 0.0, 'backends': defaultdict(int), 'kind': ''})
        inlined, modular = set(), set()
        feasible_paths = 0
        while self.queue:
            prefix = self.queue.popleft()
            npaths += 1
            if os.environ.get('PYVC_LOG'):
                print(f'[pyvc] {c.name}[{_case_str(case)}] path {npaths} queue={len(self.queue)} t={time.time()-t0:.1f}s', flush=True)
            if time.time() - t0 > self.max_seconds:
                unsupported.append(f'time budget {self.max_seconds}s exceeded after {npaths} paths')
                break
            if npaths > self.max_paths:
                unsupported.append(f'path budget {self.max_paths} exceeded')
                break
            if c.opts.get('dialect') == 'fpy':
                from .fpydialect import FpyPath
                P = FpyPath(self, prefix)
            else:
                P = Path(self, prefix)
            res = PathResult()
            try:
                self.verify_path(P, c, info, case, res)
            except PathInfeasible:
                # the path died (an assumption became false).  Obligations emitted BEFORE that point
                # (e.g. a callee precondition that is concretely False) must still be discharged.
                if not P.obligations:
                    continue
                res.outcome = 'infeasible-after-obligation'
            except Unsupported as e:
                unsupported.append(str(e))
                continue
            except MergeAbort:
                crashes.append('MergeAbort escaped')
                continue
            feasible_paths += 1
            inlined |= P.inlined
            modular |= P.modular
            for ob in P.obligations:
                cex, rstatus = None, None
                bounded_opt = c.opts.get('bounded')
                if bounded_opt:
                    st, secs, backend, smt2 = self.discharge(ob.pc, ob.goal)
                    if st not in ('unsat', 'bounded-unsat') and (c.opts.get('dialect') or c.opts.get('bounded_refute')):   # bounded_refute (C13y): shape stand-ins want their counterexamples replayed too
                        # bounded FPy stand-in: the model of the failed query is a counterexample
                        cex, rstatus = self.refute(P, c, ob, [bounded_opt], c.opts.get('bounded_ms', 60000))
                else:
                    # 1. proof attempt (z3)  2. quick bounded refutation  3. cvc5 / z3-retry  4. wider refutation
                    st, secs, backend, smt2 = self._discharge(ob.pc, ob.goal, fallback=False)
                    rb = c.opts.get('refute_bound', self.refute_bound)      # per-contract refutation boxes (optional)
                    if self.strict:
                        rb = []        # recording the baseline ledger: only what proves at once goes in; no fallbacks
                    if st != 'unsat' and rb:
                        tr = time.time()
                        cex, rstatus = self.refute(P, c, ob, rb[:1], c.opts.get('refute_quick_ms', self.refute_quick_ms))
                        secs += time.time() - tr
                    if st != 'unsat' and cex is None and not self.strict:
                        st2, secs2, backend2, smt2b = self._discharge(ob.pc, ob.goal, fallback=True, skip_first=True, smt2=smt2)
                        secs += secs2
                        if st2 == 'unsat':
                            st, backend = st2, backend2
                        elif rb[1:]:
                            tr = time.time()
                            cex, rstatus = self.refute(P, c, ob, rb[1:], self.refute_timeout_ms)
                            secs += time.time() - tr
                        bf = c.opts.get('bounded_fallback')
                        if st != 'unsat' and cex is None and bf:
                            # no proof and no counter-model: bounded stand-in for this path-query
                            from .refute import bounded_model
                            tr = time.time()
                            g_ = z3.BoolVal(False) if ob.goal is False else as_z3bool(ob.goal)
                            bst, _m = bounded_model(list(ob.pc) + [z3.Not(g_)], bf, c.opts.get('bounded_ms', 60000))
                            secs += time.time() - tr
                            if bst == 'unsat':
                                st, backend = 'bounded-unsat', f'z3-bounded({bf})'
                if os.environ.get('PYVC_LOG') and secs > 2:
                    print(f'[pyvc]    slow {ob.name}: {st} {secs:.1f}s {backend}', flush=True)
                o = obl[ob.name]
                o['kind'] = ob.kind
                o['paths'] += 1
                o['secs'] += secs
                o['backends'][backend] += 1
                if st == 'unsat':
                    o['unsat'] += 1
                elif st == 'bounded-unsat':
                    o['unsat'] += 1
                    o['bounded'] = o.get('bounded', 0) + 1
                else:
                    ent = {'status': st, 'trace': list(P.trace), 'decisions': _ser(P.decisions),
                           'outcome': res.outcome, 'info': ob.info, 'smt2': smt2, 'cex': cex,
                           'refute_status': rstatus}
                    o['open'].append(ent)
            paths.append((res.outcome, len(P.obligations)))
        report = {
            'contract': c.name, 'target': c.target, 'case': _case_str(case), 'kind': c.kind,
            'sha': info.sha() if info else None,
            'paths': feasible_paths, 'explored': npaths,
            'unsupported': unsupported, 'crashes': crashes,
            'obligations': {k: {'kind': v['kind'], 'paths': v['paths'], 'unsat': v['unsat'], 'bounded': v.get('bounded', 0),
                                'open': v['open'], 'secs': round(v['secs'], 3),
                                'backends': dict(v['backends'])} for k, v in obl.items()},
            'inlined': sorted(inlined - ({info.qualname} if info else set())),
            'modular': sorted(modular),
            'outcomes': dict(_count(o for o, _ in paths)),
            'wall_s': round(time.time() - t0, 3),
            'stats': dict(self.stats),
        }
        return report


def _count(it):
    d = defaultdict(int)
    for x in it:
        d[x] += 1
    return d


def _ser(decisions):
    return [list(d) if not isinstance(d, list) else d for d in decisions]


def _case_str(case):
    return ','.join(f'{k}={v[-1]}' for k, v in case.items())
