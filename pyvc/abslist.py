"""
Abstract lists (C14y: the result of `_FormatInferInstance._implied`).

An `AbsList` is a Python list whose ELEMENTS are never inspected by the function under verification: it is
only created (`[]`), received from a modular call (`returns = 'AbsList'`: one fresh atom), spliced
(`[i for a in args for i in f(a)]` with `f(a)` an abstract list: the concatenation of the results, in
order) and returned.  The value is kept in NORMAL FORM: a Python tuple of atoms (constants of the
uninterpreted sort `AbsListAtom`), so concatenation is associative with unit `[]` by construction and no
list theory reaches the solver.

What contracts can say about it (speclib, both semantics):

  alist_len(L)          len(L): the sum of `alist#len(atom)` (each >= 0: assumed when the atom is created)
  alist_all(fn, L)      every element e of L satisfies fn(e), fn a NAMED top-level spec function of one
                        argument: over a concrete Python list it is the conjunction of the inlined calls;
                        over an atom it is the uninterpreted predicate `alist#all#<fn>(atom)`; over a
                        concatenation the conjunction over the parts.  (`all` distributes over `++`; the
                        definition `forall e in atom. fn(e)` is a model of the uninterpreted predicate,
                        so using it is sound and no axiom is assumed.)
  alist_parts_is(L, n)  L is the concatenation of exactly n atoms (no modular result dropped or duplicated)
  alist_same(a, b)      a and b are the same concatenation of the same atoms (concrete True / False)

Hooked from interp.py (`fresh` for the type string `AbsList`, `_comp` for the splice, `truthy`) and
intrinsics.py (`len`, the four spec functions) on lines marked `# abslist`.
"""
from __future__ import annotations

import ast

import z3

from .values import InterpError, Unsupported, as_z3int, simp

_SORT = None


def atom_sort():
    global _SORT
    if _SORT is None:
        _SORT = z3.DeclareSort('AbsListAtom')
    return _SORT


class AbsList:
    """normal form: tuple of atoms (z3 constants of sort AbsListAtom)"""
    __slots__ = ('parts',)

    def __init__(self, parts=()):
        self.parts = tuple(parts)

    def __repr__(self):
        return 'AbsList(' + ' ++ '.join(str(p) for p in self.parts) + ')'


def is_type(typ):
    return typ[0] == 'opaque' and typ[1] == 'AbsList'


def _len_fn():
    return z3.Function('alist#len', atom_sort(), z3.IntSort())


def fresh(P, name):
    a = z3.Const(name, atom_sort())
    P.assume(_len_fn()(a) >= 0, fact=True)
    return AbsList((a,))


def length(P, v: AbsList):
    if not v.parts:
        return 0
    return simp(z3.Sum([_len_fn()(a) for a in v.parts])) if len(v.parts) > 1 else _len_fn()(v.parts[0])


def truthy(P, v: AbsList):
    n = length(P, v)
    return (n != 0) if isinstance(n, int) else simp(n != 0)


class Splice:
    """marker appended to the output of a comprehension: all elements of an abstract list, in order"""
    __slots__ = ('lst',)

    def __init__(self, lst):
        self.lst = lst


def comp_splice(P, node, i, it_):
    """`[x for ... for x in <abstract list>]`: the innermost generator iterates an abstract list and the element
    is the loop variable itself.  Returns a Splice, or raises Unsupported."""
    g = node.generators[i]
    if (i != len(node.generators) - 1 or g.ifs or not isinstance(g.target, ast.Name)
            or not isinstance(getattr(node, 'elt', None), ast.Name) or node.elt.id != g.target.id):
        raise Unsupported('iteration over an abstract list (only `[x for ... for x in <abstract list>]` is modelled)')
    return Splice(it_)


def comp_result(out):
    """the value of a comprehension whose output contains Splice markers"""
    if not any(isinstance(x, Splice) for x in out):
        return out
    if not all(isinstance(x, Splice) for x in out):
        raise Unsupported('comprehension mixing abstract and concrete elements')
    parts = []
    for x in out:
        parts.extend(x.lst.parts)
    return AbsList(parts)


# ------------------------------------------------------------------ spec side

def s_len(P, v):
    if isinstance(v, AbsList):
        return length(P, v)
    if isinstance(v, (list, tuple)):
        return len(v)
    raise Unsupported(f'alist_len of {v!r}')


def s_parts_is(P, v, n):
    """the abstract list is the concatenation of exactly n atoms (n may be symbolic)"""
    if isinstance(v, AbsList):
        k = len(v.parts)
    elif isinstance(v, (list, tuple)) and not v:
        k = 0
    else:
        raise Unsupported(f'alist_parts_is of {v!r}')
    return (k == n) if isinstance(n, int) else simp(as_z3int(n) == k)


def s_same(P, a, b):
    if isinstance(a, (list, tuple)) and not a:
        a = AbsList()
    if isinstance(b, (list, tuple)) and not b:
        b = AbsList()
    if not isinstance(a, AbsList) or not isinstance(b, AbsList):
        raise Unsupported(f'alist_same of {a!r}, {b!r}')
    return len(a.parts) == len(b.parts) and all(x.eq(y) for x, y in zip(a.parts, b.parts))


def s_all(P, fn, v):
    from .interp import FuncV
    if not isinstance(fn, FuncV) or fn.self_obj is not None:
        raise InterpError('alist_all(fn, L): fn must be a named top-level spec function')
    name = fn.info.qualname
    if isinstance(v, (list, tuple)):
        acc = True
        for e in v:
            c = P.truthy(P.call_function(fn, [e], {}))
            if c is False:
                return False
            if c is True:
                continue
            acc = c if acc is True else simp(z3.And(acc, c))
        return acc
    if isinstance(v, AbsList):
        if not v.parts:
            return True
        f = z3.Function(f'alist#all#{name}', atom_sort(), z3.BoolSort())
        cs = [f(a) for a in v.parts]
        return cs[0] if len(cs) == 1 else simp(z3.And(cs))
    raise Unsupported(f'alist_all over {v!r}')
