"""
Source index: reads the *current* source text of python modules under a root
(normally /repo) with `ast`, on every run, and answers name-resolution
questions (module globals, imports, classes, MRO, methods, class fields).

Nothing is cached across runs; nothing is copied by hand.  A function that
cannot be found is an ExtractionError (exit 3), never a pass.
"""
from __future__ import annotations

import ast
import hashlib
import os
from dataclasses import dataclass, field


class ExtractionError(Exception):
    pass


@dataclass
class FunctionInfo:
    module: 'ModuleInfo'
    cls: 'ClassInfo | None'
    name: str
    node: ast.FunctionDef
    kind: str = 'function'   # function | method | staticmethod | classmethod | property

    @property
    def qualname(self) -> str:
        if self.cls is None:
            return f'{self.module.name}:{self.name}'
        return f'{self.module.name}:{self.cls.name}.{self.name}'

    def sha(self) -> str:
        return hashlib.sha256(ast.dump(self.node).encode()).hexdigest()[:16]

    def __repr__(self):
        return f'<fn {self.qualname}>'


@dataclass
class ClassInfo:
    module: 'ModuleInfo'
    name: str
    node: ast.ClassDef
    methods: dict = field(default_factory=dict)       # name -> FunctionInfo
    class_attrs: dict = field(default_factory=dict)   # name -> ast.expr (class-level assignments)
    annotations: dict = field(default_factory=dict)   # name -> ast.expr (annotation)
    setters: dict = field(default_factory=dict)
    _mro: list | None = None

    @property
    def qualname(self):
        return f'{self.module.name}:{self.name}'

    def __repr__(self):
        return f'<class {self.qualname}>'

    def __hash__(self):
        return hash(self.qualname)

    def __eq__(self, other):
        return isinstance(other, ClassInfo) and other.qualname == self.qualname


class ModuleInfo:
    def __init__(self, index: 'SourceIndex', name: str, path: str, is_pkg: bool):
        self.index = index
        self.name = name
        self.path = path
        self.is_pkg = is_pkg
        with open(path) as f:
            self.text = f.read()
        # in-memory mutation (selftest only; never written to disk): FPY_MUT='{"file": "<suffix>", "old": "...", "new": "..."}'
        mut = os.environ.get('FPY_MUT')
        if mut:
            import json as _json
            m = _json.loads(mut)
            if path.endswith(m['file']):
                if m['old'] not in self.text:
                    raise ExtractionError(f"mutant text not found in {path}: {m['old']!r}")
                self.text = self.text.replace(m['old'], m['new'], 1)
        self.tree = ast.parse(self.text, filename=path)
        self.functions: dict[str, FunctionInfo] = {}
        self.classes: dict[str, ClassInfo] = {}
        self.assigns: dict[str, ast.expr] = {}     # last module-level assignment
        self.imports: dict[str, tuple] = {}        # local name -> ('module', modname) | ('from', modname, attr)
        self.star_imports: list[str] = []
        self._scan(self.tree.body)

    def package(self) -> str:
        return self.name if self.is_pkg else self.name.rpartition('.')[0]

    def _resolve_rel(self, module: str | None, level: int) -> str:
        if level == 0:
            return module or ''
        base = self.package().split('.') if self.package() else []
        if level > 1:
            base = base[:len(base) - (level - 1)]
        if module:
            base = base + module.split('.')
        return '.'.join(base)

    def _scan(self, body):
        for st in body:
            if isinstance(st, ast.FunctionDef):
                decos = [_deco_name(d) for d in st.decorator_list]
                if 'overload' in decos:
                    continue
                self.functions[st.name] = FunctionInfo(self, None, st.name, st)
            elif isinstance(st, ast.ClassDef):
                self.classes[st.name] = self._scan_class(st)
            elif isinstance(st, ast.Assign):
                for t in st.targets:
                    if isinstance(t, ast.Name):
                        self.assigns[t.id] = st.value
                    elif isinstance(t, ast.Tuple) and isinstance(st.value, ast.Tuple) \
                            and len(t.elts) == len(st.value.elts):
                        for a, b in zip(t.elts, st.value.elts):
                            if isinstance(a, ast.Name):
                                self.assigns[a.id] = b
            elif isinstance(st, ast.AnnAssign):
                if isinstance(st.target, ast.Name) and st.value is not None:
                    self.assigns[st.target.id] = st.value
            elif isinstance(st, ast.Import):
                for a in st.names:
                    local = a.asname or a.name.split('.')[0]
                    self.imports[local] = ('module', a.name if a.asname else a.name.split('.')[0])
            elif isinstance(st, ast.ImportFrom):
                mod = self._resolve_rel(st.module, st.level)
                for a in st.names:
                    if a.name == '*':
                        self.star_imports.append(mod)
                    else:
                        self.imports[a.asname or a.name] = ('from', mod, a.name)
            elif isinstance(st, ast.If):
                # `if TYPE_CHECKING: ... else: ...` -> take the runtime branch
                t = st.test
                if isinstance(t, ast.Name) and t.id == 'TYPE_CHECKING':
                    self._scan(st.orelse)
                else:
                    self._scan(st.body)
                    self._scan(st.orelse)
            elif isinstance(st, ast.Try):
                self._scan(st.body)

    def _scan_class(self, node: ast.ClassDef) -> ClassInfo:
        ci = ClassInfo(self, node.name, node)
        for st in node.body:
            if isinstance(st, ast.FunctionDef):
                decos = [_deco_name(d) for d in st.decorator_list]
                if 'overload' in decos:
                    continue
                kind = 'method'
                if 'staticmethod' in decos:
                    kind = 'staticmethod'
                elif 'classmethod' in decos:
                    kind = 'classmethod'
                elif 'property' in decos or 'cached_property' in decos:
                    kind = 'property'
                elif any(d.endswith('.setter') for d in decos):
                    ci.setters[st.name] = FunctionInfo(self, ci, st.name, st, 'setter')
                    continue
                ci.methods[st.name] = FunctionInfo(self, ci, st.name, st, kind)
            elif isinstance(st, ast.Assign):
                for t in st.targets:
                    if isinstance(t, ast.Name):
                        ci.class_attrs[t.id] = st.value
            elif isinstance(st, ast.AnnAssign) and isinstance(st.target, ast.Name):
                ci.annotations[st.target.id] = st.annotation
                if st.value is not None:
                    ci.class_attrs[st.target.id] = st.value
        return ci


def _deco_name(d) -> str:
    if isinstance(d, ast.Call):
        d = d.func
    if isinstance(d, ast.Name):
        return d.id
    if isinstance(d, ast.Attribute):
        base = _deco_name(d.value)
        return f'{base}.{d.attr}'
    return '?'


class SourceIndex:
    """
    roots: mapping top-level package name -> directory
    e.g. {'fpy2': '/repo/fpy2', 'spec': '/verif/spec'}
    """

    def __init__(self, roots: dict[str, str]):
        self.roots = roots
        self.modules: dict[str, ModuleInfo | None] = {}

    def module(self, name: str) -> ModuleInfo | None:
        if name in self.modules:
            return self.modules[name]
        parts = name.split('.')
        root = self.roots.get(parts[0])
        mi = None
        if root is not None:
            base = os.path.join(root, *parts[1:])
            if os.path.isdir(base) and os.path.isfile(os.path.join(base, '__init__.py')):
                mi = ModuleInfo(self, name, os.path.join(base, '__init__.py'), True)
            elif os.path.isfile(base + '.py'):
                mi = ModuleInfo(self, name, base + '.py', False)
        self.modules[name] = mi
        return mi

    # -- lookup ---------------------------------------------------------
    def lookup(self, modname: str, name: str, _seen=None):
        """
        Resolve a global `name` in module `modname`.
        Returns one of
          ('function', FunctionInfo) ('class', ClassInfo) ('assign', ModuleInfo, ast.expr)
          ('module', modname) ('external', modname, name) None
        """
        _seen = _seen or set()
        key = (modname, name)
        if key in _seen:
            return None
        _seen.add(key)
        mi = self.module(modname)
        if mi is None:
            return ('external', modname, name)
        if name in mi.functions:
            return ('function', mi.functions[name])
        if name in mi.classes:
            return ('class', mi.classes[name])
        if name in mi.assigns:
            return ('assign', mi, mi.assigns[name])
        if name in mi.imports:
            imp = mi.imports[name]
            if imp[0] == 'module':
                return ('module', imp[1])
            _, src, attr = imp
            # submodule?
            sub = self.module(f'{src}.{attr}') if self.module(src) is not None else None
            r = self.lookup(src, attr, _seen)
            if r is None and sub is not None:
                return ('module', f'{src}.{attr}')
            if r is None and self.module(src) is None:
                return ('external', src, attr)
            return r
        for src in mi.star_imports:
            r = self.lookup(src, name, _seen)
            if r is not None and r[0] != 'external':
                return r
        if mi.is_pkg:
            sub = self.module(f'{modname}.{name}')
            if sub is not None:
                return ('module', f'{modname}.{name}')
        return None

    def find_class(self, qual: str) -> ClassInfo:
        mod, _, name = qual.partition(':')
        mi = self.module(mod)
        if mi is None or name not in mi.classes:
            raise ExtractionError(f'class not found: {qual}')
        return mi.classes[name]

    def find_function(self, qual: str) -> FunctionInfo:
        """qual = 'pkg.mod:func' or 'pkg.mod:Class.method'"""
        mod, _, name = qual.partition(':')
        mi = self.module(mod)
        if mi is None:
            raise ExtractionError(f'module not found: {mod}')
        if '.' in name:
            cname, mname = name.split('.', 1)
            ci = mi.classes.get(cname)
            if ci is None:
                raise ExtractionError(f'class not found: {qual}')
            if mname in ci.methods:
                return ci.methods[mname]
            raise ExtractionError(f'method not found: {qual}')
        if name in mi.functions:
            return mi.functions[name]
        raise ExtractionError(f'function not found: {qual}')

    # -- classes ----------------------------------------------------------
    def bases(self, ci: ClassInfo) -> list:
        """Resolved base classes: ClassInfo or ('external', name) tuples."""
        out = []
        for b in ci.node.bases:
            r = None
            if isinstance(b, ast.Name):
                r = self.lookup(ci.module.name, b.id)
                nm = b.id
            elif isinstance(b, ast.Attribute) and isinstance(b.value, ast.Name):
                m = self.lookup(ci.module.name, b.value.id)
                nm = f'{b.value.id}.{b.attr}'
                if m and m[0] == 'module':
                    r = self.lookup(m[1], b.attr)
                    if r is None:
                        r = ('external', m[1], b.attr)
            elif isinstance(b, ast.Subscript):
                # Generic[...] etc.
                continue
            else:
                nm = ast.dump(b)
            if r and r[0] == 'class':
                out.append(r[1])
            elif r and r[0] == 'external':
                out.append(('external', f'{r[1]}.{r[2]}'))
            else:
                out.append(('external', nm))
        return out

    def mro(self, ci: ClassInfo) -> list[ClassInfo]:
        if ci._mro is not None:
            return ci._mro
        # C3 linearisation over repo classes (external bases are dropped)
        def merge(seqs):
            res = []
            seqs = [list(s) for s in seqs if s]
            while seqs:
                for s in seqs:
                    h = s[0]
                    if not any(h in t[1:] for t in seqs):
                        break
                else:
                    raise ExtractionError(f'inconsistent MRO for {ci.qualname}')
                res.append(h)
                seqs = [[x for x in s if x != h] for s in seqs]
                seqs = [s for s in seqs if s]
            return res
        bs = [b for b in self.bases(ci) if isinstance(b, ClassInfo)]
        ci._mro = [ci] + merge([self.mro(b) for b in bs] + [bs])
        return ci._mro

    def external_bases(self, ci: ClassInfo) -> set[str]:
        out = set()
        for c in self.mro(ci):
            for b in self.bases(c):
                if not isinstance(b, ClassInfo):
                    out.add(b[1])
        return out

    def is_subclass(self, ci: ClassInfo, other: ClassInfo) -> bool:
        return other in self.mro(ci)

    def find_method(self, ci: ClassInfo, name: str) -> FunctionInfo | None:
        for c in self.mro(ci):
            if name in c.methods:
                return c.methods[name]
        return None

    def find_setter(self, ci: ClassInfo, name: str) -> FunctionInfo | None:
        for c in self.mro(ci):
            if name in c.setters:
                return c.setters[name]
        return None

    def find_class_attr(self, ci: ClassInfo, name: str):
        for c in self.mro(ci):
            if name in c.class_attrs:
                return c, c.class_attrs[name]
        return None

    def fields(self, ci: ClassInfo) -> dict[str, tuple[ClassInfo, ast.expr]]:
        """Instance fields: annotated names of the class and its bases (base first)."""
        out = {}
        for c in reversed(self.mro(ci)):
            for k, ann in c.annotations.items():
                if k in c.class_attrs and k not in ('__slots__',):
                    # annotated with value = class constant, still could be field; keep
                    pass
                out[k] = (c, ann)
        # fields that are not annotated in the class body but that __init__ sets directly from an annotated
        # parameter (`self.k = p`): the field has the parameter's declared type
        for c in reversed(self.mro(ci)):
            init = c.methods.get('__init__')
            if init is None:
                continue
            node = init.node
            anns = {a.arg: a.annotation for a in node.args.args + node.args.kwonlyargs if a.annotation is not None}
            for st in node.body:
                if isinstance(st, ast.Assign) and len(st.targets) == 1 and isinstance(st.targets[0], ast.Attribute) \
                        and isinstance(st.targets[0].value, ast.Name) and st.targets[0].value.id == 'self' \
                        and isinstance(st.value, ast.Name) and st.value.id in anns and st.targets[0].attr not in out:
                    out[st.targets[0].attr] = (c, anns[st.value.id])
        return out

    def is_enum(self, ci: ClassInfo) -> bool:
        ext = self.external_bases(ci)
        return any(e.split('.')[-1] in ('Enum', 'IntEnum', 'Flag', 'IntFlag') for e in ext)

    def is_flag_enum(self, ci: ClassInfo) -> bool:
        ext = self.external_bases(ci)
        return any(e.split('.')[-1] in ('Flag', 'IntFlag') for e in ext)

    def enum_members(self, ci: ClassInfo) -> list[tuple[str, ast.expr]]:
        out = []
        for st in ci.node.body:
            if isinstance(st, ast.Assign) and len(st.targets) == 1 and isinstance(st.targets[0], ast.Name):
                nm = st.targets[0].id
                if not nm.startswith('_'):
                    out.append((nm, st.value))
        return out
