"""
Lazily evaluated sequences derived from a symbolic-length sequence (C19x: fpy2/transform/path.py `sub_exprs`).

All of them are `SymSeq`s (so `len`, the bounds-checked subscript, truthiness work unchanged); only `at`
(element at a checked, non-negative index) differs.

  EnumSeq      `enumerate(s, start)`           element k = (start + k, s[k])
  MapSeq       `[elt for tgt in s]` / `(elt for tgt in s)` with ONE generator, NO filter and an `elt` that is
               syntactically effect-free (names, constants, attributes, tuples, subscripts -- no calls): element k is
               `elt` evaluated with `tgt` bound to s[k].  The free variables of `elt` are read when the comprehension
               is evaluated (Python evaluates the whole comprehension at that point), so a later rebinding is not seen.
               Everything else stays UNSUPPORTED (an effectful body over a symbolic sequence needs a loop rule).
  CopySeq      `tuple(s)` / `list(s)`          same elements (the objects are shared, as in Python)
  ConcatSeq    `(*a, x, *b)` where some starred part is a symbolic sequence: length = sum of the part lengths,
               element k = the element of the part that covers k (decided by branching on k).
"""
from __future__ import annotations

import ast

import z3

from .seqs import NOT_HANDLED, SymSeq
from .values import Unsupported, as_int, as_z3int, is_intlike, simp


class LazySeq(SymSeq):
    """a SymSeq whose elements are computed from other sequences"""
    __slots__ = ()

    def _init(self, name, length, kind):
        SymSeq.__init__(self, name, length, ('any',), kind)

    def __iter__(self):
        # a Python-level iteration (e.g. `[*a, x]` building a concrete list) has no symbolic meaning
        raise Unsupported(f'iteration over the symbolic sequence {self.name}')


class EnumSeq(LazySeq):
    __slots__ = ('base', 'start')

    def __init__(self, base, start):
        self._init(f'enumerate({base.name})', base.length, 'tuple')
        self.base = base
        self.start = start

    def at(self, P, idx):
        zi = simp(as_z3int(idx))
        return (simp(as_z3int(as_int(self.start)) + zi), self.base.at(P, zi))


class CopySeq(LazySeq):
    __slots__ = ('base',)

    def __init__(self, base, kind):
        self._init(f'{kind}({base.name})', base.length, kind)
        self.base = base

    def at(self, P, idx):
        return self.base.at(P, idx)


class MapSeq(LazySeq):
    __slots__ = ('base', 'target', 'elt', 'frame', 'captured')

    def __init__(self, base, target, elt, frame, captured, kind):
        self._init(f'map({base.name})@{elt.lineno}', base.length, kind)
        self.base = base
        self.target = target
        self.elt = elt
        self.frame = frame
        self.captured = captured

    def at(self, P, idx):
        from .interp import Frame
        zi = simp(as_z3int(idx))
        key = zi.get_id()
        hit = self.cache.get(key)
        if hit is not None:
            return hit[1]
        fr = self.frame
        inner = Frame(fr.module, fr.fn, fr.cls, parent=fr)
        P.new_dict(inner.locals)
        for k, v in self.captured.items():
            inner.locals[k] = v
        P.assign(self.target, self.base.at(P, zi), inner)
        v = P.ev(self.elt, inner)
        self.cache[key] = (zi, v)
        return v


class ConcatSeq(LazySeq):
    __slots__ = ('parts',)

    def __init__(self, parts, kind):
        # parts: [('item', value) | ('seq', SymSeq)]
        total = z3.IntVal(0)
        for k, v in parts:
            total = total + (z3.IntVal(1) if k == 'item' else as_z3int(v.length))
        self._init('concat(' + ','.join(v.name if k == 'seq' else '.' for k, v in parts) + ')', simp(total), kind)
        self.parts = parts

    def at(self, P, idx):
        zi = simp(as_z3int(idx))
        off = z3.IntVal(0)
        last = len(self.parts) - 1
        for n, (k, v) in enumerate(self.parts):
            if k == 'item':
                if n == last or P.branch(simp(zi == off), f'concat@{n}'):
                    return v
                off = simp(off + 1)
            else:
                ln = as_z3int(v.length)
                if n == last or P.branch(simp(z3.And(off <= zi, zi < off + ln)), f'concat@{n}'):
                    return v.at(P, simp(zi - off))
                off = simp(off + ln)
        raise Unsupported('element of an empty concatenation')


# --------------------------------------------------------------------------- hooks

class LazyComp(Exception):
    """carries the lazy sequence out of Path._comp"""
    def __init__(self, seq):
        self.seq = seq


_PURE = (ast.Name, ast.Constant, ast.Tuple, ast.Attribute, ast.Subscript, ast.Load, ast.Store)


def _pure(node) -> bool:
    return all(isinstance(n, _PURE) for n in ast.walk(node))


def _target_names(t):
    return {n.id for n in ast.walk(t) if isinstance(n, ast.Name)}


def comp_over_seq(P, node, fr, it_, kind):
    """hook of Path._comp: a comprehension whose (only) generator ranges over a symbolic sequence"""
    if not isinstance(it_, SymSeq):
        return NOT_HANDLED
    if len(node.generators) != 1 or node.generators[0].ifs or getattr(node.generators[0], 'is_async', 0):
        return NOT_HANDLED
    if not isinstance(node, (ast.ListComp, ast.GeneratorExp)) or not _pure(node.elt):
        return NOT_HANDLED
    g = node.generators[0]
    bound = _target_names(g.target)
    captured = {}
    for n in ast.walk(node.elt):
        if isinstance(n, ast.Name) and n.id not in bound and n.id not in captured:
            captured[n.id] = P.lookup_name(n.id, fr)
    return MapSeq(it_, g.target, node.elt, fr, captured, kind)


def enumerate_seq(P, it, start=0):
    if not isinstance(it, SymSeq):
        return NOT_HANDLED
    if not is_intlike(start):
        raise Unsupported('enumerate with a non-integer start')
    return EnumSeq(it, start)


def copy_seq(P, it, kind):
    if not isinstance(it, SymSeq):
        return NOT_HANDLED
    return CopySeq(it, kind)


def starred_tuple(P, node, fr):
    """hook of Path.ev_Tuple: `(*a, x, *b)`; handled when a starred part is a symbolic sequence"""
    if not any(isinstance(e, ast.Starred) for e in node.elts):
        return NOT_HANDLED
    vals = []
    symbolic = False
    for e in node.elts:
        if isinstance(e, ast.Starred):
            v = P.ev(e.value, fr)
            if isinstance(v, SymSeq):
                symbolic = True
                vals.append(('seq', v))
            else:
                vals.extend(('item', x) for x in P.iterate(v))
        else:
            vals.append(('item', P.ev(e, fr)))
    if not symbolic:
        return tuple(v for _, v in vals)
    return ConcatSeq(vals, 'tuple')


def same_elem_obj(P, a, b):
    """speclib.same_elem_obj: `a is b`; two SeqElems of the same array family (same input sequence, same component
    path) are the same object iff their index terms are equal -- the index term need not be syntactically the same
    (an element reached as s[j] and as concat[off + j])"""
    from .seqs import SeqElem
    if a is b:
        return True
    if isinstance(a, SeqElem) and isinstance(b, SeqElem):
        if a.seq is b.seq and a.name.rpartition('@')[0] == b.name.rpartition('@')[0]:
            return simp(as_z3int(a.idx) == as_z3int(b.idx))
        return False
    return P.identical(a, b)
