"""
Exhaustive decision procedure for small quantifier-free bit-vector queries (C20x).

The bounded FPy stand-ins (pyvc/fpydialect.py) ask  `facts AND NOT goal`  over a handful of
64-bit variables that the facts confine to tiny ranges (|m| < 2^p, |e| <= E).  A SAT solver
needs minutes for the refutation of such a query; the domain has at most a few million points.
This module decides the SAME query by evaluating the SAME z3 terms on every point:

  1. ranges: for every free variable v a signed interval [lo, hi] is computed such that the
     facts that mention only v imply lo <= v <= hi (each bound is PROVED by z3: the query
     `fact_v AND (v < lo OR v > hi)` is unsat), so no model of the query lies outside the box;
  2. evaluation: the term DAG is evaluated with numpy on the whole box (chunked): bit-vectors of
     width w <= 64 are uint64 arrays reduced mod 2^w, Booleans are bool arrays; every z3
     operator that occurs is implemented with its SMT-LIB semantics (anything else -> the
     procedure declines and the caller falls back to the SAT solver);
  3. answer: `unsat` iff no point satisfies all formulas, else the first satisfying point.

It is a bounded check, reported as such (backend `bv-enum(<points>)`), never counted as proved.
`selfcheck()` compares the evaluator with z3's own `simplify` on random terms and points.
"""
from __future__ import annotations

import time

import numpy as np
import z3

U = np.uint64
CHUNK = 1 << 13


def _tune_malloc():
    """glibc returns freed array blocks to the kernel (heap trimming / munmap) and page faults are very expensive in
    the sandbox VM (measured ~90 us each): keep freed memory in the process.  Performance only."""
    try:
        import ctypes
        libc = ctypes.CDLL('libc.so.6')
        libc.mallopt(-1, 1 << 30)      # M_TRIM_THRESHOLD
        libc.mallopt(-3, 1 << 30)      # M_MMAP_THRESHOLD
    except Exception:
        pass


_tune_malloc()


class Decline(Exception):
    pass


def _mask(w):
    return U((1 << w) - 1) if w < 64 else U(0xFFFFFFFFFFFFFFFF)


def _c(val, w):
    return np.array([val & ((1 << w) - 1)], dtype=U)


def _flip(a, w):
    """order-isomorphism signed -> unsigned at width w"""
    return a ^ U(1 << (w - 1))


def _shl(a, s, w):
    big = s >= U(w)
    r = (a << np.minimum(s, U(63))) & _mask(w)
    return np.where(big, U(0), r)


def _lshr(a, s, w):
    big = s >= U(w)
    r = a >> np.minimum(s, U(63))
    return np.where(big, U(0), r)


def _sext(a, w, to):
    sign = (a >> U(w - 1)) & U(1)
    ext = U(((1 << to) - 1) ^ ((1 << w) - 1))
    return np.where(sign == U(1), a | ext, a)


def _ashr(a, s, w):
    x = _sext(a, w, 64).astype(np.int64)
    r = (x >> np.minimum(s, U(63)).astype(np.int64)).astype(U) & _mask(w)
    return r


K = z3


def _topo(roots):
    order, seen = [], set()
    stack = [(r, False) for r in roots]
    while stack:
        e, done = stack.pop()
        i = e.get_id()
        if done:
            if i not in seen:
                seen.add(i)
                order.append(e)
            continue
        if i in seen:
            continue
        stack.append((e, True))
        for ch in e.children():
            if ch.get_id() not in seen:
                stack.append((ch, False))
    return order


def free_vars(formulas):
    out = {}
    for e in _topo(formulas):
        if z3.is_const(e) and e.decl().kind() == z3.Z3_OP_UNINTERPRETED:
            out[e.decl().name()] = e
    return out


def _width(e):
    return e.sort().size() if z3.is_bv(e) else 0


class Program:
    """a term DAG compiled to a straight-line program over slots (no z3 calls while running)"""

    def __init__(self, roots):
        order = _topo(roots)
        slot = {}
        self.code = []
        for e in order:
            if not (z3.is_bv(e) and e.sort().size() <= 64) and not z3.is_bool(e):
                raise Decline(f'sort {e.sort()}')
            k = e.decl().kind()
            ch = e.children()
            args = tuple(slot[c.get_id()] for c in ch)
            w = _width(e)
            extra = None
            if k == z3.Z3_OP_BNUM:
                extra = _c(e.as_long(), w)
            elif k == z3.Z3_OP_UNINTERPRETED:
                if e.num_args() != 0:
                    raise Decline(f'uninterpreted function {e.decl().name()}')
                extra = e.decl().name()
            elif k == z3.Z3_OP_EXTRACT:
                extra = tuple(e.params())
            elif k == z3.Z3_OP_CONCAT:
                extra = tuple(_width(c) for c in ch)
            elif k in (z3.Z3_OP_SIGN_EXT, z3.Z3_OP_SLEQ, z3.Z3_OP_SGEQ, z3.Z3_OP_SLT, z3.Z3_OP_SGT):
                extra = _width(ch[0])
            elif k == z3.Z3_OP_DISTINCT and len(ch) != 2:
                raise Decline('n-ary distinct')
            elif k not in _KNOWN:
                raise Decline(f'operator {e.decl().name()}')
            slot[e.get_id()] = len(self.code)
            self.code.append((k, w, args, extra))
        self.roots = [slot[r.get_id()] for r in roots]
        self.vars = sorted({c[3] for c in self.code if c[0] == z3.Z3_OP_UNINTERPRETED})
        # liveness: slot -> index of its last use (roots live forever)
        last = {}
        for i, (_, _, args, _) in enumerate(self.code):
            for a_ in args:
                last[a_] = i
        for r in self.roots:
            last[r] = len(self.code)
        self.free_after = [[] for _ in self.code]
        for s_, i in last.items():
            if i < len(self.code):
                self.free_after[i].append(s_)

    def run(self, env):
        val = [None] * len(self.code)
        Z = z3
        for i, (k, w, args, extra) in enumerate(self.code):
            a = [val[j] for j in args]
            if k == Z.Z3_OP_BNUM:
                r = extra
            elif k == Z.Z3_OP_UNINTERPRETED:
                if extra not in env:
                    raise Decline(f'free symbol {extra}')
                r = env[extra]
            elif k == Z.Z3_OP_TRUE:
                r = _TRUE
            elif k == Z.Z3_OP_FALSE:
                r = _FALSE
            elif k == Z.Z3_OP_BADD:
                r = a[0]
                for x in a[1:]:
                    r = r + x
                r = r & _mask(w)
            elif k == Z.Z3_OP_BSUB:
                r = a[0]
                for x in a[1:]:
                    r = r - x
                r = r & _mask(w)
            elif k == Z.Z3_OP_BMUL:
                r = a[0]
                for x in a[1:]:
                    r = r * x
                r = r & _mask(w)
            elif k == Z.Z3_OP_BNEG:
                r = (U(0) - a[0]) & _mask(w)
            elif k == Z.Z3_OP_BNOT:
                r = (~a[0]) & _mask(w)
            elif k == Z.Z3_OP_BAND:
                r = a[0]
                for x in a[1:]:
                    r = r & x
            elif k == Z.Z3_OP_BOR:
                r = a[0]
                for x in a[1:]:
                    r = r | x
            elif k == Z.Z3_OP_BXOR:
                r = a[0]
                for x in a[1:]:
                    r = r ^ x
            elif k == Z.Z3_OP_BSHL:
                r = _shl(a[0], a[1], w)
            elif k == Z.Z3_OP_BLSHR:
                r = _lshr(a[0], a[1], w)
            elif k == Z.Z3_OP_BASHR:
                r = _ashr(a[0], a[1], w)
            elif k == Z.Z3_OP_CONCAT:
                r = a[0]
                for cw, x in zip(extra[1:], a[1:]):
                    r = (r << U(cw)) | x
            elif k == Z.Z3_OP_EXTRACT:
                hi, lo = extra
                r = (a[0] >> U(lo)) & _mask(hi - lo + 1)
            elif k == Z.Z3_OP_ZERO_EXT:
                r = a[0]
            elif k == Z.Z3_OP_SIGN_EXT:
                r = _sext(a[0], extra, w)
            elif k == Z.Z3_OP_ITE:
                r = np.where(a[0], a[1], a[2])
            elif k == Z.Z3_OP_EQ:
                r = a[0] == a[1]
            elif k == Z.Z3_OP_DISTINCT:
                r = a[0] != a[1]
            elif k == Z.Z3_OP_ULEQ:
                r = a[0] <= a[1]
            elif k == Z.Z3_OP_UGEQ:
                r = a[0] >= a[1]
            elif k == Z.Z3_OP_ULT:
                r = a[0] < a[1]
            elif k == Z.Z3_OP_UGT:
                r = a[0] > a[1]
            elif k == Z.Z3_OP_SLEQ:
                r = _flip(a[0], extra) <= _flip(a[1], extra)
            elif k == Z.Z3_OP_SGEQ:
                r = _flip(a[0], extra) >= _flip(a[1], extra)
            elif k == Z.Z3_OP_SLT:
                r = _flip(a[0], extra) < _flip(a[1], extra)
            elif k == Z.Z3_OP_SGT:
                r = _flip(a[0], extra) > _flip(a[1], extra)
            elif k == Z.Z3_OP_AND:
                r = a[0] if a else _TRUE
                for x in a[1:]:
                    r = r & x
            elif k == Z.Z3_OP_OR:
                r = a[0] if a else _FALSE
                for x in a[1:]:
                    r = r | x
            elif k == Z.Z3_OP_NOT:
                r = ~a[0]
            elif k == Z.Z3_OP_IMPLIES:
                r = (~a[0]) | a[1]
            elif k == Z.Z3_OP_XOR:
                r = a[0] ^ a[1]
            else:
                raise Decline(f'operator kind {k}')
            val[i] = r
            for j in self.free_after[i]:
                val[j] = None
        return [val[r] for r in self.roots]


_TRUE = np.array([True])
_FALSE = np.array([False])
_KNOWN = {z3.Z3_OP_TRUE, z3.Z3_OP_FALSE, z3.Z3_OP_BADD, z3.Z3_OP_BSUB, z3.Z3_OP_BMUL, z3.Z3_OP_BNEG, z3.Z3_OP_BNOT,
          z3.Z3_OP_BAND, z3.Z3_OP_BOR, z3.Z3_OP_BXOR, z3.Z3_OP_BSHL, z3.Z3_OP_BLSHR, z3.Z3_OP_BASHR, z3.Z3_OP_ZERO_EXT,
          z3.Z3_OP_ITE, z3.Z3_OP_EQ, z3.Z3_OP_DISTINCT, z3.Z3_OP_ULEQ, z3.Z3_OP_UGEQ, z3.Z3_OP_ULT, z3.Z3_OP_UGT,
          z3.Z3_OP_AND, z3.Z3_OP_OR, z3.Z3_OP_NOT, z3.Z3_OP_IMPLIES, z3.Z3_OP_XOR}


def evaluate(roots, env):
    """values of the z3 terms `roots` under env: name -> uint64 array"""
    return Program(roots).run(env)


RANGE_WINDOW = 1 << 13     # candidate window for a variable's range: [-2^13, 2^13]


def _range_of(own, v):
    """(lo, hi) signed with  own => lo <= v <= hi  PROVED by z3; the candidates come from evaluating `own` on a window"""
    w = v.sort().size()
    nm = v.decl().name()
    xs = np.arange(-RANGE_WINDOW, RANGE_WINDOW + 1, dtype=np.int64)
    with np.errstate(over='ignore'):
        vals = Program(own).run({nm: xs.astype(U) & _mask(w)})
    ok = np.ones(len(xs), dtype=bool)
    for x in vals:
        ok = ok & x
    if not ok.any():
        lo, hi = 0, -1           # no value in the window: claim (and prove) that `own` has no model at all
    else:
        lo, hi = int(xs[ok][0]), int(xs[ok][-1])
    s = z3.Solver()
    s.set('timeout', 10000)
    s.add(own)
    if lo <= hi:
        s.add(z3.Or(v < z3.BitVecVal(lo, w), v > z3.BitVecVal(hi, w)))
    if s.check() != z3.unsat:
        raise Decline(f'no small range for {nm}')
    return lo, hi


def ranges_of(formulas):
    """{name: (term, lo, hi)}: every bound proved from the formulas that mention only that variable; None if the
    formulas are contradictory; Decline if some variable has no small range"""
    per = [(f, set(free_vars([f]))) for f in formulas]
    fv = free_vars(formulas)
    out = {}
    for nm, v in fv.items():
        if not z3.is_bv(v):
            raise Decline(f'variable {nm} of sort {v.sort()}')
        own = [f for f, vs in per if vs == {nm}]
        if not own:
            raise Decline(f'no range fact for {nm}')
        lo, hi = _range_of(own, v)
        if lo > hi:
            return None
        out[nm] = (v, lo, hi)
    return out


_RANGE_CACHE = {}


def enum_check(formulas, max_points=1 << 27, deadline=None):
    """
    decide the conjunction of `formulas` by exhaustive evaluation.
    returns ('unsat', npoints, None) | ('sat', npoints, {name: signed value}); raises Decline if not applicable.
    """
    formulas = [f for f in formulas]
    prog = Program(formulas)
    # facts (all but the negated goal) are shared by the clauses of a contract: cache their ranges
    key = tuple(f.get_id() for f in formulas[:-1])
    if key in _RANGE_CACHE and _RANGE_CACHE[key][0] is not None:
        rng = _RANGE_CACHE[key][0]
        missing = set(free_vars(formulas)) - set(rng)
        if missing:
            rng = ranges_of(formulas)
    else:
        rng = ranges_of(formulas)
        _RANGE_CACHE.clear()
        _RANGE_CACHE[key] = (rng, formulas[:-1])      # keep the terms alive: ids stay unique
    if rng is None:
        return 'unsat', 0, None
    names = sorted(rng)
    sizes = [rng[n][2] - rng[n][1] + 1 for n in names]
    total = 1
    for s in sizes:
        total *= s
    if total > max_points:
        raise Decline(f'{total} points')
    done = 0
    while done < total:
        if deadline is not None and time.time() > deadline:
            raise Decline('deadline')
        n = min(CHUNK, total - done)
        idx = np.arange(done, done + n, dtype=np.int64)
        env = {}
        stride = 1
        for nm, sz in zip(names, sizes):
            v, lo, _ = rng[nm]
            x = (idx // stride) % sz + lo
            env[nm] = x.astype(U) & _mask(v.sort().size())
            stride *= sz
        with np.errstate(over='ignore'):
            vals = prog.run(env)
        ok = np.ones(n, dtype=bool)
        for x in vals:
            ok = ok & x
        if ok.any():
            j = int(np.argmax(ok))
            model = {}
            for nm in names:
                w = rng[nm][0].sort().size()
                u = int(np.broadcast_to(env[nm], (n,))[j])
                model[nm] = u - (1 << w) if u >> (w - 1) else u
            return 'sat', done + j + 1, model
        done += n
    return 'unsat', total, None


def enum_discharge(ex, facts_pc, goal, B):
    """
    engine hook (Explorer.discharge, contract option 'bv_enum'): decide `facts AND NOT goal` by enumeration.
    Returns the engine's (status, secs, backend, smt2) tuple, or None when the procedure does not apply
    (non-bit-vector terms, a variable without a small proved range, too many points): the caller then uses the solver.
    On `sat` the satisfying point is left in ex._enum_pins (equalities) so that the counterexample search is immediate.
    """
    from .values import as_z3bool
    t0 = time.time()
    if goal is True:
        return 'unsat', 0.0, 'trivial', None
    g = z3.BoolVal(False) if goal is False else as_z3bool(goal)
    formulas = [f if z3.is_expr(f) else z3.BoolVal(bool(f)) for f in facts_pc] + [z3.Not(g)]
    opt = ex.current.opts.get('bv_enum')
    max_points = opt if isinstance(opt, int) and not isinstance(opt, bool) else 1 << 27
    try:
        st, n, model = enum_check(formulas, max_points=max_points)
    except Decline as e:
        import os
        if os.environ.get('PYVC_LOG'):
            print(f'[pyvc]    bv-enum declined: {e}', flush=True)
        return None
    secs = time.time() - t0
    if st == 'unsat':
        return 'bounded-unsat', secs, f'bv-enum({B})', None
    fv = free_vars(formulas)
    ex._enum_pins = [fv[nm] == z3.BitVecVal(val, fv[nm].sort().size()) for nm, val in model.items()]
    return 'sat', secs, 'bv-enum', None


def selfcheck(rounds=300, seed=7):
    """random differential test of `evaluate` against z3's simplifier; returns the number of checked terms"""
    import random
    rnd = random.Random(seed)
    n = 0
    for _ in range(rounds):
        w = rnd.choice([1, 2, 5, 8, 13, 31, 32, 33, 63, 64])
        x, y = z3.BitVec('x', w), z3.BitVec('y', w)
        sh = z3.BitVecVal(rnd.randrange(0, w + 3), w) if w > 2 else y
        terms = [x + y, x - y, x * y, -x, ~x, x & y, x | y, x ^ y, x << sh, z3.LShR(x, sh), x >> sh,
                 x << y, z3.LShR(x, y), x >> y,
                 z3.If(z3.ULT(x, y), x, y), z3.If(x < y, x, y), z3.If(z3.UGE(x, y), x, y), z3.If(x >= y, x, y),
                 z3.If(z3.ULE(x, y), x, y), z3.If(x <= y, x, y), z3.If(z3.UGT(x, y), x, y), z3.If(x > y, x, y),
                 z3.If(x == y, x, y + 1), z3.If(z3.Xor(x == y, z3.ULT(x, y)), x, y),
                 z3.If(z3.Implies(x == y, z3.ULT(x, y)), x, y)]
        if w > 1:
            hi = rnd.randrange(0, w)
            lo = rnd.randrange(0, hi + 1)
            terms.append(z3.ZeroExt(w - (hi - lo + 1), z3.Extract(hi, lo, x)))
            terms.append(z3.SignExt(w - (hi - lo + 1), z3.Extract(hi, lo, x)))
        if w <= 32:
            terms.append(z3.Extract(w - 1, 0, z3.Concat(x, y) + z3.Concat(y, x)))
        pts = [(rnd.getrandbits(w), rnd.getrandbits(w)) for _ in range(6)] + [(0, 0), ((1 << w) - 1, (1 << w) - 1), (1 << (w - 1), 1)]
        env = {'x': np.array([p[0] for p in pts], dtype=U), 'y': np.array([p[1] for p in pts], dtype=U)}
        for t in terms:
            with np.errstate(over='ignore'):
                got = np.broadcast_to(evaluate([t], env)[0], (len(pts),))
            for j, (px, py) in enumerate(pts):
                want = z3.simplify(z3.substitute(t, (x, z3.BitVecVal(px, w)), (y, z3.BitVecVal(py, w)))).as_long()
                if int(got[j]) != want:
                    raise AssertionError(f'bvenum.selfcheck: {t} at x={px}, y={py} (width {w}): numpy {int(got[j])}, z3 {want}')
                n += 1
    return n


if __name__ == '__main__':
    print('bvenum selfcheck:', selfcheck(), 'evaluations agree with z3')
