"""
Assertions that must fail: in-memory mutants of the extracted source (never
written to /repo).  Each mutant must make a named contract's verification
report at least one undischarged obligation; a survivor is a hole in a contract.

  python3-vt -m pyvc.selftest <PROP|all> [--max N] [-j J]
Prints one line per mutant; exit 0 iff no SELFTEST-SURVIVOR.
"""
from __future__ import annotations

import json
import multiprocessing as mp
import os
import sys

ROOT = os.path.dirname(os.path.dirname(os.path.abspath(__file__)))


def _one(m):
    os.environ['FPY_MUT'] = json.dumps({'file': m['file'], 'old': m['old'], 'new': m['new']})
    os.environ.setdefault('PYVC_MAX_SECONDS', '240')
    sys.path.insert(0, ROOT)
    from pyvc.check import contract_modules
    from pyvc.run import make_explorer
    try:
        ex = make_explorer(contract_modules(), timeout_ms=5000)
        ex.refute_bound = [8]
        c = ex.contracts[m['contract']]
        info = ex.index.find_function(c.target) if c.target else None
        cases = ex.cases(c, info)
        killed_by = []
        with_cex = 0
        for i, case in enumerate(cases):
            if 'case' in m and i != m['case']:
                continue
            r = ex.verify(m['contract'], case)
            for k, o in r['obligations'].items():
                if o['open']:
                    killed_by.append(k)
                    with_cex += sum(1 for e in o['open'] if e.get('cex'))
            if r['unsupported'] or r['crashes']:
                killed_by.append('unsupported/crash:' + str((r['unsupported'] + r['crashes'])[:1]))
            if killed_by:
                break
        return {'id': m['id'], 'killed': bool(killed_by), 'by': sorted(set(killed_by))[:4], 'cex': with_cex, 'what': m['what']}
    except Exception as e:
        return {'id': m['id'], 'killed': False, 'error': f'{type(e).__name__}: {e}', 'what': m['what']}


def run(prop='all', max_n=None, procs=8):
    muts = json.load(open(os.path.join(ROOT, 'selftest', 'mutants.json')))
    if prop != 'all':
        muts = [m for m in muts if prop in m['props']]
    if max_n:
        muts = muts[:max_n]
    if not muts:
        return []
    with mp.get_context('spawn').Pool(min(procs, len(muts))) as pool:
        return pool.map(_one, muts, chunksize=1)


def main():
    import argparse
    ap = argparse.ArgumentParser()
    ap.add_argument('prop', nargs='?', default='all')
    ap.add_argument('--max', type=int, default=None)
    ap.add_argument('-j', type=int, default=8)
    a = ap.parse_args()
    res = run(a.prop, a.max, a.j)
    bad = 0
    for r in res:
        if r['killed']:
            print(f"killed   {r['id']} ({r['what']}): {r['by']} cex={r['cex']}")
        else:
            bad += 1
            print(f"SELFTEST-SURVIVOR {r['id']} ({r['what']}) {r.get('error', '')}")
    return 0 if bad == 0 else 3


if __name__ == '__main__':
    sys.exit(main())
