"""
FPy dialect for pyvc (C20, DESIGN §5 X2/X3).

Functions decorated with `@fpy` are FPy-DSL programs, not Python: their source is
read with the same `ast` front end, but

  * every arithmetic node (+ - * / ** unary-, abs, fma, round, pow, ceil ...) denotes
    rnd(C, exact-op(...)) for the AMBIENT rounding context C;
  * `with fp.REAL:` makes C = REAL for its body (rnd is the identity), `with fp.INTEGER:`
    makes C = INTEGER (round toward zero to an integer);
  * calls to other `@fpy` functions run the callee under the caller's C;
  * numeric literals are exact; comparisons are exact; values are FINITE reals
    (infinities / NaN are excluded by the contracts' precondition "rounded result finite").

Two value domains:

  real  (proof)    values are z3 Reals; rnd(C, v) for the ambient C is the UNINTERPRETED
                   function fpy_rnd(ctx, v); only rnd(REAL, v) = v is built in.  What is
                   proved holds for every context.
  bv    (BOUNDED)  contract option 'fpy_rnd': 'rne' together with 'bounded': E.  rnd is
                   DEFINED as round-to-nearest-even at p significant digits (unbounded
                   exponent); values are exact fixed-point numbers (64-bit vector, static
                   scale); operands are m * 2^e with |m| < 2^p, |e| <= E, all symbolic.
                   Never counted as proved.

A contract selects the dialect with  options = {'dialect': 'fpy', ...}; the ambient
context is the contract parameter `ctx` (type string 'FpyCtx').
"""
from __future__ import annotations

import ast
from fractions import Fraction

import z3

from .interp import Frame, MergeAbort, Path, SymRaise, _Return, mk_exc
from .values import (FuncV, InterpError, Opaque, Unsupported, as_z3bool, as_z3real, is_fraclike,
                     is_intlike, is_sym_bool, is_z3, simp)

W = 64          # width of the fixed-point vectors (bounded domain)
MAXBITS = 60    # static magnitude bound that must never be exceeded

fpy_rnd = z3.Function('fpy_rnd', z3.IntSort(), z3.RealSort(), z3.RealSort())
fpy_pow = z3.Function('fpy_pow', z3.RealSort(), z3.RealSort(), z3.RealSort())


class FixV:
    """exact dyadic number: signed 64-bit vector `bv` / 2^scale; `bits` bounds |bv| < 2^bits statically"""
    __slots__ = ('bv', 'scale', 'bits')

    def __init__(self, bv, scale, bits):
        if bits > MAXBITS:
            raise Unsupported(f'fixed-point magnitude bound exceeded ({bits} bits)')
        self.bv = bv
        self.scale = scale
        self.bits = bits

    def __abs__(self):
        return FixV(z3.If(self.bv < 0, -self.bv, self.bv), self.scale, self.bits)

    def __repr__(self):
        return f'<fix /2^{self.scale} <2^{self.bits}>'


def _bvc(n):
    return z3.BitVecVal(n, W)


def fix_const(q) -> FixV:
    q = Fraction(q)
    d = q.denominator
    if d & (d - 1):
        raise Unsupported(f'non-dyadic constant {q} in the bounded FPy domain')
    sc = d.bit_length() - 1
    return FixV(_bvc(q.numerator), sc, abs(q.numerator).bit_length())


def fix_align(a: FixV, b: FixV):
    sc = max(a.scale, b.scale)
    fa = FixV(a.bv << (sc - a.scale), sc, a.bits + sc - a.scale) if sc != a.scale else a
    fb = FixV(b.bv << (sc - b.scale), sc, b.bits + sc - b.scale) if sc != b.scale else b
    return fa, fb


def to_fix(v) -> FixV:
    if isinstance(v, FixV):
        return v
    if isinstance(v, bool):
        raise InterpError('bool used as a number')
    if isinstance(v, (int, Fraction)):
        return fix_const(v)
    raise Unsupported(f'value {v!r} in the bounded FPy domain')


def is_num(v):
    return isinstance(v, (FixV, Fraction)) or (isinstance(v, int) and not isinstance(v, bool)) \
        or (isinstance(v, z3.ArithRef))


def rne_fix(v: FixV, p: int) -> FixV:
    """round-to-nearest-even to p significant digits, unbounded exponent (scale-free)"""
    x = v.bv
    neg = x < 0
    a = z3.If(neg, -x, x)
    L = _bvc(0)
    for k in range(1, v.bits + 2):
        L = z3.If(z3.UGE(a, _bvc(1 << (k - 1))), _bvc(k), L)
    sh = z3.If(L > _bvc(p), L - _bvc(p), _bvc(0))
    q = z3.LShR(a, sh)
    rem = a - (q << sh)
    half = z3.If(sh == 0, _bvc(0), _bvc(1) << (sh - 1))
    up = z3.And(sh != 0, z3.Or(z3.UGT(rem, half), z3.And(rem == half, z3.Extract(0, 0, q) == 1)))
    r = (q + z3.If(up, _bvc(1), _bvc(0))) << sh
    return FixV(z3.If(neg, -r, r), v.scale, v.bits + 1)


def rne_frac(q: Fraction, p: int) -> Fraction:
    if q == 0:
        return q
    s = -1 if q < 0 else 1
    a = abs(q)
    e = a.numerator.bit_length() - a.denominator.bit_length()
    if Fraction(2) ** e > a:
        e -= 1
    u = Fraction(2) ** (e - p + 1)
    t = a / u
    f = t.numerator // t.denominator
    d = t - f
    if d > Fraction(1, 2) or (d == Fraction(1, 2) and f % 2 == 1):
        f += 1
    return s * f * u


class CtxV:
    """a rounding context of the dialect: 'REAL', 'INTEGER' or the symbolic 'AMBIENT' one"""
    __slots__ = ('kind',)

    def __init__(self, kind):
        self.kind = kind

    def __repr__(self):
        return f'<fpyctx {self.kind}>'


REAL = CtxV('REAL')
INTEGER = CtxV('INTEGER')
AMBIENT = CtxV('AMBIENT')


def _deco_names(info):
    out = []
    for d in info.node.decorator_list:
        f = d.func if isinstance(d, ast.Call) else d
        out.append(f.attr if isinstance(f, ast.Attribute) else getattr(f, 'id', '?'))
    return out


def is_fpy_function(info) -> bool:
    return info is not None and 'fpy' in _deco_names(info)


def is_fpy_primitive(info) -> bool:
    return info is not None and 'fpy_primitive' in _deco_names(info)


class FpyPath(Path):
    def __init__(self, explorer, prefix):
        super().__init__(explorer, prefix)
        self.fpy_ctx: list = []          # ambient-context stack; non-empty while an @fpy body is executed
        self.entry_exprs: dict = {}      # input name -> z3 term that holds its model value (for counterexamples)
        opts = explorer.current.opts if explorer.current is not None else {}
        self.bounded = bool(opts.get('fpy_rnd'))      # 'rne' | any mode of pyvc/fpyround.py | 'param' (contract parameter `rm`)
        self.E = int(opts.get('bounded') or 0) if self.bounded else 0

    # ------------------------------------------------------------- contexts
    @property
    def fpy_mode(self) -> bool:
        return bool(self.fpy_ctx)

    def precision(self) -> int:
        p = self.bound.get('p') if hasattr(self, 'bound') else None
        if not isinstance(p, int):
            raise Unsupported('bounded FPy domain needs a concrete precision parameter `p`')
        return p

    def rounding_mode(self) -> str:
        """rounding mode of the bounded ambient context (pyvc/fpyround.py): the option value, or with
        'fpy_rnd': 'param' the concrete RoundingMode member bound to the contract parameter `rm`"""
        from .fpyround import mode_name
        opt = self.ex.current.opts.get('fpy_rnd')
        if opt != 'param':
            return mode_name(opt)
        rm = self.bound.get('rm') if hasattr(self, 'bound') else None
        if rm is None or not isinstance(getattr(rm, 'idx', None), int):
            raise Unsupported("'fpy_rnd': 'param' needs a concrete RoundingMode parameter `rm` (list it in `split`)")
        return mode_name(self.index.enum_members(rm.cls)[rm.idx][0])

    def ctx_of(self, v) -> CtxV:
        """dialect context denoted by a contract-level context value"""
        if isinstance(v, CtxV):
            return v
        if isinstance(v, Opaque) and 'FpyCtx' in v.tag:
            return AMBIENT
        raise InterpError(f'not an FPy context: {v!r}')

    def fpy_round(self, ctx: CtxV, v):
        """rnd(ctx, v) for an exact value v"""
        if isinstance(v, bool) or is_sym_bool(v):
            raise SymRaise(mk_exc('TypeError'), 'rounding a boolean')
        if ctx.kind == 'REAL':
            return v
        if ctx.kind == 'INTEGER':
            if isinstance(v, (int, Fraction)):
                q = Fraction(v)
                t = abs(q.numerator) // q.denominator
                return Fraction(-t if q < 0 else t)
            if isinstance(v, FixV):
                raise Unsupported('symbolic rounding under INTEGER in the bounded domain')
            x = as_z3real(v)
            return simp(z3.If(x >= 0, z3.ToReal(z3.ToInt(x)), -z3.ToReal(z3.ToInt(-x))))
        # ambient context
        if self.bounded:
            p = self.precision()
            mode = self.rounding_mode()
            if mode != 'RNE' or self.ex.current.opts.get('fpy_rnd') == 'param':
                from .fpyround import rnd_fix, rnd_frac
                if isinstance(v, (int, Fraction)):
                    return rnd_frac(Fraction(v), p, mode)
                return rnd_fix(to_fix(v), p, mode)
            if isinstance(v, (int, Fraction)):
                return rne_frac(Fraction(v), p)
            return rne_fix(to_fix(v), p)
        return fpy_rnd(z3.Int('fpy_ctx'), as_z3real(v))

    # ------------------------------------------------------- exact arithmetic
    def xop(self, op, a, b):
        """exact real arithmetic on dialect values"""
        if isinstance(a, FixV) or isinstance(b, FixV):
            if op in (ast.Add, ast.Sub):
                fa, fb = fix_align(to_fix(a), to_fix(b))
                return FixV(fa.bv + fb.bv if op is ast.Add else fa.bv - fb.bv, fa.scale, max(fa.bits, fb.bits) + 1)
            if op is ast.Mult:
                fa, fb = to_fix(a), to_fix(b)
                return FixV(fa.bv * fb.bv, fa.scale + fb.scale, fa.bits + fb.bits)
            raise Unsupported(f'{op.__name__} in the bounded FPy domain')
        if isinstance(a, (int, Fraction)) and isinstance(b, (int, Fraction)) and not isinstance(a, bool) and not isinstance(b, bool):
            a, b = Fraction(a), Fraction(b)
            if op is ast.Add:
                return a + b
            if op is ast.Sub:
                return a - b
            if op is ast.Mult:
                return a * b
            if op is ast.Div:
                if b == 0:
                    raise Unsupported('division by zero in FPy (infinite result)')
                return a / b
            if op is ast.Pow:
                if b.denominator != 1:
                    raise Unsupported('non-integer power')
                return a ** int(b)
        x, y = as_z3real(a), as_z3real(b)
        if op is ast.Add:
            return simp(x + y)
        if op is ast.Sub:
            return simp(x - y)
        if op is ast.Mult:
            return simp(x * y)
        if op is ast.Div:
            if self.branch(simp(y == 0), 'fpy div0'):
                raise Unsupported('division by zero in FPy (infinite result)')
            return simp(x / y)
        if op is ast.Pow:
            return fpy_pow(x, y)
        raise Unsupported(f'FPy operator {op.__name__}')

    def xneg(self, a):
        if isinstance(a, FixV):
            return FixV(-a.bv, a.scale, a.bits)
        if isinstance(a, (int, Fraction)):
            return -Fraction(a)
        return simp(-as_z3real(a))

    def xabs(self, a):
        if isinstance(a, FixV):
            return abs(a)
        if isinstance(a, (int, Fraction)):
            return abs(Fraction(a))
        x = as_z3real(a)
        return simp(z3.If(x >= 0, x, -x))

    def xcmp(self, op, a, b):
        if isinstance(a, FixV) or isinstance(b, FixV):
            fa, fb = fix_align(to_fix(a), to_fix(b))
            x, y = fa.bv, fb.bv
        elif isinstance(a, (int, Fraction)) and isinstance(b, (int, Fraction)):
            x, y = Fraction(a), Fraction(b)
        else:
            x, y = as_z3real(a), as_z3real(b)
        r = {ast.Lt: lambda: x < y, ast.LtE: lambda: x <= y, ast.Gt: lambda: x > y, ast.GtE: lambda: x >= y,
             ast.Eq: lambda: x == y, ast.NotEq: lambda: x != y}[op]()
        return r if isinstance(r, bool) else simp(r)

    # ------------------------------------------ python-mode hooks for FixV values
    def binop(self, op, a, b, node=None):
        if isinstance(a, FixV) or isinstance(b, FixV):
            return self.xop(op, a, b)
        return super().binop(op, a, b, node)

    def compare(self, op, a, b):
        if (isinstance(a, FixV) or isinstance(b, FixV)) and op in (ast.Lt, ast.LtE, ast.Gt, ast.GtE):
            return self.xcmp(op, a, b)
        return super().compare(op, a, b)

    def equal(self, a, b):
        if isinstance(a, FixV) or isinstance(b, FixV):
            if not (is_num(a) and is_num(b)):
                return False
            return self.xcmp(ast.Eq, a, b)
        return super().equal(a, b)

    def ite_value(self, cond, a, b):
        if isinstance(a, FixV) or isinstance(b, FixV):
            if not (is_num(a) and is_num(b)):
                raise MergeAbort()
            fa, fb = fix_align(to_fix(a), to_fix(b))
            return FixV(z3.If(cond, fa.bv, fb.bv), fa.scale, max(fa.bits, fb.bits))
        return super().ite_value(cond, a, b)

    def truthy(self, v):
        if isinstance(v, FixV):
            return simp(v.bv != 0)
        return super().truthy(v)

    # ---------------------------------------------------------------- inputs
    def fresh(self, typ, name: str):
        if self.bounded and typ[0] == 'int' and name in self._operand_names():
            v = z3.BitVec(name, W)
            self.entry_exprs[name] = v
            return FixV(v, 0, 8)          # |m| < 2^p <= 2^8, |e| <= E < 2^8 (enforced by the contract's pre)
        return super().fresh(typ, name)

    def _operand_names(self):
        c = self.ex.current
        out = set()
        for pair in (c.opts.get('fpy_operands') or {}).values():
            out.update(pair)
        return out

    def fpy_operand(self, m, e):
        """m * 2^e as a dialect value"""
        if isinstance(m, FixV) and isinstance(e, FixV):
            E = self.E
            p = self.precision()
            return FixV(m.bv << (e.bv + _bvc(E)), E, p + 2 * E)
        if isinstance(m, int) and isinstance(e, int):
            return Fraction(m) * Fraction(2) ** e
        raise Unsupported('fpy_operand on non-operand values')

    # ----------------------------------------------------------------- calls
    def call_function(self, f: FuncV, args, kwargs, is_init=False, force_inline=False):
        info = f.info
        if is_fpy_function(info):
            return self.call_fpy(info, list(args), dict(kwargs))
        if self.fpy_mode and is_fpy_primitive(info):
            return self.call_primitive(info, list(args), dict(kwargs))
        if self.fpy_mode:
            # ordinary Python called from FPy code is outside the dialect
            raise Unsupported(f'FPy code calls the Python function {info.qualname}')
        return super().call_function(f, args, kwargs, is_init=is_init, force_inline=force_inline)

    def _decl_ctx(self, info):
        for d in info.node.decorator_list:
            if isinstance(d, ast.Call):
                for kw in d.keywords:
                    if kw.arg == 'ctx':
                        return self._ctx_expr(kw.value)
        return None

    def _ctx_expr(self, node) -> CtxV:
        nm = node.attr if isinstance(node, ast.Attribute) else getattr(node, 'id', None)
        if nm == 'REAL':
            return REAL
        if nm == 'INTEGER':
            return INTEGER
        raise Unsupported(f'FPy context expression {ast.unparse(node)}')

    def call_fpy(self, info, args, kwargs):
        names = [a.arg for a in info.node.args.args]
        top = not self.fpy_mode
        if top:
            # entry from the engine: the ambient context is the contract parameter `ctx`;
            # operands given as (m, e) pairs are assembled here
            ctx = self.ctx_of(self.bound['ctx']) if 'ctx' in self.bound else AMBIENT
            pairs = self.ex.current.opts.get('fpy_operands') or {}
            for n in names[len(args):]:
                if n not in kwargs and n in pairs:
                    m, e = pairs[n]
                    kwargs[n] = self.fpy_operand(self.bound[m], self.bound[e])
        else:
            ctx = self.fpy_ctx[-1]
        dctx = self._decl_ctx(info)
        if dctx is not None:
            ctx = dctx
        self.depth += 1
        if self.depth > self.ex.max_depth:
            raise Unsupported(f'call depth exceeded at {info.qualname}')
        self.inlined.add(info.qualname)
        fr = Frame(info.module, info, None)
        self.new_dict(fr.locals)
        self.bind_args(info.node.args, args, kwargs, fr, info.qualname)
        self.fpy_ctx.append(ctx)
        try:
            try:
                self.exec_block(info.node.body, fr)
            except _Return as r:
                return r.value
            return None
        finally:
            self.fpy_ctx.pop()
            self.depth -= 1

    def call_primitive(self, info, args, kwargs):
        """models of the Python primitives that FPy library code calls (finite values only)"""
        ctx = self.fpy_ctx[-1]
        nm = info.name
        if nm == 'max_p':
            # core.max_p: ctx.round_params()[0], ValueError if the AMBIENT-at-the-call context has no precision
            if ctx.kind in ('REAL', 'INTEGER'):
                raise SymRaise(mk_exc('ValueError'), f'max_p under {ctx.kind}: no maximum precision')
            if not self.bounded:
                raise Unsupported('max_p of an arbitrary context')
            return Fraction(self.precision())
        if nm == 'modf':
            (x,) = args
            if isinstance(x, (int, Fraction)):
                q = Fraction(x)
                t = abs(q.numerator) // q.denominator
                ip = Fraction(-t if q < 0 else t)
                return (self.fpy_round(ctx, ip), self.fpy_round(ctx, q - ip))
            if isinstance(x, FixV):
                raise Unsupported('modf in the bounded domain')
            xr = as_z3real(x)
            ip = simp(z3.If(xr >= 0, z3.ToReal(z3.ToInt(xr)), -z3.ToReal(z3.ToInt(-xr))))
            if ctx.kind != 'REAL':
                raise Unsupported('modf under a rounding context (exact=True may raise)')
            return (ip, simp(xr - ip))
        raise Unsupported(f'FPy primitive {info.qualname} has no dialect model')

    # ------------------------------------------------------------ expressions
    def ev_Constant(self, node, fr):
        if self.fpy_mode and isinstance(node.value, float):
            raise Unsupported('decimal literal in FPy code (exact value is the source spelling)')
        return super().ev_Constant(node, fr)

    def ev_BinOp(self, node, fr):
        if not self.fpy_mode:
            return super().ev_BinOp(node, fr)
        a = self.ev(node.left, fr)
        b = self.ev(node.right, fr)
        return self.fpy_round(self.fpy_ctx[-1], self.xop(type(node.op), a, b))

    def ev_UnaryOp(self, node, fr):
        if not self.fpy_mode or isinstance(node.op, ast.Not):
            return super().ev_UnaryOp(node, fr)
        v = self.ev(node.operand, fr)
        if isinstance(node.op, ast.USub):
            if isinstance(node.operand, ast.Constant):
                return self.xneg(v)          # a negative literal
            return self.fpy_round(self.fpy_ctx[-1], self.xneg(v))
        if isinstance(node.op, ast.UAdd):
            return v
        raise Unsupported('FPy unary operator')

    def ev_Compare(self, node, fr):
        if not self.fpy_mode:
            return super().ev_Compare(node, fr)
        left = self.ev(node.left, fr)
        result = True
        for op, rn in zip(node.ops, node.comparators):
            right = self.ev(rn, fr)
            if is_num(left) and is_num(right):
                r = self.xcmp(type(op), left, right)
            else:
                r = self.compare(type(op), left, right)
            if r is False or result is False:
                result = False
            elif result is True:
                result = r
            elif r is not True:
                result = simp(z3.And(as_z3bool(result), as_z3bool(r)))
            left = right
        return result

    _FP_ROUNDED1 = {'round': lambda self, x: x, 'fabs': lambda self, x: self.xabs(x), 'neg': lambda self, x: self.xneg(x)}

    def ev_Call(self, node, fr):
        if not self.fpy_mode:
            return super().ev_Call(node, fr)
        f = node.func
        ctx = self.fpy_ctx[-1]
        args = [self.ev(a, fr) for a in node.args]
        if node.keywords:
            raise Unsupported('keyword arguments in FPy call')
        mod, name = None, None
        if isinstance(f, ast.Name):
            name = f.id
        elif isinstance(f, ast.Attribute) and isinstance(f.value, ast.Name):
            mod, name = f.value.id, f.attr
        else:
            raise Unsupported(f'FPy call {ast.unparse(f)}')
        if mod in ('fp', None) and self._is_builtin_op(mod, name, fr):
            return self.fpy_builtin(ctx, name, args)
        # a library function: same module, or `core.`/`eft.` sibling module
        if mod is None:
            target_mod = fr.module.name
        else:
            r = self.index.lookup(fr.module.name, mod)
            if not r or r[0] != 'module':
                raise Unsupported(f'FPy call through {mod}')
            target_mod = r[1]
        r = self.index.lookup(target_mod, name)
        if not r or r[0] != 'function':
            raise Unsupported(f'FPy call of {target_mod}.{name}')
        return self.call_function(FuncV(r[1]), args, {})

    def _is_builtin_op(self, mod, name, fr):
        if mod == 'fp':
            return True
        if name in ('abs', 'min', 'max', 'len', 'range', 'round'):
            return fr.module.functions.get(name) is None
        return False

    def fpy_builtin(self, ctx, name, args):
        R = lambda v: self.fpy_round(ctx, v)
        if name == 'round' and len(args) == 1:
            return R(args[0])
        if name in ('abs', 'fabs') and len(args) == 1:
            return R(self.xabs(args[0]))
        if name == 'neg' and len(args) == 1:
            return R(self.xneg(args[0]))
        if name == 'fma' and len(args) == 3:
            return R(self.xop(ast.Add, self.xop(ast.Mult, args[0], args[1]), args[2]))
        if name in ('add', 'sub', 'mul', 'div', 'pow') and len(args) == 2:
            op = {'add': ast.Add, 'sub': ast.Sub, 'mul': ast.Mult, 'div': ast.Div, 'pow': ast.Pow}[name]
            return R(self.xop(op, args[0], args[1]))
        if name in ('isnan', 'isinf') and len(args) == 1:
            return False                    # finite values only (precondition of every dialect contract)
        if name == 'isfinite' and len(args) == 1:
            return True
        if name in ('ceil', 'floor', 'trunc') and len(args) == 1:
            v = args[0]
            if isinstance(v, (int, Fraction)):
                q = Fraction(v)
                fl = q.numerator // q.denominator
                if name == 'floor':
                    r = fl
                elif name == 'ceil':
                    r = fl if q == fl else fl + 1
                else:
                    r = fl if q >= 0 or q == fl else fl + 1
                return R(Fraction(r))
            raise Unsupported(f'symbolic fp.{name}')
        raise Unsupported(f'FPy builtin fp.{name}/{len(args)}')

    # -------------------------------------------------------------- statements
    def ex_With(self, st, fr):
        if not self.fpy_mode:
            return super().ex_With(st, fr)
        if len(st.items) != 1 or st.items[0].optional_vars is not None:
            raise Unsupported('FPy with-statement form')
        ctx = self._ctx_expr(st.items[0].context_expr)
        self.fpy_ctx.append(ctx)
        try:
            self.exec_block(st.body, fr)
        finally:
            self.fpy_ctx.pop()

    def ex_For(self, st, fr):
        if self.fpy_mode:
            raise Unsupported('loops in FPy code')
        return super().ex_For(st, fr)

    def ex_While(self, st, fr):
        if self.fpy_mode:
            raise Unsupported('loops in FPy code')
        return super().ex_While(st, fr)
