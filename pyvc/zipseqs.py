"""
Multi-target iteration over symbolic key sequences (C15 extension: expression visitors).

  zip(a, b)           of two `KeySeq`s: `SymZip`.  `for x, y in zip(a, b)` runs min(len a, len b) times with
                      x = a[i], y = b[i]  (exact Python semantics of zip without strict=).
  PairSeq[K]          type string for a field of type `tuple[tuple[str, K], ...]` (Call.kwargs): a `SymKeySeq`
                      (`SymPairSeq`) whose element i is the pair (opaque str, key i).  `for name, v in seq` binds
                      name to an opaque string and v to the key.  Spec side: `pair_snd_at(seq, i)` (the key of
                      pair i), `seq_len(seq)`.

Both are consumed only by the loop rule of containers.py (lines marked `# zipseqs`): the rule runs on the
*carrier* key sequence (first component / the keys) and `bind` binds the remaining loop targets for index i.
"""
from __future__ import annotations

import ast

import z3

from .containers import SymKey, SymKeySeq, SymSet
from .values import Opaque, Unsupported


class SymPairSeq(SymKeySeq):
    __slots__ = ()

    def clone(self):
        return self

    def __repr__(self):
        return f'<sympairseq {self.name}: (str, {self.kname})>'


class SymZip:
    __slots__ = ('a', 'b')

    def __init__(self, a, b):
        self.a = a
        self.b = b

    def __repr__(self):
        return f'<symzip {self.a!r} {self.b!r}>'


MULTI = (SymZip, SymPairSeq)


def make_zip(its):
    """zip(...) over symbolic key sequences, or None (not ours)"""
    if len(its) == 2 and all(isinstance(i, SymKeySeq) and not isinstance(i, SymPairSeq) for i in its):
        return SymZip(its[0], its[1])
    if any(isinstance(i, (SymKeySeq, SymZip)) for i in its):
        raise Unsupported('zip over symbolic sequences: only zip(KeySeq, KeySeq)')
    return None


def carrier(it):
    """the key sequence the loop rule runs over"""
    if isinstance(it, SymZip):
        la, lb = it.a.length, it.b.length
        n = la if la is lb else z3.If(la <= lb, la, lb)
        return SymKeySeq(it.a.at, n, it.a.kname, it.a.name)
    return SymKeySeq(it.at, it.length, it.kname, it.name)


def split_targets(it, targets):
    """(name bound to the carrier element, [other target names]) for the flattened loop targets"""
    if len(targets) != 2 or not all(isinstance(t, ast.Name) for t in targets):
        raise Unsupported('loop rule: zip / pair sequence needs the target `x, y`')
    if isinstance(it, SymZip):
        return targets[0], [targets[1].id]
    return targets[1], [targets[0].id]          # pairs: the key is the SECOND component


def bind(P, fr, it, others, i):
    """bind the remaining loop targets for index i"""
    if isinstance(it, SymZip):
        fr.locals[others[0]] = SymKey(it.b.at(i), it.b.kname)
    else:
        fr.locals[others[0]] = Opaque(f'{it.name}[{i}][0]:str')


def pair_snd_at(P, seq, i):
    from . import containers
    if isinstance(seq, SymPairSeq):
        return containers.seq_at(P, seq, i)
    if isinstance(seq, (tuple, list)) and isinstance(i, int):
        return seq[i][1] if 0 <= i < len(seq) else None
    raise Unsupported(f'pair_snd_at on {seq!r}')


class SymBag(SymSet):
    """An initially empty local LIST that the target only appends keys to and tests for emptiness
    (`unreachable: list[Stmt] = []` ... `.append(stmt)` ... `if unreachable:`), abstracted by its element SET
    (contract option local_types = {'unreachable': 'set[Stmt]'}).  Exact for `append` and truthiness: a list
    built by appends is non-empty iff its element set is.  Order / multiplicity are not modelled: any other use
    (indexing, len, iteration) is UNSUPPORTED, except inside the construction of an exception message."""
    __slots__ = ()

    def clone(self):
        return SymBag(self.member, self.kname, self.name)

    def __repr__(self):
        return f'<symbag {self.name or hex(id(self))}: {self.kname}>'


def empty_bag(P, typ):
    from . import containers
    b = SymBag(lambda x: z3.BoolVal(False), typ[1])
    containers._register_fresh(P, b)
    return b
