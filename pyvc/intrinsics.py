"""
Intrinsics: builtins, the few stdlib functions the verified code uses, and the
`speclib` vocabulary of contract/spec files.  Each is an exact encoding of the
Python semantics for the value kinds the engine models; anything else is
Unsupported (never approximated).
"""
from __future__ import annotations

import math
from fractions import Fraction

import z3

from . import seqs, theory
from . import containers   # containers
from .values import (BoundBuiltin, ClassV, EnumV, ExcV, ExtV, FlagV, FuncV, InterpError, LambdaV,
                     ModV, Opaque, SObj, SymFloat, Unsupported, as_int, as_z3bool, as_z3int,
                     as_z3real, is_boollike, is_fraclike, is_intlike, is_sym_bool, is_sym_int,
                     is_sym_real, is_z3, simp)

_MUTATORS = {'append', 'extend', 'pop', 'setdefault', 'update', 'add', 'remove', 'discard', 'clear', 'insert', 'sort', 'reverse'}
FP64_M = 52
FP64_EONES = 0x7ff


PYHASH = z3.Function('pyhash', z3.RealSort(), z3.IntSort())
PYHASH_INF = 314159      # sys.hash_info.inf (CPython: _PyHASH_INF)


class PackedDouble:
    """the bytes object struct.pack('d', x) of a float with (possibly symbolic) bit pattern `bits`"""
    __slots__ = ('bits',)

    def __init__(self, bits):
        self.bits = bits


class Intrinsics:
    def __init__(self, ex):
        self.ex = ex

    # ------------------------------------------------------------ isinstance
    def isinstance(self, P, v, t) -> bool:
        if isinstance(v, seqs.KINDS):
            return seqs.isinstance_hook(P, v, t)
        if isinstance(t, tuple):
            rs = [self.isinstance(P, v, x) for x in t]
            if any(r is True for r in rs):
                return True
            sym = [r for r in rs if r is not False]   # absnodes: symbolic class tests
            return simp(z3.Or([as_z3bool(r) for r in sym])) if sym else False
        if t is None:
            return v is None
        if isinstance(t, ClassV):
            ci = t.info
            if isinstance(v, containers.SymKey):   # containers / absnodes: the key's class may be symbolic
                from . import absnodes
                return absnodes.key_isinstance(P, v, ci)
            if isinstance(v, SObj):
                return P.index.is_subclass(v.cls, ci)
            if isinstance(v, (EnumV, FlagV)):
                return P.index.is_subclass(v.cls, ci)
            if isinstance(v, ExcV):
                return v.name == ci.name or ci.name in v.bases
            return False
        if isinstance(t, ExtV):
            n = t.name
            short = n.split('.')[-1]
            if isinstance(v, SObj) and v.cls is not None and n in P.index.external_bases(v.cls):
                return True       # stand-in class deriving from the external class (e.g. spec.c06.PyUSub(ast.USub))
            if type(v).__name__ == 'FreeCons':
                return v.name == n
            if n in ('builtins.int',):
                return is_intlike(v) or (isinstance(v, EnumV) and self._is_intenum(P, v))
            if n == 'builtins.bool':
                return is_boollike(v)
            if n == 'builtins.float':
                return isinstance(v, (float, SymFloat))
            if n == 'builtins.str':
                return isinstance(v, str) or type(v).__name__ == 'SymStr'
            if n == 'builtins.tuple':
                return isinstance(v, tuple)
            if n == 'builtins.list':
                return isinstance(v, list)
            if n == 'builtins.dict':
                return isinstance(v, dict)
            if n == 'builtins.set':
                return isinstance(v, set)
            if n == 'builtins.object':
                return True
            if short == 'Fraction':
                return is_fraclike(v)
            if n in ('numbers.Rational',):
                return is_intlike(v) or is_fraclike(v) or self._has_ext_base(P, v, 'numbers.Rational')
            if n in ('numbers.Real', 'numbers.Number', 'numbers.Complex'):
                return is_intlike(v) or is_fraclike(v) or isinstance(v, (float, SymFloat)) \
                    or self._has_ext_base(P, v, 'numbers.')
            if n in ('numbers.Integral',):
                return is_intlike(v)
            if short in ('Random', 'Generator'):
                return isinstance(v, Opaque) and short in v.tag
            if short == 'Enum':
                return isinstance(v, (EnumV, FlagV))
            if n.startswith('builtins.') and short.endswith(('Error', 'Exception')):
                return isinstance(v, ExcV) and (v.name == short or short in v.bases)
            if short in ('Callable',):
                return isinstance(v, (FuncV, LambdaV, ClassV, ExtV, BoundBuiltin))
            if isinstance(v, Opaque):
                return short in v.tag
            if isinstance(v, (SObj, EnumV, FlagV)) or v is None or is_intlike(v) or is_fraclike(v) \
                    or isinstance(v, (str, tuple, list, dict, float)):
                return False
            raise Unsupported(f'isinstance({v!r}, {n})')
        raise Unsupported(f'isinstance against {t!r}')

    def _is_intenum(self, P, v):
        return any(e.endswith('IntEnum') or e.endswith('IntFlag') for e in P.index.external_bases(v.cls))

    def _has_ext_base(self, P, v, prefix):
        if isinstance(v, SObj):
            return any(e.startswith(prefix) for e in P.index.external_bases(v.cls))
        return False

    # ------------------------------------------------------------------ call
    def call(self, P, name: str, args, kwargs):
        short = name.split('.', 1)[1] if name.startswith('builtins.') else None
        if short is not None:
            m = getattr(self, 'b_' + short.replace('.', '_'), None)
            if m is not None:
                return m(P, *args, **kwargs)
            from .interp import BUILTIN_EXC_BASES, mk_exc
            if short in BUILTIN_EXC_BASES:
                return mk_exc(short, tuple(args))
            raise Unsupported(f'builtin {short}')
        key = name.replace('.', '_')
        m = getattr(self, 'x_' + key, None)
        if m is not None:
            return m(P, *args, **kwargs)
        if name.startswith('speclib.'):
            m = getattr(self, 's_' + name.split('.', 1)[1], None)
            if m is not None:
                return m(P, *args, **kwargs)
        hook = self.ex.external_contract(name)
        if hook is not None:
            return hook(P, args, kwargs)
        if name.startswith('ast.') and (name[4:5].isupper() or name[4:] in ('keyword', 'arg', 'arguments', 'comprehension')) and not args:
            # Python `ast` node constructor with keyword fields: an opaque free constructor
            from .strings import FreeCons
            return FreeCons(name, dict(kwargs))
        raise Unsupported(f'external call {name}')

    def call_bound(self, P, name, recv, args, kwargs):
        if name.startswith('sym') and not name.startswith('symstr.'):   # containers (symstr.* are C06 string methods)
            return containers.call_bound(P, name, recv, args, kwargs)
        if P.loop_guard is not None and name.split('.')[0] in ('list', 'dict', 'set') \
                and name.split('.')[1] in _MUTATORS:   # containers
            containers.guard_concrete(P, recv)
        key = name.replace('.', '_')
        m = getattr(self, 'm_' + key, None)
        if m is None:
            raise Unsupported(f'method {name}')
        return m(P, recv, *args, **kwargs)

    # -------------------------------------------------------------- builtins
    def b_isinstance(self, P, v, t):
        return self.isinstance(P, v, t)

    def b_issubclass(self, P, a, b):
        if isinstance(a, ClassV) and isinstance(b, ClassV):
            return P.index.is_subclass(a.info, b.info)
        raise Unsupported('issubclass')

    def b_len(self, P, v):
        if isinstance(v, (tuple, list, dict, set, str)):
            return len(v)
        if type(v).__name__ == 'SymStr':
            from . import strings
            return strings.length(P, v)
        if isinstance(v, SObj):
            return P.call_method(v, '__len__', [], {})
        if isinstance(v, seqs.KINDS):
            return seqs.seq_len(P, v)
        if isinstance(v, containers.SymSet):   # absnodes
            from . import absnodes
            return absnodes.set_len(P, v)
        if type(v).__name__ == 'AbsList':   # abslist
            from . import abslist
            return abslist.length(P, v)
        raise Unsupported(f'len of {v!r}')

    def _minmax(self, P, args, kwargs, is_min):
        import ast as _ast
        if kwargs:
            raise Unsupported('min/max with key')
        if len(args) == 1:
            args = P.iterate(args[0])
        if not args:
            from .interp import SymRaise, mk_exc
            raise SymRaise(mk_exc('ValueError'))
        cur = args[0]
        for x in args[1:]:
            if not is_z3(cur) and not is_z3(x) and not isinstance(cur, SObj) and not isinstance(x, SObj):
                c = (x < cur) if is_min else (x > cur)
                cur = x if c else cur
                continue
            c = P.compare(_ast.Lt if is_min else _ast.Gt, x, cur)
            c = P.truthy(c)
            if isinstance(c, bool):
                cur = x if c else cur
            elif is_intlike(x) and is_intlike(cur):
                cur = simp(z3.If(c, as_z3int(x), as_z3int(cur)))
            elif (is_fraclike(x) or is_intlike(x)) and (is_fraclike(cur) or is_intlike(cur)):
                cur = simp(z3.If(c, as_z3real(x), as_z3real(cur)))
            else:
                cur = x if P.branch(c, 'minmax') else cur
        return cur

    def b_min(self, P, *args, **kwargs):
        return self._minmax(P, args, kwargs, True)

    def b_max(self, P, *args, **kwargs):
        return self._minmax(P, args, kwargs, False)

    def b_abs(self, P, v):
        if isinstance(v, SObj):
            return P.call_method(v, '__abs__', [], {})
        if not is_z3(v):
            return abs(v)
        if is_fraclike(v):
            x = as_z3real(v)
        else:
            x = as_z3int(v)
        return simp(z3.If(x >= 0, x, -x))

    def b_int(self, P, v=0, base=None):
        if type(v).__name__ == 'SymStr':
            from . import strings
            return strings.to_int(P, v, 10 if base is None else base)
        if base is not None:
            if isinstance(v, str) and isinstance(base, int):
                try:
                    return int(v, base)
                except ValueError:
                    from .interp import SymRaise, mk_exc
                    raise SymRaise(mk_exc('ValueError'))
            raise Unsupported('int(str, base) symbolic')
        if isinstance(v, SObj):
            m = P.index.find_method(v.cls, '__int__')
            if m is None:
                m = P.index.find_method(v.cls, '__trunc__')
            if m is None:
                from .interp import SymRaise, mk_exc
                raise SymRaise(mk_exc('TypeError'))
            return P.call_function(FuncV(m, v), [], {})
        if is_intlike(v):
            return as_int(v)
        if isinstance(v, EnumV):
            return P.enum_value(v)
        if isinstance(v, (float, Fraction)):
            return int(v)
        if isinstance(v, str):
            try:
                return int(v)
            except ValueError:
                from .interp import SymRaise, mk_exc
                raise SymRaise(mk_exc('ValueError'))
        if isinstance(v, SymFloat):
            return self._float_int(P, v)
        if is_sym_real(v):
            # truncation toward zero
            f = z3.ToInt(v)
            return simp(z3.If(v >= 0, f, z3.If(z3.ToReal(f) == v, f, f + 1)))
        raise Unsupported(f'int({v!r})')

    def b_bool(self, P, v=False):
        return P.truthy(v)

    def b_float(self, P, v=0.0):
        if isinstance(v, (int, float, str, Fraction)) and not isinstance(v, bool):
            try:
                return float(v)
            except (ValueError, OverflowError) as e:
                from .interp import SymRaise, mk_exc
                raise SymRaise(mk_exc(type(e).__name__))
        if isinstance(v, SObj):
            return P.call_method(v, '__float__', [], {})
        if isinstance(v, SymFloat):
            return v
        if is_sym_int(v):
            return self._int_to_float(P, v)
        raise Unsupported(f'float({v!r})')

    def _int_to_float(self, P, i):
        """float(int) for a symbolic int: the binary64 nearest to i (ties to even), OverflowError when that is not finite.
        The result is a fresh bit pattern constrained by the rounding relation (for a power-of-two result the relation
        admits the true value; it is an over-approximation only in which of two adjacent candidates is taken)."""
        from .interp import SymRaise, mk_exc
        if P.branch(simp(i == 0), 'float(int): zero'):
            return SymFloat(z3.IntVal(0))
        mag = z3.If(i < 0, -i, i)
        # 2^1024 - 2^970 is the midpoint between the largest double and 2^1024: it rounds (to even) out of range
        if P.branch(simp(mag >= (1 << 1024) - (1 << 970)), 'float(int): overflow'):
            raise SymRaise(mk_exc('OverflowError'), 'int too large to convert to float')
        b = z3.Int(P.fresh_name('i2f'))
        r = SymFloat(b)
        sg, E, c, exp = self._fdecode(r)
        P.assume(z3.And(b >= 0, b < (1 << 64), sg == z3.If(i < 0, 1, 0), E >= 1023, E <= 2046), fact=True)
        if P.branch(simp(exp <= 0), 'float(int): exact'):
            P.assume(mag * theory.pow2(-exp) == c, fact=True)
        else:
            q = c * theory.pow2(exp)
            h = theory.pow2(exp - 1)
            d = mag - q
            P.assume(z3.And(d <= h, -d <= h,
                            z3.Implies(z3.Or(d == h, -d == h), c % 2 == 0),
                            # below a power of two the spacing halves
                            z3.Implies(c == (1 << 52), -4 * d <= theory.pow2(exp))), fact=True)
        return r

    def b_str(self, P, v=''):
        if isinstance(v, str):
            return v
        if isinstance(v, SymFloat):
            return self._float_str(P, v)
        if isinstance(v, float):
            return str(v)
        if isinstance(v, int) and not is_z3(v):
            return str(v)
        c = self.ex.current
        if isinstance(v, containers.SymKey) and c is not None and c.opts.get('key_text'):
            # contract option key_text: text of an abstract identifier: an uninterpreted function of the key (C04 `with` emission)
            return self.s_ghost(P, 'idtext', v)
        return Opaque('str')

    def b_repr(self, P, v):
        return Opaque('repr')

    def b_print(self, P, *a, **k):
        return None

    def b_id(self, P, v):
        return id(v)

    def b_range(self, P, *args):
        if any(is_z3(a) for a in args):
            if len(args) > 2 or not all(is_intlike(a) for a in args):
                raise Unsupported('symbolic range with a step')
            return seqs.SymRange(0, as_int(args[0])) if len(args) == 1 else seqs.SymRange(as_int(args[0]), as_int(args[1]))
        return range(*args)

    def b_enumerate(self, P, it, start=0):
        from . import mapseq   # mapseq (C19x)
        r = mapseq.enumerate_seq(P, it, start)
        if r is not seqs.NOT_HANDLED:
            return r
        return [(i + start, x) for i, x in enumerate(P.iterate(it))]

    def b_zip(self, P, *its, strict=False):
        from . import zipseqs   # zipseqs: zip of symbolic key sequences
        z = zipseqs.make_zip(its) if not strict else None
        if z is not None:
            return z
        ls = [P.iterate(i) for i in its]
        if strict and len(set(len(l) for l in ls)) > 1:
            from .interp import SymRaise, mk_exc
            raise SymRaise(mk_exc('ValueError'))
        return [tuple(t) for t in zip(*ls)]

    def b_reversed(self, P, it):
        return list(reversed(P.iterate(it)))

    def b_tuple(self, P, it=()):
        from . import mapseq   # mapseq (C19x)
        r = mapseq.copy_seq(P, it, 'tuple')
        if r is not seqs.NOT_HANDLED:
            return r
        return tuple(P.iterate(it))

    def b_list(self, P, it=()):
        from . import mapseq   # mapseq (C19x)
        r = mapseq.copy_seq(P, it, 'list')
        if r is not seqs.NOT_HANDLED:
            return r
        return list(P.iterate(it))

    def b_set(self, P, it=()):
        return set(P.hashable(x) for x in P.iterate(it))

    def b_frozenset(self, P, it=()):
        return frozenset(P.hashable(x) for x in P.iterate(it))

    def b_dict(self, P, it=(), **kw):
        d = {}
        if isinstance(it, dict):
            d.update(it)
        else:
            for k, v in P.iterate(it):
                d[P.hashable(k)] = v
        d.update(kw)
        return d

    def b_sorted(self, P, it, key=None, reverse=False):
        items = P.iterate(it)
        if any(is_z3(x) for x in items) or key is not None:
            raise Unsupported('sorted on symbolic / with key')
        return sorted(items, reverse=reverse)

    def b_sum(self, P, it, start=0):
        import ast as _ast
        acc = start
        for x in P.iterate(it):
            acc = P.binop(_ast.Add, acc, x)
        return acc

    def b_all(self, P, it):
        if type(it).__name__ == 'SymSetImage':   # absnodes
            from . import absnodes
            return absnodes.all_image(P, it)
        rs = [P.truthy(x) for x in P.iterate(it)]
        if any(r is False for r in rs):
            return False
        rs = [as_z3bool(r) for r in rs if r is not True]
        return simp(z3.And(rs)) if rs else True

    def b_any(self, P, it):
        if type(it).__name__ == 'SymSetImage':   # absnodes
            from . import absnodes
            return absnodes.any_image(P, it)
        rs = [P.truthy(x) for x in P.iterate(it)]
        if any(r is True for r in rs):
            return True
        rs = [as_z3bool(r) for r in rs if r is not False]
        return simp(z3.Or(rs)) if rs else False

    def b_hash(self, P, v):
        if isinstance(v, SObj):
            return P.call_method(v, '__hash__', [], {})
        return self.ex.hash_model(P, v)

    def b_type(self, P, v):
        if isinstance(v, SObj):
            return ClassV(v.cls)
        if isinstance(v, (EnumV, FlagV)):
            return ClassV(v.cls)
        if is_boollike(v):
            return ExtV('builtins.bool')
        if is_intlike(v):
            return ExtV('builtins.int')
        if is_fraclike(v):
            return ExtV('fractions.Fraction')
        if isinstance(v, (float, SymFloat)):
            return ExtV('builtins.float')
        if v is None:
            return ExtV('builtins.NoneType')
        return ExtV(f'builtins.{type(v).__name__}')

    def b_divmod(self, P, a, b):
        import ast as _ast
        return (P.binop(_ast.FloorDiv, a, b), P.binop(_ast.Mod, a, b))

    def b_pow(self, P, a, b, m=None):
        import ast as _ast
        if m is not None:
            raise Unsupported('3-arg pow')
        return P.binop(_ast.Pow, a, b)

    def b_round(self, P, v, nd=None):
        if isinstance(v, SObj):
            return P.call_method(v, '__round__', [] if nd is None else [nd], {})
        if not is_z3(v):
            return round(v) if nd is None else round(v, nd)
        raise Unsupported('round symbolic')

    def b_callable(self, P, v):
        return isinstance(v, (FuncV, LambdaV, ClassV, ExtV, BoundBuiltin))

    def b_getattr(self, P, obj, name, default=None, *rest):
        from .interp import SymRaise
        if not isinstance(name, str):
            raise Unsupported('getattr with symbolic name')
        try:
            return P.getattr(obj, name)
        except SymRaise as e:
            if e.exc.name == 'AttributeError':
                return default
            raise

    def b_hasattr(self, P, obj, name):
        from .interp import SymRaise
        try:
            P.getattr(obj, name)
            return True
        except SymRaise as e:
            if e.exc.name == 'AttributeError':
                return False
            raise

    def b_object(self, P):
        return SObj(None, {})

    # ---------------------------------------------------------------- stdlib
    def x_fractions_Fraction(self, P, num=0, den=None):
        from .interp import SymRaise, mk_exc
        if den is None:
            if isinstance(num, SObj):
                # Fraction(x) for a numbers.Rational: x.numerator / x.denominator
                n = P.getattr(num, 'numerator')
                d = P.getattr(num, 'denominator')
                return self.x_fractions_Fraction(P, n, d)
            if is_fraclike(num):
                return num
            if isinstance(num, SymFloat):   # absnodes (C07): exact value of a binary64
                from . import absnodes
                return absnodes.fraction_of_float(P, num)
            if isinstance(num, (str, float)):
                try:
                    return Fraction(num)
                except (ValueError, ZeroDivisionError) as e:
                    raise SymRaise(mk_exc(type(e).__name__))
            if isinstance(num, int) and not is_z3(num):
                return Fraction(int(num))
            if is_intlike(num):
                return z3.ToReal(as_z3int(num))
            raise Unsupported(f'Fraction({num!r})')
        if not is_z3(num) and not is_z3(den) and isinstance(num, (int, Fraction)) and isinstance(den, (int, Fraction)):
            if den == 0:
                raise SymRaise(mk_exc('ZeroDivisionError'))
            return Fraction(num, den)
        n = as_z3real(num)
        d = as_z3real(den)
        if P.branch(simp(d == 0), 'Fraction den==0'):
            raise SymRaise(mk_exc('ZeroDivisionError'))
        return simp(n / d)

    def x_math_isnan(self, P, v):
        if isinstance(v, (float, int)) and not is_z3(v):
            return math.isnan(v)
        if isinstance(v, SymFloat):
            e = (v.bits / (1 << 52)) % 2048
            m = v.bits % (1 << 52)
            return simp(z3.And(e == 2047, m != 0))
        if is_intlike(v):
            return False
        raise Unsupported('math.isnan')

    def x_math_isinf(self, P, v):
        if isinstance(v, (float, int)) and not is_z3(v):
            return math.isinf(v)
        if isinstance(v, SymFloat):
            e = (v.bits / (1 << 52)) % 2048
            m = v.bits % (1 << 52)
            return simp(z3.And(e == 2047, m == 0))
        if is_intlike(v):
            return False
        raise Unsupported('math.isinf')

    def x_math_isfinite(self, P, v):
        if isinstance(v, (float, int)) and not is_z3(v):
            return math.isfinite(v)
        if isinstance(v, SymFloat):
            e = (v.bits / (1 << 52)) % 2048
            return simp(e != 2047)
        raise Unsupported('math.isfinite')

    def x_math_copysign(self, P, a, b):
        if isinstance(a, (float, int)) and isinstance(b, (float, int)) and not is_z3(a) and not is_z3(b):
            return math.copysign(a, b)
        if isinstance(b, SymFloat) and isinstance(a, (float, int)) and not is_z3(a) and not math.isnan(a):
            # copysign(a, b): magnitude of the concrete a, sign bit of b (also for NaN / zero b)
            import struct as _st
            mag = int.from_bytes(_st.pack('<d', abs(float(a))), 'little')
            return SymFloat(simp(mag + (b.bits / (1 << 63)) * (1 << 63)))
        if isinstance(a, SymFloat):
            # copysign(a, b): magnitude bits of a, sign bit of b
            mag = a.bits % (1 << 63)
            if isinstance(b, SymFloat):
                return SymFloat(simp(mag + (b.bits / (1 << 63)) * (1 << 63)))
            if isinstance(b, (float, int)) and not is_z3(b):
                neg = math.copysign(1.0, float(b)) < 0
                return SymFloat(simp(mag + ((1 << 63) if neg else 0)))
        raise Unsupported('math.copysign symbolic')

    # struct.pack('@d' | '<d' | 'd' | '=d', x): the 8 bytes of the binary64 pattern (little-endian host assumed)
    def x_struct_pack(self, P, fmt, *vals):
        if fmt in ('@d', '<d', 'd', '=d') and len(vals) == 1:
            v = vals[0]
            if isinstance(v, SymFloat):
                return PackedDouble(v.bits)
            if isinstance(v, float):
                import struct as _st
                return PackedDouble(int.from_bytes(_st.pack('<d', v), 'little'))
        raise Unsupported(f'struct.pack({fmt!r}, ...)')

    def b_int_from_bytes(self, P, data, byteorder='big', signed=False):
        if isinstance(data, PackedDouble) and byteorder == 'little' and signed is False:
            return data.bits
        if isinstance(data, bytes) and isinstance(byteorder, str):
            return int.from_bytes(data, byteorder, signed=signed)
        raise Unsupported('int.from_bytes')

    # ---- symbolic binary64 helpers (exact IEEE 754 semantics on the bit pattern)
    @staticmethod
    def f_parts(v):
        """(sign, ebits, mbits) of a SymFloat / concrete float as z3 / python ints"""
        if isinstance(v, SymFloat):
            b = v.bits
        else:
            import struct as _st
            b = int.from_bytes(_st.pack('<d', float(v)), 'little')
        if isinstance(b, int):
            return (b >> 63, (b >> 52) & 2047, b & ((1 << 52) - 1))
        return (b / (1 << 63), (b / (1 << 52)) % 2048, b % (1 << 52))

    def float_compare_zero(self, P, opname, v):
        """v <op> 0 for a symbolic float v (IEEE: NaN compares false, -0.0 == 0)"""
        s_, e_, m_ = self.f_parts(v)
        nan = z3.And(e_ == 2047, m_ != 0)
        zero = z3.And(e_ == 0, m_ == 0)
        neg = s_ == 1
        if opname == 'Lt':
            r = z3.And(z3.Not(nan), z3.Not(zero), neg)
        elif opname == 'Gt':
            r = z3.And(z3.Not(nan), z3.Not(zero), z3.Not(neg))
        elif opname == 'LtE':
            r = z3.And(z3.Not(nan), z3.Or(zero, neg))
        elif opname == 'GtE':
            r = z3.And(z3.Not(nan), z3.Or(zero, z3.Not(neg)))
        elif opname == 'Eq':
            r = zero
        else:
            raise Unsupported(f'symbolic float comparison {opname}')
        return simp(r)

    _NEG_CHECKED = []

    @staticmethod
    def _neg_facts(b, nb):
        # consequences of nb == b with bit 63 flipped (proved once by _check_neg_facts)
        return [nb >= 0, nb < (1 << 64), nb / (1 << 63) == 1 - b / (1 << 63),
                (nb / (1 << 52)) % 2048 == (b / (1 << 52)) % 2048, nb % (1 << 52) == b % (1 << 52)]

    def _check_neg_facts(self):
        if self._NEG_CHECKED:
            return
        b, nb = z3.Int('b'), z3.Int('nb')
        s = z3.Solver()
        s.set('timeout', 60000)
        s.add(b >= 0, b < (1 << 64), nb == b + (1 - 2 * (b / (1 << 63))) * (1 << 63))
        s.add(z3.Not(z3.And(self._neg_facts(b, nb))))
        if s.check() != z3.unsat:
            raise InterpError('float negation lemma not proved')
        self._NEG_CHECKED.append(True)

    def float_neg(self, P, v):
        """-v for a symbolic float: the sign bit flips (also for NaN and zero); a fresh pattern with its defining facts"""
        self._check_neg_facts()
        b = v.bits
        cache = P.__dict__.setdefault('_float_negs', {})
        key = b.get_id() if is_z3(b) else b
        if key in cache:
            return cache[key][0]
        nb = z3.Int(P.fresh_name('negbits'))
        cache[key] = (SymFloat(nb), b)
        P.assume(z3.And([nb == b + (1 - 2 * (b / (1 << 63))) * (1 << 63)] + self._neg_facts(b, nb)), fact=True)
        return cache[key][0]

    def float_mul_unit(self, P, v, unit):
        """v * (+1.0 | -1.0) for a symbolic float v: exact; a NaN operand gives a NaN with unspecified sign/payload"""
        if unit not in (1.0, -1.0):
            raise Unsupported('symbolic float arithmetic')
        s_, e_, m_ = self.f_parts(v)
        nan = z3.And(e_ == 2047, m_ != 0)
        if P.branch(simp(nan), 'float*unit: nan'):
            b = z3.Int(P.fresh_name('nanbits'))
            P.assume(z3.And(b >= 0, b < (1 << 64), (b / (1 << 52)) % 2048 == 2047, b % (1 << 52) != 0), fact=True)
            return SymFloat(b)
        if unit == 1.0:
            return v
        return self.float_neg(P, v)

    def x_math_ldexp(self, P, a, b):
        if not is_z3(a) and not is_z3(b):
            return math.ldexp(a, b)
        raise Unsupported('math.ldexp symbolic')

    def x_math_gcd(self, P, a, b):
        if not is_z3(a) and not is_z3(b):
            return math.gcd(a, b)
        raise Unsupported('gcd symbolic')

    def x_typing_cast(self, P, t, v):
        return v

    def x_typing_TypeVar(self, P, *a, **k):
        return Opaque('TypeVar')

    # --------------------------------------------------------------- methods
    def m_int_bit_length(self, P, recv):
        v = as_int(recv)
        if isinstance(v, int):
            return v.bit_length()
        neg = simp(v < 0)
        if neg is not False:
            if P.branch(neg, 'bit_length arg<0'):
                return theory.bl(-v)
        return theory.bl(v)

    def m_int_is_integer(self, P, recv):
        return True

    def m_list_append(self, P, recv, x):
        if P.txns:
            from .interp import MergeAbort
            raise MergeAbort()
        recv.append(x)

    def m_list_extend(self, P, recv, xs):
        if P.txns:
            from .interp import MergeAbort
            raise MergeAbort()
        if type(xs).__name__ == 'SymSetImage' and type(xs.set).__name__ == 'SymBag':
            # zipseqs: message lines built from an append-only list (text of exception messages is not modelled;
            # the element expression -- stmt.format(), loc.format() -- is NOT evaluated)
            from .values import Opaque
            recv.append(Opaque('message-lines:str'))
            return
        recv.extend(P.iterate(xs))

    def m_list_pop(self, P, recv, i=-1):
        if P.txns:
            from .interp import MergeAbort
            raise MergeAbort()
        return recv.pop(i)

    def m_list_copy(self, P, recv):
        return list(recv)

    def m_list_index(self, P, recv, x):
        return recv.index(x)

    def m_dict_get(self, P, recv, k, default=None):
        if type(k).__name__ == 'EnumV' and not isinstance(k.idx, int):
            # c14y: a symbolic enum member as key: branch over the keys of that enum (as `d[k]` does), else the default
            for kk, vv in recv.items():
                if isinstance(kk, tuple) and kk and kk[0] == '#enum' and kk[1] == k.cls.qualname:
                    if P.branch(as_z3int(k.idx) == kk[2], f'key=={kk[2]}'):
                        return vv
            return default
        hk = P.hashable(k)
        return recv.get(hk, default)

    def m_dict_items(self, P, recv):
        return [(P.unhash(k), v) for k, v in recv.items()]

    def m_dict_keys(self, P, recv):
        return [P.unhash(k) for k in recv.keys()]

    def m_dict_values(self, P, recv):
        return list(recv.values())

    def m_dict_copy(self, P, recv):
        return dict(recv)

    def m_dict_setdefault(self, P, recv, k, d=None):
        if P.txns:
            from .interp import MergeAbort
            raise MergeAbort()
        return recv.setdefault(P.hashable(k), d)

    def m_dict_update(self, P, recv, other):
        if P.txns:
            from .interp import MergeAbort
            raise MergeAbort()
        if isinstance(other, dict):
            recv.update(other)
        else:
            for k, v in P.iterate(other):
                recv[P.hashable(k)] = v

    def m_dict_pop(self, P, recv, k, *d):
        if P.txns:
            from .interp import MergeAbort
            raise MergeAbort()
        return recv.pop(P.hashable(k), *d)

    def m_set_add(self, P, recv, x):
        if P.txns:
            from .interp import MergeAbort
            raise MergeAbort()
        recv.add(P.hashable(x))

    def m_set_copy(self, P, recv):
        return set(recv)

    def m_tuple_index(self, P, recv, x):
        return recv.index(x)

    def m_tuple_count(self, P, recv, x):
        return recv.count(x)

    def m_str_startswith(self, P, recv, x):
        return recv.startswith(x)

    def m_str_endswith(self, P, recv, x):
        return recv.endswith(x)

    def m_str_join(self, P, recv, xs):
        if isinstance(xs, seqs.SymSeq):
            return Opaque('str')        # text of a message: not modelled
        xs = P.iterate(xs)
        if all(isinstance(x, str) for x in xs):
            return recv.join(xs)
        return Opaque('str')

    def m_str_format(self, P, recv, *a, **k):
        return Opaque('str')

    def m_str_lower(self, P, recv):
        return recv.lower()

    def m_str_upper(self, P, recv):
        return recv.upper()

    def m_str_split(self, P, recv, *a):
        return recv.split(*a)

    def m_str_strip(self, P, recv, *a):
        return recv.strip(*a)

    def m_str_isdigit(self, P, recv):
        return recv.isdigit()

    def m_float_is_integer(self, P, recv):
        if isinstance(recv, float):
            return recv.is_integer()
        if isinstance(recv, SymFloat):
            # finite and no fractional bit: c * 2^exp with exp >= 0, or 2^-exp divides c
            sg, E, c, exp = self._fdecode(recv)
            return simp(z3.And(E != 2047, z3.Or(c == 0, exp >= 0, c % theory.pow2(-exp) == 0)))
        raise Unsupported('float.is_integer symbolic')

    @staticmethod
    def _fdecode(v):
        """binary64 fields of a SymFloat: (sign bit, biased exponent E, integer significand c, exponent exp) with
        |value| = c * 2^exp for E != 2047 (IEEE 754 binary64 layout)"""
        bits = v.bits
        sg = bits / (1 << 63)
        E = (bits / (1 << 52)) % 2048
        M = bits % (1 << 52)
        c = z3.If(E == 0, M, M + (1 << 52))
        exp = z3.If(E == 0, z3.IntVal(-1074), E - 1075)
        return sg, E, c, exp

    def _float_int(self, P, v):
        """int(float): truncation toward zero; ValueError for nan, OverflowError for inf"""
        from .interp import SymRaise, mk_exc
        sg, E, c, exp = self._fdecode(v)
        M = v.bits % (1 << 52)
        if P.branch(simp(E == 2047), 'float is inf/nan'):
            if P.branch(simp(M == 0), 'float is inf'):
                raise SymRaise(mk_exc('OverflowError'), 'int(inf)')
            raise SymRaise(mk_exc('ValueError'), 'int(nan)')
        if P.branch(simp(exp >= 0), 'float exp>=0'):
            mag = c * theory.pow2(exp)
        else:
            mag = c / theory.pow2(-exp)
        return simp(z3.If(sg == 1, -mag, mag))

    def _float_str(self, P, v):
        """
        str(float) / repr(float).  TRUSTED model (CPython float_repr_style 'short'): the result r is a spelling of the
        decimal literal grammar iff v is finite; it carries a minus sign iff the sign bit is set; and it round-trips,
        i.e. v is the double nearest to the number r denotes (stated as the necessary condition
        2*|den10(r) - |v|| <= 2^exp).  Which of the many such spellings repr picks (the shortest) is NOT modelled.
        """
        from . import strings
        r = strings.SymStr(None, P.fresh_name('str(float)'))
        d = strings.parse_vars(P, r, 'dec', 10)
        sg, E, c, exp = self._fdecode(v)
        P.assume(d['matches'] == (E != 2047), fact=True)
        P.assume(z3.Implies(d['matches'], z3.And((d['sign'] == 2) == (sg == 1), d['sign'] != 1,
                                                 self._near(self._mag10(d), c, exp))), fact=True)
        return r

    @staticmethod
    def _mag10(d):
        """|den10| of a decimal decomposition as a z3 real (same formula as spec/c06.py den10_of)"""
        I, F, E_ = d['I'], d['F'], d['E']
        ten = z3.IntVal(10)
        mant = z3.ToReal(I.val) + z3.ToReal(F.val) / z3.ToReal(theory.ipow(ten, F.len))
        return z3.If(d['esign'] == 2, mant / z3.ToReal(theory.ipow(ten, E_.val)), mant * z3.ToReal(theory.ipow(ten, E_.val)))

    @staticmethod
    def _near(x, c, exp):
        """necessary condition for `c * 2^exp` being the binary64 nearest to the real x >= 0: 2*|x - c*2^exp| <= 2^exp"""
        up = z3.ToReal(theory.pow2(exp))
        dn = z3.ToReal(theory.pow2(-exp))
        return z3.If(exp >= 0,
                     z3.And(2 * (x - z3.ToReal(c) * up) <= up, 2 * (z3.ToReal(c) * up - x) <= up),
                     z3.And(2 * (x * dn - z3.ToReal(c)) <= 1, 2 * (z3.ToReal(c) - x * dn) <= 1))

    def s_float_rounds_to(self, P, x, v):
        """speclib.float_rounds_to(x, v): the float v is the binary64 nearest to the rational x >= 0 (round to nearest,
        overflow to inf).  Symbolically only the NECESSARY condition |x - v| <= ulp/2 (finite v) resp. x >= 2^1023 (inf)
        is used: sound as an assumption; counterexamples are re-checked natively with the exact relation."""
        if isinstance(v, float) and not is_z3(x):
            import speclib
            return speclib.float_rounds_to(x, v)        # all concrete: the exact native relation
        if isinstance(v, float):
            v = SymFloat(z3.IntVal(int.from_bytes(__import__('struct').pack('<d', v), 'little')))
        if not isinstance(v, SymFloat):
            return False
        sg, E, c, exp = self._fdecode(v)
        M = v.bits % (1 << 52)
        xr = as_z3real(x)
        return simp(z3.And(sg == 0, z3.If(E == 2047, z3.And(M == 0, xr >= z3.RealVal(2 ** 1023)), self._near(xr, c, exp))))

    def m_float_as_integer_ratio(self, P, recv):
        if isinstance(recv, float):
            return recv.as_integer_ratio()
        raise Unsupported('as_integer_ratio symbolic')

    def m_Fraction_limit_denominator(self, P, recv, *a):
        raise Unsupported('limit_denominator')

    # --------------------------------------------------------------- speclib
    def s_pow2(self, P, k):
        k = as_int(k)
        if isinstance(k, int):
            if k < 0:
                raise InterpError('pow2 of negative constant in spec')
            return 1 << k
        return theory.pow2(k)

    def s_bl(self, P, c):
        c = as_int(c)
        if isinstance(c, int):
            return c.bit_length()
        return theory.bl(c)

    def s_ipow(self, P, b, e):
        b, e = as_int(b), as_int(e)
        if isinstance(b, int) and isinstance(e, int):
            return b ** e
        return theory.ipow(as_z3int(b), as_z3int(e))

    def _ghost_args(self, args):
        zs = []
        for a in args:
            if isinstance(a, containers.SymKey):   # containers
                zs.append(a.term)
            elif isinstance(a, SObj):   # containers: identity of a named input object
                zs.append(containers.obj_key(a))
            elif is_boollike(a):
                zs.append(as_z3bool(a))
            elif (isinstance(a, Fraction) or is_sym_real(a)) and not is_intlike(a):
                # c02x: a rational argument (Fraction) keeps its Real sort
                from .values import as_z3real
                zs.append(as_z3real(a))
            else:
                zs.append(as_z3int(a))
        return zs

    def s_ghost(self, P, name, *args):
        """uninterpreted ghost function (e.g. the next RNG draw); int / bool / key arguments -> int"""
        zs = self._ghost_args(args)
        f = z3.Function(f'ghost_{name}', *([z.sort() for z in zs] + [z3.IntSort()]))
        return f(*zs)

    def s_ghost_pred(self, P, name, *args):
        """uninterpreted ghost predicate; int / bool / key arguments -> bool"""
        zs = self._ghost_args(args)
        f = z3.Function(f'ghost_{name}', *([z.sort() for z in zs] + [z3.BoolSort()]))
        return f(*zs)

    # ufmaps (C13): key-valued ghosts and total accessors of symbolic maps
    def s_ghost_key(self, P, name, kname, *args):
        from . import ufmaps
        return ufmaps.ghost_key(P, name, kname, self._ghost_args(args))

    def s_map_at(self, P, m, k):
        from . import ufmaps
        return ufmaps.map_at(P, m, k)

    def s_rel_in(self, P, m, k):
        from . import ufmaps
        return ufmaps.rel_in(P, m, k)

    def s_rel_has(self, P, m, k, e):
        from . import ufmaps
        return ufmaps.rel_has(P, m, k, e)

    def s_forall_keys(self, P, kname, fn):
        return containers.forall_keys(P, kname, fn)

    def s_forall_ints(self, P, fn):
        return containers.forall_ints(P, fn)

    def s_seq_at(self, P, seq, i):
        return containers.seq_at(P, seq, i)

    def s_pair_snd_at(self, P, seq, i):   # zipseqs
        from . import zipseqs
        return zipseqs.pair_snd_at(P, seq, i)

    def s_seq_len(self, P, seq):
        return containers.seq_len(P, seq)

    # abslist (C14y): abstract lists
    def s_alist_len(self, P, v):
        from . import abslist
        return abslist.s_len(P, v)

    def s_alist_parts_is(self, P, v, n):
        from . import abslist
        return abslist.s_parts_is(P, v, n)

    def s_alist_same(self, P, a, b):
        from . import abslist
        return abslist.s_same(P, a, b)

    def s_alist_all(self, P, fn, v):
        from . import abslist
        return abslist.s_all(P, fn, v)

    # absnodes (C07): total accessors over abstract keys / set-valued maps
    def s_key_attr(self, P, k, attr):
        from . import absnodes
        return absnodes.key_attr(P, k, attr)

    def s_key_isa(self, P, k, cname):
        from . import absnodes
        return absnodes.key_isa(P, k, cname)

    def s_set_map_has(self, P, m, k, u):
        from . import absnodes
        return absnodes.set_map_has(P, m, k, u)

    def s_map_val(self, P, m, k):
        from . import absnodes
        return absnodes.map_val(P, m, k)
    def s_apply_lemma(self, P, name, **kw):
        """
        lemma application (as in Dafny): the lemma's precondition becomes an obligation `pre@<Lemma>[..]` of the
        caller, its postcondition an assumption.  The lemma itself is verified separately (it is a contract).
        """
        ex = self.ex
        if getattr(P, 'hints_off', 0):
            # c02x: inside the postcondition of a callee at a modular call site the lemma is a proof hint of the
            # callee's own proof (like case_split): nothing is obliged and nothing extra is assumed
            return True
        c = ex.contracts.get(name)
        if c is None or c.kind != 'lemma':
            raise InterpError(f'apply_lemma: no lemma named {name}')
        if ex.current is not None and ex.current.name == name:
            raise InterpError('apply_lemma: a lemma may not apply itself')
        missing = [q for q in c.params if q not in kw]
        if missing:
            raise InterpError(f'apply_lemma({name}): missing arguments {missing}')
        bound = {q: kw[q] for q in c.params}
        if c.pre is not None:
            for k, cond in ex._call_spec(P, c.pre, bound).items():
                cond = P.truthy(cond)
                P.oblige(f'pre@{name}[{k}]', 'pre', cond)
                P.assume(cond, fact=True)
        if c.post is not None:
            P.hints_off = getattr(P, 'hints_off', 0) + 1      # case_split hints are for the lemma's own proof
            try:
                clauses = ex._call_spec(P, c.post, bound)
            finally:
                P.hints_off -= 1
            for k, cond in clauses.items():
                P.assume(P.truthy(cond), fact=True)
        P.modular.add(name)
        return True

    def s_obj_id(self, P, o):
        """identity of an object as an integer (names ghost values attached to an abstract object)"""
        return id(o)

    def s_ambient(self, P):
        """innermost active `with` model object (None outside any `with`)"""
        st = getattr(P, 'with_stack', None)
        return st[-1] if st else None

    def s_callable_name(self, P, f):
        """dotted name of an external callable / qualified name of a repository function, else None"""
        if isinstance(f, ExtV):
            return f.name
        if isinstance(f, FuncV) and f.self_obj is None:
            return f.info.qualname
        return None

    # FPy dialect vocabulary (pyvc/fpydialect.py)
    def _fpy(self, P):
        if not hasattr(P, 'fpy_round'):
            raise InterpError("fpy_* spec functions need a contract with options = {'dialect': 'fpy'}")
        return P

    def s_fpy_val(self, P, x):
        return x

    def s_fpy_rnd(self, P, ctx, v):
        P = self._fpy(P)
        return P.fpy_round(P.ctx_of(ctx), v)

    def s_fpy_rne(self, P, v, digits):
        from .fpydialect import rne_fix, rne_frac, to_fix
        if not isinstance(digits, int):
            raise InterpError('fpy_rne needs a concrete number of digits')
        if isinstance(v, (int, Fraction)) and not is_z3(v):
            return rne_frac(Fraction(v), digits)
        return rne_fix(to_fix(v), digits)

    def s_fpy_rnd_mode(self, P, v, digits, mode):
        """bounded dialect: v rounded at `digits` digits under the named rounding mode (pyvc/fpyround.py)"""
        from .fpydialect import to_fix
        from .fpyround import rnd_fix, rnd_frac
        if not isinstance(digits, int) or not isinstance(mode, str):
            raise InterpError('fpy_rnd_mode needs a concrete number of digits and a mode name')
        if isinstance(v, (int, Fraction)) and not is_z3(v):
            return rnd_frac(Fraction(v), digits, mode)
        return rnd_fix(to_fix(v), digits, mode)

    def s_fpy_finite(self, P, ctx, v):
        return True

    def s_fpy_operand(self, P, m, e):
        return self._fpy(P).fpy_operand(m, e)

    def s_fpy_pow2(self, P, n):
        from .fpydialect import fpy_pow
        if isinstance(n, (int, Fraction)) and not is_z3(n):
            return Fraction(2) ** int(Fraction(n))
        return fpy_pow(z3.RealVal(2), as_z3real(n))

    def s_fpy_is_int(self, P, v):
        if isinstance(v, (int, Fraction)) and not is_z3(v):
            return Fraction(v).denominator == 1
        # the same term the dialect builds for `modf(v)[1] == 0` (integral part by truncation)
        x = as_z3real(v)
        ip = simp(z3.If(x >= 0, z3.ToReal(z3.ToInt(x)), -z3.ToReal(z3.ToInt(-x))))
        return simp(simp(x - ip) == z3.RealVal(0))

    def s_abstract_int(self, P, name, native_fn, *args):
        return self.s_abstract(P, name, native_fn, *args, _sort=z3.IntSort())

    def s_abstract(self, P, name, native_fn, *args, _sort=None):
        """uninterpreted Bool predicate (C20: behaviour of an arbitrary Context); objects count by identity"""
        zs = []
        sig = []
        for a in args:
            if isinstance(a, SObj):
                zs.append(z3.Int('obj#' + (a.name or hex(id(a)))))
                sig.append('o')
            elif is_boollike(a):
                zs.append(as_z3bool(a))
                sig.append('b')
            elif is_intlike(a):
                zs.append(as_z3int(a))
                sig.append('i')
            elif a is None:
                zs.append(z3.IntVal(-1))
                sig.append('n')
            else:
                raise InterpError(f'abstract({name}): unsupported argument {a!r}')
        f = z3.Function(f'abs_{name}_{"".join(sig)}', *([z.sort() for z in zs] + [z3.BoolSort() if _sort is None else _sort]))
        return f(*zs)

    def s_implies(self, P, a, b):
        a, b = P.truthy(a), P.truthy(b)
        if a is False or b is True:
            return True
        if a is True:
            return b
        return simp(z3.Implies(as_z3bool(a), as_z3bool(b)))

    def s_iff(self, P, a, b):
        a, b = P.truthy(a), P.truthy(b)
        if isinstance(a, bool) and isinstance(b, bool):
            return a == b
        return simp(as_z3bool(a) == as_z3bool(b))

    def s_ite(self, P, c, a, b):
        c = P.truthy(c)
        if isinstance(c, bool):
            return a if c else b
        from .interp import MergeAbort
        try:
            return P.ite_value(c, a, b)
        except MergeAbort:
            raise InterpError(f'ite of incompatible values {a!r}, {b!r}')

    def s_recursive(self, P, fn):
        return fn

    def s_uninterpreted(self, P, fn):
        return fn

    def s_case_split(self, P, *conds):
        if getattr(P, 'hints_off', 0):
            return True
        for c in conds:
            c = P.truthy(c)
            if not isinstance(c, bool):
                P.branch(c, 'case_split')
        return True

    def s_is_none(self, P, v):
        return v is None

    def s_xor(self, P, a, b):
        a, b = P.truthy(a), P.truthy(b)
        if isinstance(a, bool) and isinstance(b, bool):
            return a != b
        return simp(z3.Xor(as_z3bool(a), as_z3bool(b)))

    def s_forall_range(self, P, lo, hi, fn):
        if is_z3(lo) or is_z3(hi):
            raise InterpError('forall_range needs concrete bounds')
        rs = [P.truthy(P.call(fn, [i], {})) for i in range(lo, hi)]
        if any(r is False for r in rs):
            return False
        rs = [as_z3bool(r) for r in rs if r is not True]
        return simp(z3.And(rs)) if rs else True

    def s_cls_name(self, P, v):
        if isinstance(v, seqs.KINDS):
            return seqs.cls_name(P, v)
        if isinstance(v, containers.SymKey):   # containers
            return v.kname
        if isinstance(v, SObj):
            return v.cls.name
        if isinstance(v, (EnumV, FlagV)):
            return v.cls.name
        if v is None:
            return 'NoneType'
        if is_boollike(v):
            return 'bool'
        if is_intlike(v):
            return 'int'
        if is_fraclike(v):
            return 'Fraction'
        if isinstance(v, (float, SymFloat)):
            return 'float'
        if isinstance(v, ExcV):
            return v.name
        return type(v).__name__

    def s_same_obj(self, P, a, b):
        return a is b

    def s_fdiv(self, P, a, b):
        """floor division with a positive divisor (spec side; divisor > 0 is the spec's duty)"""
        a, b = as_int(a), as_int(b)
        if isinstance(a, int) and isinstance(b, int):
            return a // b
        return simp(as_z3int(a) / as_z3int(b))

    def s_fmod(self, P, a, b):
        a, b = as_int(a), as_int(b)
        if isinstance(a, int) and isinstance(b, int):
            return a % b
        return simp(as_z3int(a) % as_z3int(b))

    def s_hashq(self, P, q):
        """assumed stdlib model (DESIGN H3): one uninterpreted H: Q -> Z gives the hash of int, Fraction (and float) values"""
        if isinstance(q, SymFloat) or isinstance(q, float):
            raise Unsupported('hashq of a float')
        return PYHASH(as_z3real(q))

    def s_to_real(self, P, a):
        if isinstance(a, bool):
            return Fraction(int(a))
        if isinstance(a, int):
            return Fraction(a)
        if isinstance(a, Fraction):
            return a
        return simp(as_z3real(a))

    def s_rdiv(self, P, a, b):
        """exact rational division, divisor != 0 is the spec's duty"""
        if not is_z3(a) and not is_z3(b):
            return Fraction(a) / Fraction(b)
        return simp(as_z3real(a) / as_z3real(b))

    # ----------------------------------------------------- numeral strings (C06)
    def x_re_compile(self, P, pattern, *flags):
        from .strings import RegexV
        if flags or not isinstance(pattern, str):
            raise Unsupported('re.compile with flags / non-literal pattern')
        return RegexV(pattern)

    def x_re_fullmatch(self, P, rx, s, *flags):
        from . import strings
        if flags:
            raise Unsupported('re.fullmatch with flags')
        return strings.fullmatch(P, rx, s)

    def m_match_group(self, P, recv, k=0):
        if is_z3(k) or not isinstance(k, int) or not 0 <= k < len(recv.groups):
            raise Unsupported('match.group with a symbolic / out-of-range index')
        return recv.groups[k]

    def m_symstr_strip(self, P, recv, *a):
        if a or recv.segs is not None:
            raise Unsupported('strip of a constructed symbolic string')
        return recv      # (T3) surrounding whitespace is not modelled

    m_symstr_lstrip = m_symstr_strip
    m_symstr_rstrip = m_symstr_strip

    def m_symstr_split(self, P, recv, *a):
        from . import strings
        return strings.split(P, recv, *a)

    def m_symstr_startswith(self, P, recv, x):
        from . import strings
        return strings.startswith(P, recv, x)

    def m_str_lstrip(self, P, recv, *a):
        return recv.lstrip(*a)

    def m_str_rstrip(self, P, recv, *a):
        return recv.rstrip(*a)

    def _groups(self, P, s, kind):
        from . import strings
        import speclib
        if isinstance(s, str):
            return getattr(speclib, kind + '_groups')(s)
        if isinstance(s, strings.SymStr) and s.name is not None:
            return strings.groups_of(P, s, kind)
        raise Unsupported(f'{kind}_groups of {s!r}')

    def s_dec_groups(self, P, s):
        return self._groups(P, s, 'dec')

    def s_hex_groups(self, P, s):
        return self._groups(P, s, 'hex')

    def s_dval(self, P, d, base):
        from .strings import DigitStr
        import speclib
        if isinstance(d, str):
            return speclib.dval(d, base)
        if isinstance(d, DigitStr) and d.base == base:
            return d.val
        raise Unsupported(f'dval({d!r}, {base})')

    def s_dlen(self, P, d):
        from .strings import DigitStr
        if isinstance(d, str):
            return len(d)
        if isinstance(d, DigitStr):
            return d.len
        raise Unsupported(f'dlen({d!r})')

    def s_frac_den(self, P, x):
        """denominator of a rational (speclib.frac_den): 1 for an int, x.denominator for a Fraction"""
        if is_intlike(x):
            return 1
        if isinstance(x, Fraction):
            return x.denominator
        if is_sym_real(x):
            return self.ex.frac_part(P, x, 'denominator')
        raise Unsupported(f'frac_den({x!r})')

    def s_frac_num(self, P, x):
        if is_intlike(x):
            return as_int(x)
        if isinstance(x, Fraction):
            return x.numerator
        if is_sym_real(x):
            return self.ex.frac_part(P, x, 'numerator')
        raise Unsupported(f'frac_num({x!r})')

    # identity of objects taken from symbolic sequences (C19x, pyvc/mapseq.py)
    def s_same_elem_obj(self, P, a, b):
        from . import mapseq
        return mapseq.same_elem_obj(P, a, b)

    # derived sequences (C04, pyvc/derivedseq.py)
    def s_same_elem(self, P, a, i, b, j):
        from . import derivedseq
        return derivedseq.same_elem(P, a, i, b, j)

    def s_elem_is(self, P, x, s, j):
        from . import derivedseq
        return derivedseq.elem_is(P, x, s, j)

    def s_cons_name(self, P, v):
        """speclib.cons_name: class name of a (Python ast) node"""
        if type(v).__name__ == 'FreeCons':
            return v.name.split('.')[-1]
        return self.s_cls_name(P, v)
