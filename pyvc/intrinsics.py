"""
Intrinsics: builtins, the few stdlib functions the verified code uses, and the
`speclib` vocabulary of contract/spec files.  Each is an exact encoding of the
Python semantics for the value kinds the engine models; anything else is
Unsupported (never approximated).
"""
from __future__ import annotations

import math
from fractions import Fraction

import z3

from . import theory
from .values import (BoundBuiltin, ClassV, EnumV, ExcV, ExtV, FlagV, FuncV, InterpError, LambdaV,
                     ModV, Opaque, SObj, SymFloat, Unsupported, as_int, as_z3bool, as_z3int,
                     as_z3real, is_boollike, is_fraclike, is_intlike, is_sym_bool, is_sym_int,
                     is_sym_real, is_z3, simp)

FP64_M = 52
FP64_EONES = 0x7ff


class Intrinsics:
    def __init__(self, ex):
        self.ex = ex

    # ------------------------------------------------------------ isinstance
    def isinstance(self, P, v, t) -> bool:
        if isinstance(t, tuple):
            return any(self.isinstance(P, v, x) for x in t)
        if t is None:
            return v is None
        if isinstance(t, ClassV):
            ci = t.info
            if isinstance(v, SObj):
                return P.index.is_subclass(v.cls, ci)
            if isinstance(v, (EnumV, FlagV)):
                return P.index.is_subclass(v.cls, ci)
            if isinstance(v, ExcV):
                return v.name == ci.name or ci.name in v.bases
            return False
        if isinstance(t, ExtV):
            n = t.name
            short = n.split('.')[-1]
            if n in ('builtins.int',):
                return is_intlike(v) or (isinstance(v, EnumV) and self._is_intenum(P, v))
            if n == 'builtins.bool':
                return is_boollike(v)
            if n == 'builtins.float':
                return isinstance(v, (float, SymFloat))
            if n == 'builtins.str':
                return isinstance(v, str)
            if n == 'builtins.tuple':
                return isinstance(v, tuple)
            if n == 'builtins.list':
                return isinstance(v, list)
            if n == 'builtins.dict':
                return isinstance(v, dict)
            if n == 'builtins.set':
                return isinstance(v, set)
            if n == 'builtins.object':
                return True
            if short == 'Fraction':
                return is_fraclike(v)
            if n in ('numbers.Rational',):
                return is_intlike(v) or is_fraclike(v) or self._has_ext_base(P, v, 'numbers.Rational')
            if n in ('numbers.Real', 'numbers.Number', 'numbers.Complex'):
                return is_intlike(v) or is_fraclike(v) or isinstance(v, (float, SymFloat)) \
                    or self._has_ext_base(P, v, 'numbers.')
            if n in ('numbers.Integral',):
                return is_intlike(v)
            if short in ('Random', 'Generator'):
                return isinstance(v, Opaque) and short in v.tag
            if short == 'Enum':
                return isinstance(v, (EnumV, FlagV))
            if n.startswith('builtins.') and short.endswith(('Error', 'Exception')):
                return isinstance(v, ExcV) and (v.name == short or short in v.bases)
            if short in ('Callable',):
                return isinstance(v, (FuncV, LambdaV, ClassV, ExtV, BoundBuiltin))
            if isinstance(v, Opaque):
                return short in v.tag
            if isinstance(v, (SObj, EnumV, FlagV)) or v is None or is_intlike(v) or is_fraclike(v) \
                    or isinstance(v, (str, tuple, list, dict, float)):
                return False
            raise Unsupported(f'isinstance({v!r}, {n})')
        raise Unsupported(f'isinstance against {t!r}')

    def _is_intenum(self, P, v):
        return any(e.endswith('IntEnum') or e.endswith('IntFlag') for e in P.index.external_bases(v.cls))

    def _has_ext_base(self, P, v, prefix):
        if isinstance(v, SObj):
            return any(e.startswith(prefix) for e in P.index.external_bases(v.cls))
        return False

    # ------------------------------------------------------------------ call
    def call(self, P, name: str, args, kwargs):
        short = name.split('.', 1)[1] if name.startswith('builtins.') else None
        if short is not None:
            m = getattr(self, 'b_' + short, None)
            if m is not None:
                return m(P, *args, **kwargs)
            from .interp import BUILTIN_EXC_BASES, mk_exc
            if short in BUILTIN_EXC_BASES:
                return mk_exc(short, tuple(args))
            raise Unsupported(f'builtin {short}')
        key = name.replace('.', '_')
        m = getattr(self, 'x_' + key, None)
        if m is not None:
            return m(P, *args, **kwargs)
        if name.startswith('speclib.'):
            m = getattr(self, 's_' + name.split('.', 1)[1], None)
            if m is not None:
                return m(P, *args, **kwargs)
        hook = self.ex.external_contract(name)
        if hook is not None:
            return hook(P, args, kwargs)
        raise Unsupported(f'external call {name}')

    def call_bound(self, P, name, recv, args, kwargs):
        key = name.replace('.', '_')
        m = getattr(self, 'm_' + key, None)
        if m is None:
            raise Unsupported(f'method {name}')
        return m(P, recv, *args, **kwargs)

    # -------------------------------------------------------------- builtins
    def b_isinstance(self, P, v, t):
        return self.isinstance(P, v, t)

    def b_issubclass(self, P, a, b):
        if isinstance(a, ClassV) and isinstance(b, ClassV):
            return P.index.is_subclass(a.info, b.info)
        raise Unsupported('issubclass')

    def b_len(self, P, v):
        if isinstance(v, (tuple, list, dict, set, str)):
            return len(v)
        if isinstance(v, SObj):
            return P.call_method(v, '__len__', [], {})
        raise Unsupported(f'len of {v!r}')

    def _minmax(self, P, args, kwargs, is_min):
        import ast as _ast
        if kwargs:
            raise Unsupported('min/max with key')
        if len(args) == 1:
            args = P.iterate(args[0])
        if not args:
            from .interp import SymRaise, mk_exc
            raise SymRaise(mk_exc('ValueError'))
        cur = args[0]
        for x in args[1:]:
            if not is_z3(cur) and not is_z3(x) and not isinstance(cur, SObj) and not isinstance(x, SObj):
                c = (x < cur) if is_min else (x > cur)
                cur = x if c else cur
                continue
            c = P.compare(_ast.Lt if is_min else _ast.Gt, x, cur)
            c = P.truthy(c)
            if isinstance(c, bool):
                cur = x if c else cur
            elif is_intlike(x) and is_intlike(cur):
                cur = simp(z3.If(c, as_z3int(x), as_z3int(cur)))
            elif (is_fraclike(x) or is_intlike(x)) and (is_fraclike(cur) or is_intlike(cur)):
                cur = simp(z3.If(c, as_z3real(x), as_z3real(cur)))
            else:
                cur = x if P.branch(c, 'minmax') else cur
        return cur

    def b_min(self, P, *args, **kwargs):
        return self._minmax(P, args, kwargs, True)

    def b_max(self, P, *args, **kwargs):
        return self._minmax(P, args, kwargs, False)

    def b_abs(self, P, v):
        if isinstance(v, SObj):
            return P.call_method(v, '__abs__', [], {})
        if not is_z3(v):
            return abs(v)
        if is_fraclike(v):
            x = as_z3real(v)
        else:
            x = as_z3int(v)
        return simp(z3.If(x >= 0, x, -x))

    def b_int(self, P, v=0, base=None):
        if base is not None:
            if isinstance(v, str) and isinstance(base, int):
                try:
                    return int(v, base)
                except ValueError:
                    from .interp import SymRaise, mk_exc
                    raise SymRaise(mk_exc('ValueError'))
            raise Unsupported('int(str, base) symbolic')
        if isinstance(v, SObj):
            m = P.index.find_method(v.cls, '__int__')
            if m is None:
                m = P.index.find_method(v.cls, '__trunc__')
            if m is None:
                from .interp import SymRaise, mk_exc
                raise SymRaise(mk_exc('TypeError'))
            return P.call_function(FuncV(m, v), [], {})
        if is_intlike(v):
            return as_int(v)
        if isinstance(v, EnumV):
            return P.enum_value(v)
        if isinstance(v, (float, Fraction)):
            return int(v)
        if isinstance(v, str):
            try:
                return int(v)
            except ValueError:
                from .interp import SymRaise, mk_exc
                raise SymRaise(mk_exc('ValueError'))
        if is_sym_real(v):
            # truncation toward zero
            f = z3.ToInt(v)
            return simp(z3.If(v >= 0, f, z3.If(z3.ToReal(f) == v, f, f + 1)))
        raise Unsupported(f'int({v!r})')

    def b_bool(self, P, v=False):
        return P.truthy(v)

    def b_float(self, P, v=0.0):
        if isinstance(v, (int, float, str, Fraction)) and not isinstance(v, bool):
            try:
                return float(v)
            except (ValueError, OverflowError) as e:
                from .interp import SymRaise, mk_exc
                raise SymRaise(mk_exc(type(e).__name__))
        if isinstance(v, SObj):
            return P.call_method(v, '__float__', [], {})
        raise Unsupported(f'float({v!r})')

    def b_str(self, P, v=''):
        if isinstance(v, str):
            return v
        if isinstance(v, int) and not is_z3(v):
            return str(v)
        return Opaque('str')

    def b_repr(self, P, v):
        return Opaque('repr')

    def b_print(self, P, *a, **k):
        return None

    def b_id(self, P, v):
        return id(v)

    def b_range(self, P, *args):
        if any(is_z3(a) for a in args):
            raise Unsupported('symbolic range (needs a loop invariant)')
        return range(*args)

    def b_enumerate(self, P, it, start=0):
        return [(i + start, x) for i, x in enumerate(P.iterate(it))]

    def b_zip(self, P, *its, strict=False):
        ls = [P.iterate(i) for i in its]
        if strict and len(set(len(l) for l in ls)) > 1:
            from .interp import SymRaise, mk_exc
            raise SymRaise(mk_exc('ValueError'))
        return [tuple(t) for t in zip(*ls)]

    def b_reversed(self, P, it):
        return list(reversed(P.iterate(it)))

    def b_tuple(self, P, it=()):
        return tuple(P.iterate(it))

    def b_list(self, P, it=()):
        return list(P.iterate(it))

    def b_set(self, P, it=()):
        return set(P.hashable(x) for x in P.iterate(it))

    def b_frozenset(self, P, it=()):
        return frozenset(P.hashable(x) for x in P.iterate(it))

    def b_dict(self, P, it=(), **kw):
        d = {}
        if isinstance(it, dict):
            d.update(it)
        else:
            for k, v in P.iterate(it):
                d[P.hashable(k)] = v
        d.update(kw)
        return d

    def b_sorted(self, P, it, key=None, reverse=False):
        items = P.iterate(it)
        if any(is_z3(x) for x in items) or key is not None:
            raise Unsupported('sorted on symbolic / with key')
        return sorted(items, reverse=reverse)

    def b_sum(self, P, it, start=0):
        import ast as _ast
        acc = start
        for x in P.iterate(it):
            acc = P.binop(_ast.Add, acc, x)
        return acc

    def b_all(self, P, it):
        rs = [P.truthy(x) for x in P.iterate(it)]
        if any(r is False for r in rs):
            return False
        rs = [as_z3bool(r) for r in rs if r is not True]
        return simp(z3.And(rs)) if rs else True

    def b_any(self, P, it):
        rs = [P.truthy(x) for x in P.iterate(it)]
        if any(r is True for r in rs):
            return True
        rs = [as_z3bool(r) for r in rs if r is not False]
        return simp(z3.Or(rs)) if rs else False

    def b_hash(self, P, v):
        if isinstance(v, SObj):
            return P.call_method(v, '__hash__', [], {})
        return self.ex.hash_model(P, v)

    def b_type(self, P, v):
        if isinstance(v, SObj):
            return ClassV(v.cls)
        if isinstance(v, (EnumV, FlagV)):
            return ClassV(v.cls)
        if is_boollike(v):
            return ExtV('builtins.bool')
        if is_intlike(v):
            return ExtV('builtins.int')
        if is_fraclike(v):
            return ExtV('fractions.Fraction')
        if isinstance(v, (float, SymFloat)):
            return ExtV('builtins.float')
        if v is None:
            return ExtV('builtins.NoneType')
        return ExtV(f'builtins.{type(v).__name__}')

    def b_divmod(self, P, a, b):
        import ast as _ast
        return (P.binop(_ast.FloorDiv, a, b), P.binop(_ast.Mod, a, b))

    def b_pow(self, P, a, b, m=None):
        import ast as _ast
        if m is not None:
            raise Unsupported('3-arg pow')
        return P.binop(_ast.Pow, a, b)

    def b_round(self, P, v, nd=None):
        if isinstance(v, SObj):
            return P.call_method(v, '__round__', [] if nd is None else [nd], {})
        if not is_z3(v):
            return round(v) if nd is None else round(v, nd)
        raise Unsupported('round symbolic')

    def b_callable(self, P, v):
        return isinstance(v, (FuncV, LambdaV, ClassV, ExtV, BoundBuiltin))

    def b_getattr(self, P, obj, name, default=None, *rest):
        from .interp import SymRaise
        if not isinstance(name, str):
            raise Unsupported('getattr with symbolic name')
        try:
            return P.getattr(obj, name)
        except SymRaise as e:
            if e.exc.name == 'AttributeError':
                return default
            raise

    def b_hasattr(self, P, obj, name):
        from .interp import SymRaise
        try:
            P.getattr(obj, name)
            return True
        except SymRaise as e:
            if e.exc.name == 'AttributeError':
                return False
            raise

    def b_object(self, P):
        return SObj(None, {})

    # ---------------------------------------------------------------- stdlib
    def x_fractions_Fraction(self, P, num=0, den=None):
        from .interp import SymRaise, mk_exc
        if den is None:
            if isinstance(num, SObj):
                # Fraction(x) for a numbers.Rational: x.numerator / x.denominator
                n = P.getattr(num, 'numerator')
                d = P.getattr(num, 'denominator')
                return self.x_fractions_Fraction(P, n, d)
            if is_fraclike(num):
                return num
            if isinstance(num, (str, float)):
                try:
                    return Fraction(num)
                except (ValueError, ZeroDivisionError) as e:
                    raise SymRaise(mk_exc(type(e).__name__))
            if isinstance(num, int) and not is_z3(num):
                return Fraction(int(num))
            if is_intlike(num):
                return z3.ToReal(as_z3int(num))
            raise Unsupported(f'Fraction({num!r})')
        if not is_z3(num) and not is_z3(den) and isinstance(num, (int, Fraction)) and isinstance(den, (int, Fraction)):
            if den == 0:
                raise SymRaise(mk_exc('ZeroDivisionError'))
            return Fraction(num, den)
        n = as_z3real(num)
        d = as_z3real(den)
        if P.branch(simp(d == 0), 'Fraction den==0'):
            raise SymRaise(mk_exc('ZeroDivisionError'))
        return simp(n / d)

    def x_math_isnan(self, P, v):
        if isinstance(v, (float, int)) and not is_z3(v):
            return math.isnan(v)
        if isinstance(v, SymFloat):
            e = (v.bits / (1 << 52)) % 2048
            m = v.bits % (1 << 52)
            return simp(z3.And(e == 2047, m != 0))
        if is_intlike(v):
            return False
        raise Unsupported('math.isnan')

    def x_math_isinf(self, P, v):
        if isinstance(v, (float, int)) and not is_z3(v):
            return math.isinf(v)
        if isinstance(v, SymFloat):
            e = (v.bits / (1 << 52)) % 2048
            m = v.bits % (1 << 52)
            return simp(z3.And(e == 2047, m == 0))
        if is_intlike(v):
            return False
        raise Unsupported('math.isinf')

    def x_math_isfinite(self, P, v):
        if isinstance(v, (float, int)) and not is_z3(v):
            return math.isfinite(v)
        if isinstance(v, SymFloat):
            e = (v.bits / (1 << 52)) % 2048
            return simp(e != 2047)
        raise Unsupported('math.isfinite')

    def x_math_copysign(self, P, a, b):
        if isinstance(a, (float, int)) and isinstance(b, (float, int)) and not is_z3(a) and not is_z3(b):
            return math.copysign(a, b)
        raise Unsupported('math.copysign symbolic')

    def x_math_ldexp(self, P, a, b):
        if not is_z3(a) and not is_z3(b):
            return math.ldexp(a, b)
        raise Unsupported('math.ldexp symbolic')

    def x_math_gcd(self, P, a, b):
        if not is_z3(a) and not is_z3(b):
            return math.gcd(a, b)
        raise Unsupported('gcd symbolic')

    def x_typing_cast(self, P, t, v):
        return v

    def x_typing_TypeVar(self, P, *a, **k):
        return Opaque('TypeVar')

    # --------------------------------------------------------------- methods
    def m_int_bit_length(self, P, recv):
        v = as_int(recv)
        if isinstance(v, int):
            return v.bit_length()
        neg = simp(v < 0)
        if neg is not False:
            if P.branch(neg, 'bit_length arg<0'):
                return theory.bl(-v)
        return theory.bl(v)

    def m_int_is_integer(self, P, recv):
        return True

    def m_list_append(self, P, recv, x):
        if P.txns:
            from .interp import MergeAbort
            raise MergeAbort()
        recv.append(x)

    def m_list_extend(self, P, recv, xs):
        if P.txns:
            from .interp import MergeAbort
            raise MergeAbort()
        recv.extend(P.iterate(xs))

    def m_list_pop(self, P, recv, i=-1):
        if P.txns:
            from .interp import MergeAbort
            raise MergeAbort()
        return recv.pop(i)

    def m_list_copy(self, P, recv):
        return list(recv)

    def m_list_index(self, P, recv, x):
        return recv.index(x)

    def m_dict_get(self, P, recv, k, default=None):
        hk = P.hashable(k)
        return recv.get(hk, default)

    def m_dict_items(self, P, recv):
        return [(P.unhash(k), v) for k, v in recv.items()]

    def m_dict_keys(self, P, recv):
        return [P.unhash(k) for k in recv.keys()]

    def m_dict_values(self, P, recv):
        return list(recv.values())

    def m_dict_copy(self, P, recv):
        return dict(recv)

    def m_dict_setdefault(self, P, recv, k, d=None):
        if P.txns:
            from .interp import MergeAbort
            raise MergeAbort()
        return recv.setdefault(P.hashable(k), d)

    def m_dict_update(self, P, recv, other):
        if P.txns:
            from .interp import MergeAbort
            raise MergeAbort()
        if isinstance(other, dict):
            recv.update(other)
        else:
            for k, v in P.iterate(other):
                recv[P.hashable(k)] = v

    def m_dict_pop(self, P, recv, k, *d):
        if P.txns:
            from .interp import MergeAbort
            raise MergeAbort()
        return recv.pop(P.hashable(k), *d)

    def m_set_add(self, P, recv, x):
        if P.txns:
            from .interp import MergeAbort
            raise MergeAbort()
        recv.add(P.hashable(x))

    def m_set_copy(self, P, recv):
        return set(recv)

    def m_tuple_index(self, P, recv, x):
        return recv.index(x)

    def m_tuple_count(self, P, recv, x):
        return recv.count(x)

    def m_str_startswith(self, P, recv, x):
        return recv.startswith(x)

    def m_str_endswith(self, P, recv, x):
        return recv.endswith(x)

    def m_str_join(self, P, recv, xs):
        xs = P.iterate(xs)
        if all(isinstance(x, str) for x in xs):
            return recv.join(xs)
        return Opaque('str')

    def m_str_format(self, P, recv, *a, **k):
        return Opaque('str')

    def m_str_lower(self, P, recv):
        return recv.lower()

    def m_str_upper(self, P, recv):
        return recv.upper()

    def m_str_split(self, P, recv, *a):
        return recv.split(*a)

    def m_str_strip(self, P, recv, *a):
        return recv.strip(*a)

    def m_str_isdigit(self, P, recv):
        return recv.isdigit()

    def m_float_is_integer(self, P, recv):
        if isinstance(recv, float):
            return recv.is_integer()
        raise Unsupported('float.is_integer symbolic')

    def m_float_as_integer_ratio(self, P, recv):
        if isinstance(recv, float):
            return recv.as_integer_ratio()
        raise Unsupported('as_integer_ratio symbolic')

    def m_Fraction_limit_denominator(self, P, recv, *a):
        raise Unsupported('limit_denominator')

    # --------------------------------------------------------------- speclib
    def s_pow2(self, P, k):
        k = as_int(k)
        if isinstance(k, int):
            if k < 0:
                raise InterpError('pow2 of negative constant in spec')
            return 1 << k
        return theory.pow2(k)

    def s_bl(self, P, c):
        c = as_int(c)
        if isinstance(c, int):
            return c.bit_length()
        return theory.bl(c)

    def s_ipow(self, P, b, e):
        b, e = as_int(b), as_int(e)
        if isinstance(b, int) and isinstance(e, int):
            return b ** e
        return theory.ipow(as_z3int(b), as_z3int(e))

    def s_ghost(self, P, name, *args):
        """uninterpreted ghost function (e.g. the next RNG draw); int arguments -> int"""
        zs = [as_z3int(a) for a in args]
        f = z3.Function(f'ghost_{name}', *([z3.IntSort()] * (len(zs) + 1)))
        return f(*zs)

    # FPy dialect vocabulary (pyvc/fpydialect.py)
    def _fpy(self, P):
        if not hasattr(P, 'fpy_round'):
            raise InterpError("fpy_* spec functions need a contract with options = {'dialect': 'fpy'}")
        return P

    def s_fpy_val(self, P, x):
        return x

    def s_fpy_rnd(self, P, ctx, v):
        P = self._fpy(P)
        return P.fpy_round(P.ctx_of(ctx), v)

    def s_fpy_rne(self, P, v, digits):
        from .fpydialect import rne_fix, rne_frac, to_fix
        if not isinstance(digits, int):
            raise InterpError('fpy_rne needs a concrete number of digits')
        if isinstance(v, (int, Fraction)) and not is_z3(v):
            return rne_frac(Fraction(v), digits)
        return rne_fix(to_fix(v), digits)

    def s_fpy_finite(self, P, ctx, v):
        return True

    def s_fpy_operand(self, P, m, e):
        return self._fpy(P).fpy_operand(m, e)

    def s_fpy_pow2(self, P, n):
        from .fpydialect import fpy_pow
        if isinstance(n, (int, Fraction)) and not is_z3(n):
            return Fraction(2) ** int(Fraction(n))
        return fpy_pow(z3.RealVal(2), as_z3real(n))

    def s_fpy_is_int(self, P, v):
        if isinstance(v, (int, Fraction)) and not is_z3(v):
            return Fraction(v).denominator == 1
        # the same term the dialect builds for `modf(v)[1] == 0` (integral part by truncation)
        x = as_z3real(v)
        ip = simp(z3.If(x >= 0, z3.ToReal(z3.ToInt(x)), -z3.ToReal(z3.ToInt(-x))))
        return simp(simp(x - ip) == z3.RealVal(0))

    def s_abstract_int(self, P, name, native_fn, *args):
        return self.s_abstract(P, name, native_fn, *args, _sort=z3.IntSort())

    def s_abstract(self, P, name, native_fn, *args, _sort=None):
        """uninterpreted Bool predicate (C20: behaviour of an arbitrary Context); objects count by identity"""
        zs = []
        sig = []
        for a in args:
            if isinstance(a, SObj):
                zs.append(z3.Int('obj#' + (a.name or hex(id(a)))))
                sig.append('o')
            elif is_boollike(a):
                zs.append(as_z3bool(a))
                sig.append('b')
            elif is_intlike(a):
                zs.append(as_z3int(a))
                sig.append('i')
            elif a is None:
                zs.append(z3.IntVal(-1))
                sig.append('n')
            else:
                raise InterpError(f'abstract({name}): unsupported argument {a!r}')
        f = z3.Function(f'abs_{name}_{"".join(sig)}', *([z.sort() for z in zs] + [z3.BoolSort() if _sort is None else _sort]))
        return f(*zs)

    def s_implies(self, P, a, b):
        a, b = P.truthy(a), P.truthy(b)
        if a is False or b is True:
            return True
        if a is True:
            return b
        return simp(z3.Implies(as_z3bool(a), as_z3bool(b)))

    def s_iff(self, P, a, b):
        a, b = P.truthy(a), P.truthy(b)
        if isinstance(a, bool) and isinstance(b, bool):
            return a == b
        return simp(as_z3bool(a) == as_z3bool(b))

    def s_ite(self, P, c, a, b):
        c = P.truthy(c)
        if isinstance(c, bool):
            return a if c else b
        from .interp import MergeAbort
        try:
            return P.ite_value(c, a, b)
        except MergeAbort:
            raise InterpError(f'ite of incompatible values {a!r}, {b!r}')

    def s_is_none(self, P, v):
        return v is None

    def s_xor(self, P, a, b):
        a, b = P.truthy(a), P.truthy(b)
        if isinstance(a, bool) and isinstance(b, bool):
            return a != b
        return simp(z3.Xor(as_z3bool(a), as_z3bool(b)))

    def s_forall_range(self, P, lo, hi, fn):
        if is_z3(lo) or is_z3(hi):
            raise InterpError('forall_range needs concrete bounds')
        rs = [P.truthy(P.call(fn, [i], {})) for i in range(lo, hi)]
        if any(r is False for r in rs):
            return False
        rs = [as_z3bool(r) for r in rs if r is not True]
        return simp(z3.And(rs)) if rs else True

    def s_cls_name(self, P, v):
        if isinstance(v, SObj):
            return v.cls.name
        if isinstance(v, (EnumV, FlagV)):
            return v.cls.name
        if v is None:
            return 'NoneType'
        if is_boollike(v):
            return 'bool'
        if is_intlike(v):
            return 'int'
        if is_fraclike(v):
            return 'Fraction'
        if isinstance(v, (float, SymFloat)):
            return 'float'
        if isinstance(v, ExcV):
            return v.name
        return type(v).__name__

    def s_same_obj(self, P, a, b):
        return a is b

    def s_fdiv(self, P, a, b):
        """floor division with a positive divisor (spec side; divisor > 0 is the spec's duty)"""
        a, b = as_int(a), as_int(b)
        if isinstance(a, int) and isinstance(b, int):
            return a // b
        return simp(as_z3int(a) / as_z3int(b))

    def s_fmod(self, P, a, b):
        a, b = as_int(a), as_int(b)
        if isinstance(a, int) and isinstance(b, int):
            return a % b
        return simp(as_z3int(a) % as_z3int(b))

    def s_to_real(self, P, a):
        if isinstance(a, bool):
            return Fraction(int(a))
        if isinstance(a, int):
            return Fraction(a)
        if isinstance(a, Fraction):
            return a
        return simp(as_z3real(a))

    def s_rdiv(self, P, a, b):
        """exact rational division, divisor != 0 is the spec's duty"""
        if not is_z3(a) and not is_z3(b):
            return Fraction(a) / Fraction(b)
        return simp(as_z3real(a) / as_z3real(b))
