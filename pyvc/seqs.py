"""
Value kinds and rules added for the cursor/edit-log proofs (property C19):

* `SymSeq`    symbolic-length homogeneous tuple/list.  Length is a z3 Int >= 0;
              element i of an object-typed sequence is an object whose scalar
              fields are `Select(Array('<seq>[].<field>'), i)` (struct of
              arrays), so equal indices give equal fields.  Indexing has the
              exact Python bounds check (IndexError branch, negative indices);
              iteration is only possible through the loop rule.
* `SymADT`    a *structural value type*: a family of frozen dataclasses with
              structural `==` (here: `BlockPath = FuncBody | SubBlock`) modelled
              as a z3 algebraic datatype derived from the dataclass fields read
              from the source.  Construction, field access (with the
              AttributeError branch), isinstance / `match` (recognisers) and `==`
              are exact.  A dataclass that is only a *field* of a constructor
              (StmtPath inside SubBlock) is flattened into the constructor.
* `SymKey`    opaque hashable compared only by ==/!= (type string 'key').
* `SymStr`    a string known only up to equality (interned integer code).
* `SymRange`  `range(a, b)` with symbolic bounds (step 1 only).
* uninterpreted / recursive *spec functions* (`@uninterpreted`, `@recursive`
  of speclib): symbolically an uninterpreted function of the scalar / ADT
  arguments (object-valued arguments select the function by their name);
  `@recursive` additionally assumes the defining equation, unfolded once, at
  every application that occurs in the proof (no quantifier reaches the
  solver).  Natively both run their Python body.
* the LOOP RULE for `for x in <SymSeq | SymRange>` and `while` inside the
  function under verification (see `loop_rule`).
"""
from __future__ import annotations

import ast

import z3

from .values import (EnumV, InterpError, Lazy, Opaque, SObj, Unsupported, as_int, as_z3bool,
                     as_z3int, is_boollike, is_intlike, is_sym_bool, is_z3, simp)

NOT_HANDLED = object()
INT = z3.IntSort()
BOOL = z3.BoolSort()
KEY = z3.DeclareSort('Key')


class PathEnd(Exception):
    """The current path ends here without a postcondition (end of a loop-step path)."""


# --------------------------------------------------------------------------- strings

_STR_CODE: dict = {}
_STR_LIST: list = []


def str_code(s: str) -> int:
    c = _STR_CODE.get(s)
    if c is None:
        c = len(_STR_LIST)
        _STR_CODE[s] = c
        _STR_LIST.append(s)
    return c


def code_str(n: int) -> str:
    if 0 <= n < len(_STR_LIST):
        return _STR_LIST[n]
    return f'str{n}'


# --------------------------------------------------------------------------- values

class SymKey:
    __slots__ = ('term',)

    def __init__(self, term):
        self.term = term

    def __repr__(self):
        return f'<key {self.term}>'


class SymStr:
    __slots__ = ('term',)

    def __init__(self, term):
        self.term = term

    def __repr__(self):
        return f'<str {self.term}>'


class SymRange:
    """range(start, stop), step 1; bounds python ints or z3 Ints"""
    __slots__ = ('start', 'stop')

    def __init__(self, start, stop):
        self.start = start
        self.stop = stop

    def length(self):
        d = simp(as_z3int(self.stop) - as_z3int(self.start))
        if isinstance(d, int):
            return max(d, 0)
        return simp(z3.If(d >= 0, d, z3.IntVal(0)))

    def at(self, P, i):
        return simp(as_z3int(self.start) + as_z3int(i))

    def __repr__(self):
        return f'<range {self.start}:{self.stop}>'


class SymADT:
    __slots__ = ('term', 'fam')

    def __init__(self, term, fam):
        self.term = term
        self.fam = fam

    def __repr__(self):
        return f'<{self.fam.name} {self.term}>'


class SeqElem(SObj):
    __slots__ = ('seq', 'idx')


class SymSeq:
    __slots__ = ('name', 'length', 'elem', 'kind', 'cache')

    def __init__(self, name, length, elem, kind='tuple'):
        self.name = name
        self.length = length
        self.elem = elem
        self.kind = kind
        self.cache = {}

    def __repr__(self):
        return f'<seq {self.name}>'

    def at(self, P, idx):
        """element at a (checked, non-negative) index"""
        idx = simp(as_z3int(idx))
        zi = as_z3int(idx)
        key = zi.get_id()
        hit = self.cache.get(key)
        if hit is not None:
            return hit[1]
        v = _sel(P, self.elem, self.name + '[]', zi, self)
        self.cache[key] = (zi, v)
        return v


KINDS = (SymSeq, SymADT, SymKey, SymStr, SymRange)


# --------------------------------------------------------------------------- ADT families

# family name -> (module, constructor class names)
FAMILIES = {
    'BlockPath': ('fpy2.transform.path', ('FuncBody', 'SubBlock')),
}

_FAM_CACHE: dict = {}


class Ctor:
    def __init__(self, ci):
        self.ci = ci
        self.layout = []       # [(attr, entry)]; entry = ('int'|'str'|'self', accname) | ('rec', ClassInfo, [(attr, entry)])
        self.decl = None
        self.recog = None
        self.acc = {}          # accname -> z3 accessor


class Family:
    def __init__(self, name):
        self.name = name
        self.sort = None
        self.ctors: list[Ctor] = []

    def ctor_of(self, ci):
        for c in self.ctors:
            if c.ci == ci:
                return c
        return None


def _dc_fields(ex, ci):
    from .interp import Path
    dc = Path(ex, [])._dataclass_fields(ci)
    if dc is None:
        raise Unsupported(f'value type {ci.name} is not a dataclass')
    anns = ex.index.fields(ci)
    return [(n, anns[n]) for n, _ in dc]


def _family_members(ex, fname):
    mod, names = FAMILIES[fname]
    mi = ex.index.module(mod)
    if mi is None:
        return None
    out = []
    for n in names:
        ci = mi.classes.get(n)
        if ci is None:
            return None
        out.append(ci)
    return out


def _build_family(ex, fname) -> Family | None:
    if fname in _FAM_CACHE:
        return _FAM_CACHE[fname]
    members = _family_members(ex, fname)
    if members is None:
        _FAM_CACHE[fname] = None
        return None
    fam = Family(fname)
    dt = z3.Datatype(fname)

    def entry_for(ci, owner, ann, prefix, depth):
        t = ex.types.parse(ann, owner.module.name, ci)
        if t == ('int',):
            return ('int', prefix), [(prefix, INT)]
        if t[0] == 'str' or (t[0] == 'opaque' and t[1] in ('Literal',)):
            return ('str', prefix), [(prefix, INT)]
        alts = t[1] if t[0] == 'union' else (t,)
        if all(a[0] == 'obj' and a[1] in members for a in alts):
            if set(a[1] for a in alts) != set(members):
                raise Unsupported(f'value type field {prefix} restricted to some constructors')
            return ('self', prefix), [(prefix, dt)]
        if t[0] == 'obj' and depth < 2:
            sub = []
            decls = []
            for n, (ow, an) in _dc_fields(ex, t[1]):
                e, d = entry_for(t[1], ow, an, f'{prefix}.{n}', depth + 1)
                sub.append((n, e))
                decls += d
            return ('rec', t[1], sub), decls
        raise Unsupported(f'value type field {prefix}: {t}')

    for ci in members:
        c = Ctor(ci)
        decls = []
        for n, (ow, an) in _dc_fields(ex, ci):
            e, d = entry_for(ci, ow, an, f'{ci.name}.{n}', 0)
            c.layout.append((n, e))
            decls += d
        c._decls = decls
        dt.declare(ci.name, *decls)
        fam.ctors.append(c)
    sort = dt.create()
    fam.sort = sort
    for i, c in enumerate(fam.ctors):
        c.decl = sort.constructor(i)
        c.recog = sort.recognizer(i)
        for j, (an, _) in enumerate(c._decls):
            c.acc[an] = sort.accessor(i, j)
    _FAM_CACHE[fname] = fam
    return fam


def family_of_class(ex, ci):
    for fname, (mod, names) in FAMILIES.items():
        if ci.module.name == mod and ci.name in names:
            return _build_family(ex, fname)
    return None


def family_of_type(ex, typ):
    """(family, allowed ctor list) if `typ` is an obj / union of objs of one family, else None"""
    alts = typ[1] if typ[0] == 'union' else (typ,)
    if not alts or not all(a[0] == 'obj' for a in alts):
        return None
    fam = family_of_class(ex, alts[0][1])
    if fam is None:
        return None
    cs = []
    for a in alts:
        c = fam.ctor_of(a[1])
        if c is None:
            return None
        cs.append(c)
    return fam, cs


def _restrict(term, fam, cs):
    if len(cs) == len(fam.ctors):
        return None
    return z3.Or([c.recog(term) for c in cs])


def _wrap_entry(P, c, e, term):
    k = e[0]
    if k == 'int':
        return c.acc[e[1]](term)
    if k == 'str':
        return SymStr(c.acc[e[1]](term))
    if k == 'self':
        return SymADT(simp(c.acc[e[1]](term)), _fam_of_ctor(c))
    if k == 'rec':
        o = SObj(e[1], {})
        P.new_dict(o.fields)
        for n, se in e[2]:
            o.fields[n] = _wrap_entry(P, c, se, term)
        return o
    raise InterpError(f'bad layout entry {e}')


def _fam_of_ctor(c):
    for fam in _FAM_CACHE.values():
        if fam is not None and c in fam.ctors:
            return fam
    raise InterpError('constructor without family')


def _unwrap_entry(P, c, e, v, out):
    from .interp import SymRaise, mk_exc
    k = e[0]
    if k == 'int':
        if not is_intlike(v):
            raise Unsupported(f'value type field {e[1]}: not an int: {v!r}')
        out.append(as_z3int(v))
    elif k == 'str':
        if isinstance(v, str):
            out.append(z3.IntVal(str_code(v)))
        elif isinstance(v, SymStr):
            out.append(v.term)
        else:
            raise Unsupported(f'value type field {e[1]}: not a str: {v!r}')
    elif k == 'self':
        if not isinstance(v, SymADT):
            raise Unsupported(f'value type field {e[1]}: not a {c.ci.name} family value: {v!r}')
        out.append(v.term)
    elif k == 'rec':
        if not isinstance(v, SObj) or v.cls != e[1]:
            raise Unsupported(f'value type field: expected a {e[1].name}, got {v!r}')
        for n, se in e[2]:
            _unwrap_entry(P, c, se, P.getattr(v, n), out)


def instantiate_hook(P, ci, args, kwargs):
    fam = family_of_class(P.ex, ci)
    if fam is None:
        return NOT_HANDLED
    from .interp import SymRaise, mk_exc
    c = fam.ctor_of(ci)
    names = [n for n, _ in c.layout]
    if len(args) > len(names):
        raise SymRaise(mk_exc('TypeError'))
    vals = dict(zip(names, args))
    for k, v in kwargs.items():
        if k in vals or k not in names:
            raise SymRaise(mk_exc('TypeError'))
        vals[k] = v
    if len(vals) != len(names):
        raise SymRaise(mk_exc('TypeError'))
    zs = []
    for n, e in c.layout:
        _unwrap_entry(P, c, e, vals[n], zs)
    v = SymADT(simp(c.decl(*zs)) if zs else c.decl(), fam)
    pi = P.index.find_method(ci, '__post_init__')
    if pi is not None:
        from .values import FuncV
        P.call_function(FuncV(pi, v), [], {})
    return v


def possible_ctors(P, v: SymADT):
    """constructors the value may have on this path (decided syntactically where possible)"""
    t = v.term
    out = []
    for c in v.fam.ctors:
        r = simp(c.recog(t))
        if r is False:
            continue
        out.append((c, r))
    return out


def adt_ctor(P, v: SymADT, what=''):
    """fork the path on the constructor of v"""
    cands = possible_ctors(P, v)
    for c, r in cands[:-1]:
        if r is True or P.branch(r, f'{what or v.fam.name} is {c.ci.name}'):
            return c
    c, r = cands[-1]
    if r is not True:
        P.assume(r)
    return c


# --------------------------------------------------------------------------- fresh / select

def fresh_hook(P, typ, name):
    k = typ[0]
    if k == 'seq':
        fixed = (P.ex.current.opts.get('seq_len', {}) if P.ex.current is not None else {}).get(name)
        kind = typ[2] if len(typ) > 2 else 'tuple'
        if fixed is not None:
            items = [P.fresh(typ[1], f'{name}[{i}]') for i in range(fixed)]
            return items if kind == 'list' else tuple(items)
        n = z3.Int(name + '#len')
        P.assume(n >= 0, fact=True)
        s = SymSeq(name, n, typ[1], kind)
        if not hasattr(P, 'seqs'):
            P.seqs = []
        P.seqs.append(s)
        return s
    if k == 'opaque' and typ[1] == 'key':
        return SymKey(z3.Const(name, KEY))
    if k == 'opaque' and typ[1] == 'range':
        a, b = z3.Int(name + '.start'), z3.Int(name + '.stop')
        return SymRange(a, b)
    if k in ('obj', 'union'):
        r = family_of_type(P.ex, typ)
        if r is not None:
            fam, cs = r
            t = z3.Const(name, fam.sort)
            cond = _restrict(t, fam, cs)
            if cond is not None:
                P.assume(cond, fact=True)
            return SymADT(t, fam)
    return NOT_HANDLED


def _sel(P, typ, prefix, idx, seq):
    """value of type `typ` stored at index idx of the array family `prefix`"""
    ov = P.ex.overrides.get(prefix)
    if ov is not None:
        typ = ov
    k = typ[0]
    if k == 'int':
        return z3.Select(z3.Array(prefix, INT, INT), idx)
    if k == 'bool':
        return z3.Select(z3.Array(prefix, INT, BOOL), idx)
    if k == 'none':
        return None
    if k == 'frac':
        return z3.Select(z3.Array(prefix, INT, z3.RealSort()), idx)
    if k == 'str':
        return SymStr(z3.Select(z3.Array(prefix, INT, INT), idx))
    if k == 'opaque' and typ[1] == 'key':
        return SymKey(z3.Select(z3.Array(prefix, INT, KEY), idx))
    if k == 'opaque' and typ[1] == 'range':
        return SymRange(z3.Select(z3.Array(prefix + '.start', INT, INT), idx),
                        z3.Select(z3.Array(prefix + '.stop', INT, INT), idx))
    if k == 'enum':
        ci = typ[1]
        n = len(P.index.enum_members(ci))
        if P.index.is_flag_enum(ci):
            raise Unsupported(f'symbolic flag enum {ci.name}')
        t = z3.Select(z3.Array(prefix, INT, INT), idx)
        P.assume(z3.And(t >= 0, t < n), fact=True)
        return EnumV(ci, t)
    if k in ('obj', 'union'):
        r = family_of_type(P.ex, typ)
        if r is not None:
            fam, cs = r
            t = z3.Select(z3.Array(prefix, INT, fam.sort), idx)
            cond = _restrict(t, fam, cs)
            if cond is not None:
                P.assume(cond, fact=True)
            return SymADT(t, fam)
    if k == 'obj':
        ci = typ[1]
        obj = SeqElem(ci, {}, f'{prefix}@{idx}')
        obj.seq = seq
        obj.idx = idx
        P.new_dict(obj.fields)
        for f, (owner, ann) in P.index.fields(ci).items():
            ft = P.ex.types.parse(ann, owner.module.name, ci)
            obj.fields[f] = _sel(P, ft, f'{prefix}.{f}', idx, seq)
        _assume_invariant(P, ci, obj)
        return obj
    if k == 'union':
        alts = typ[1]
        tag = z3.Select(z3.Array(prefix + '#tag', INT, INT), idx)
        P.assume(z3.And(tag >= 0, tag < len(alts)), fact=True)
        for i, a in enumerate(alts[:-1]):
            if P.branch(tag == i, f'{prefix}@{idx} is alt {i}'):
                return _sel(P, a, prefix, idx, seq)
        return _sel(P, alts[-1], prefix, idx, seq)
    if k == 'tuple':
        return tuple(_sel(P, t, f'{prefix}.{i}', idx, seq) for i, t in enumerate(typ[1]))
    if k in ('opaque', 'any'):
        return Opaque(f'{prefix}@{idx}:{typ[1] if len(typ) > 1 else k}')
    raise Unsupported(f'sequence element of type {typ}')


def _assume_invariant(P, ci, obj):
    from .values import FuncV
    inv = P.ex.invariants.get(ci.qualname)
    if inv is None:
        for c in P.index.mro(ci):
            inv = P.ex.invariants.get(c.qualname)
            if inv is not None:
                break
    if inv is not None:
        v = P.call_function(FuncV(inv), [obj], {})
        P.assume(P.truthy(v), fact=True)


def fresh_raw_obj(P, typ, name):
    """an object of class typ[1] with symbolic fields and *no* class invariant assumed
    (the receiver of __post_init__: fields are set, nothing is validated yet)"""
    ci = typ[1]
    obj = SObj(ci, {}, name)
    for f, (owner, ann) in P.index.fields(ci).items():
        ft = P.ex.types.parse(ann, owner.module.name, ci)
        obj.fields[f] = Lazy(ft, f'{name}.{f}')
    P.inputs[name] = obj
    return obj


# --------------------------------------------------------------------------- operations

def getitem(P, v, k):
    from .interp import SymRaise, mk_exc
    if isinstance(v, (SymSeq, SymRange)):
        if not is_intlike(k):
            raise Unsupported(f'index {k!r} into a symbolic sequence')
        n = v.length if isinstance(v, SymSeq) else v.length()
        zk, zn = as_z3int(as_int(k)), as_z3int(n)
        if P.branch(simp(z3.Or(zk >= zn, zk < -zn)), 'index out of range'):
            raise SymRaise(mk_exc('IndexError'))
        i = simp(z3.If(zk < 0, zk + zn, zk))
        return v.at(P, i)
    raise Unsupported(f'subscript of {v!r}')


def seq_len(P, v):
    if isinstance(v, SymSeq):
        return v.length
    if isinstance(v, SymRange):
        return v.length()
    raise Unsupported(f'len of {v!r}')


def truthy(P, v):
    if isinstance(v, (SymSeq, SymRange)):
        n = seq_len(P, v)
        return (n != 0) if isinstance(n, int) else simp(n != 0)
    if isinstance(v, (SymADT, SymKey)):
        return True
    raise Unsupported(f'truthiness of {v!r}')


def equal(P, a, b):
    if isinstance(a, SymADT) or isinstance(b, SymADT):
        if isinstance(a, SymADT) and isinstance(b, SymADT):
            if a.fam is not b.fam:
                return False
            return simp(a.term == b.term)
        return False
    if isinstance(a, SymKey) or isinstance(b, SymKey):
        if isinstance(a, SymKey) and isinstance(b, SymKey):
            return simp(a.term == b.term)
        raise Unsupported('comparison of a key with a non-key')
    if isinstance(a, SymStr) or isinstance(b, SymStr):
        x, y = (a, b) if isinstance(a, SymStr) else (b, a)
        if isinstance(y, SymStr):
            return simp(x.term == y.term)
        if isinstance(y, str):
            return simp(x.term == str_code(y))
        return False
    if isinstance(a, SymRange) or isinstance(b, SymRange):
        if isinstance(a, range):
            a = SymRange(a.start, a.stop) if a.step == 1 else None
        if isinstance(b, range):
            b = SymRange(b.start, b.stop) if b.step == 1 else None
        if a is None or b is None:
            raise Unsupported('range with a step')
        if isinstance(a, SymRange) and isinstance(b, SymRange):
            la, lb = as_z3int(a.length()), as_z3int(b.length())
            # ranges are equal iff same length and (empty or same start)
            return simp(z3.And(la == lb, z3.Or(la == 0, as_z3int(a.start) == as_z3int(b.start))))
        return False
    if isinstance(a, SymSeq) or isinstance(b, SymSeq):
        if a is b:
            return True
        raise Unsupported('equality of symbolic sequences')
    raise Unsupported(f'equality of {a!r} and {b!r}')


def identical(P, a, b):
    if a is b:
        return True
    if isinstance(a, SymSeq) or isinstance(b, SymSeq):
        return False if not (isinstance(a, SymSeq) and isinstance(b, SymSeq)) else _unsup('identity of sequences')
    if type(a) is not type(b):
        return False
    raise Unsupported(f'identity (is) of value objects {a!r}, {b!r}')


def _unsup(msg):
    raise Unsupported(msg)


def contains(P, container, item):
    if isinstance(container, SymRange):
        if not is_intlike(item):
            return False
        x = as_z3int(as_int(item))
        return simp(z3.And(as_z3int(container.start) <= x, x < as_z3int(container.stop)))
    raise Unsupported(f'membership in {container!r} (needs a quantifier)')


def ite_value(P, cond, a, b):
    if isinstance(a, SymADT) and isinstance(b, SymADT) and a.fam is b.fam:
        return SymADT(simp(z3.If(cond, a.term, b.term)), a.fam)
    if isinstance(a, SymKey) and isinstance(b, SymKey):
        return SymKey(simp(z3.If(cond, a.term, b.term)))
    if isinstance(a, (SymStr, str)) and isinstance(b, (SymStr, str)):
        ta = a.term if isinstance(a, SymStr) else z3.IntVal(str_code(a))
        tb = b.term if isinstance(b, SymStr) else z3.IntVal(str_code(b))
        return SymStr(simp(z3.If(cond, ta, tb)))
    if isinstance(a, (SymRange, range)) and isinstance(b, (SymRange, range)):
        return SymRange(simp(z3.If(cond, as_z3int(a.start), as_z3int(b.start))),
                        simp(z3.If(cond, as_z3int(a.stop), as_z3int(b.stop))))
    from .interp import MergeAbort
    raise MergeAbort()


def getattr_hook(P, v, attr):
    from .interp import SymRaise, mk_exc
    from .values import BoundBuiltin, ClassV, FuncV
    if isinstance(v, SymADT):
        owners = [c for c in v.fam.ctors if any(n == attr for n, _ in c.layout)]
        if owners:
            cands = possible_ctors(P, v)
            for c, r in cands:
                if c not in owners:
                    continue
                if r is True or P.branch(r, f'{v.fam.name}.{attr}: is {c.ci.name}'):
                    e = dict(c.layout)[attr]
                    return _wrap_entry(P, c, e, v.term)
            raise SymRaise(mk_exc('AttributeError'), f'{v.fam.name}.{attr}')
        c = adt_ctor(P, v, f'{v.fam.name}.{attr}')
        if attr == '__class__':
            return ClassV(c.ci)
        m = P.index.find_method(c.ci, attr)
        if m is not None:
            if m.kind == 'property':
                return P.call_function(FuncV(m, v), [], {})
            if m.kind == 'staticmethod':
                return FuncV(m)
            if m.kind == 'classmethod':
                return FuncV(m, ClassV(c.ci))
            return FuncV(m, v)
        ca = P.index.find_class_attr(c.ci, attr)
        if ca is not None:
            return P.class_attr(ca[0], attr, ca[1])
        raise SymRaise(mk_exc('AttributeError'), f'{c.ci.name}.{attr}')
    if isinstance(v, SymRange):
        if attr == 'start':
            return v.start
        if attr == 'stop':
            return v.stop
        if attr == 'step':
            return 1
        raise Unsupported(f'range.{attr}')
    if isinstance(v, SymSeq):
        raise Unsupported(f'method {attr} of a symbolic sequence')
    raise Unsupported(f'attribute {attr} of {v!r}')


def isinstance_hook(P, v, t):
    """isinstance for the value kinds of this module; returns bool or z3 Bool"""
    from .values import ClassV, ExtV
    if isinstance(t, tuple):
        rs = [isinstance_hook(P, v, x) for x in t]
        if any(r is True for r in rs):
            return True
        rs = [r for r in rs if r is not False]
        if not rs:
            return False
        return simp(z3.Or([as_z3bool(r) for r in rs]))
    if isinstance(v, SymADT):
        if isinstance(t, ClassV):
            c = v.fam.ctor_of(t.info)
            if c is None:
                return False
            return simp(c.recog(v.term))
        if isinstance(t, ExtV) and t.name == 'builtins.object':
            return True
        return False
    if isinstance(v, SymRange):
        return isinstance(t, ExtV) and t.name in ('builtins.range', 'builtins.object')
    if isinstance(v, SymSeq):
        if isinstance(t, ExtV):
            return t.name in ('builtins.' + v.kind, 'builtins.object')
        return False
    if isinstance(v, SymStr):
        return isinstance(t, ExtV) and t.name in ('builtins.str', 'builtins.object')
    if isinstance(v, SymKey):
        if isinstance(t, ExtV) and t.name == 'builtins.object':
            return True
        raise Unsupported('isinstance of an opaque key')
    return False


def cls_name(P, v):
    if isinstance(v, SymADT):
        return adt_ctor(P, v, 'cls_name').ci.name
    if isinstance(v, SymRange):
        return 'range'
    if isinstance(v, SymSeq):
        return v.kind
    if isinstance(v, SymStr):
        return 'str'
    raise Unsupported(f'cls_name of {v!r}')


def match_class(P, pat, v: SymADT, binds, fr):
    """`case C(p1, ..., k=p)` on a value of an ADT family: recogniser and accessor terms"""
    from .values import ClassV
    t = P.ev(pat.cls, fr)
    if not isinstance(t, ClassV):
        return False
    c = v.fam.ctor_of(t.info)
    if c is None:
        return False
    r = simp(c.recog(v.term))
    if r is False:
        return False
    rs = [] if r is True else [as_z3bool(r)]
    names = [n for n, _ in c.layout]
    lay = dict(c.layout)
    if len(pat.patterns) > len(names):
        raise Unsupported('too many positional sub-patterns')
    subs = list(zip(names, pat.patterns)) + list(zip(pat.kwd_attrs, pat.kwd_patterns))
    for nm, p in subs:
        if nm not in lay:
            return False
        x = _wrap_entry(P, c, lay[nm], v.term)
        q = P.match_pattern(p, x, binds, fr)
        if q is False:
            return False
        if q is not True:
            rs.append(as_z3bool(q))
    if not rs:
        return True
    return simp(z3.And(rs))


def iterate_hook(P, v):
    if isinstance(v, SymRange):
        n = v.length()
        if isinstance(n, int):
            return [v.at(P, j) for j in range(n)]
        raise Unsupported('iteration over a symbolic range (needs a loop invariant)')
    raise Unsupported(f'iteration over {v!r} (only through the loop rule of the function under verification)')


def forced_from(cv, name) -> bool:
    """frame check: was this value created by forcing the lazy input `name`?"""
    if isinstance(cv, SymSeq):
        return cv.name == name
    if isinstance(cv, (SymADT, SymKey)):
        return z3.is_const(cv.term) and cv.term.decl().name() == name
    if isinstance(cv, SymRange):
        return is_z3(cv.start) and z3.is_const(cv.start) and cv.start.decl().name() == name + '.start'
    if isinstance(cv, (list, tuple)):
        return True
    return False


# --------------------------------------------------------------------------- spec functions as UFs

def uf_kind(info):
    for d in info.node.decorator_list:
        n = d.func if isinstance(d, ast.Call) else d
        nm = n.id if isinstance(n, ast.Name) else getattr(n, 'attr', None)
        if nm in ('recursive', 'uninterpreted'):
            return nm
    return None


def _is_ground(t) -> bool:
    stack = [t]
    while stack:
        x = stack.pop()
        if z3.is_int_value(x) or z3.is_true(x) or z3.is_false(x):
            continue
        if z3.is_app(x) and x.decl().kind() == z3.Z3_OP_DT_CONSTRUCTOR:
            stack.extend(x.children())
            continue
        return False
    return True


def call_uf(P, f, args, kwargs):
    info = f.info
    kind = uf_kind(info)
    if kind is None:
        return NOT_HANDLED
    if getattr(P, '_uf_force', None) is info:
        P._uf_force = None
        return NOT_HANDLED
    from .interp import Frame, MergeAbort, PathInfeasible, SymRaise, _Return
    from .values import FuncV
    fr = Frame(info.module, info, None)
    P.bind_args(info.node.args, list(args), dict(kwargs), fr, info.qualname, Frame(info.module))
    zargs, parts = [], []
    ground = True
    for a in info.node.args.args:
        v = fr.locals[a.arg]
        if isinstance(v, Lazy):
            v = P.force(v)
        if isinstance(v, bool):
            zargs.append(z3.BoolVal(v))
        elif isinstance(v, int):
            zargs.append(z3.IntVal(v))
        elif is_sym_bool(v) or (is_z3(v) and v.sort() == INT):
            zargs.append(v)
            ground = False
        elif isinstance(v, (SymADT, SymKey, SymStr)):
            zargs.append(v.term)
            ground = ground and _is_ground(v.term)
        elif isinstance(v, EnumV):
            zargs.append(as_z3int(v.idx))
            ground = ground and isinstance(v.idx, int)
        elif isinstance(v, SymSeq):
            parts.append(v.name)
        elif isinstance(v, SObj) and v.name:
            parts.append(v.name)
        elif isinstance(v, (tuple, list)):
            # concrete-length sequence: a recursive function over it is simply executed
            # (a symbolic measure would not terminate: caught by the call-depth limit)
            if kind == 'recursive':
                return NOT_HANDLED
            raise Unsupported(f'{info.name}: uninterpreted spec function over a concrete sequence')
        elif v is None:
            parts.append('None')
        elif isinstance(v, str):
            parts.append(repr(v))
        else:
            raise Unsupported(f'{info.name}: argument {a.arg}={v!r} of an uninterpreted spec function')
    if kind == 'recursive' and ground:
        return NOT_HANDLED          # all scalar arguments concrete: plain execution terminates
    if info.node.returns is None:
        raise InterpError(f'{info.qualname}: uninterpreted/recursive spec functions need a return annotation')
    rt = P.ex.types.parse(info.node.returns, info.module.name, None)
    famr = None
    if rt == ('int',):
        rsort = INT
    elif rt == ('bool',):
        rsort = BOOL
    else:
        r = family_of_type(P.ex, rt)
        if r is None:
            raise Unsupported(f'{info.qualname}: return type {rt}')
        famr = r[0]
        rsort = famr.sort
    name = f'spec_{info.name}<{",".join(parts)}>'
    F = z3.Function(name, *([z.sort() for z in zargs] + [rsort]))
    app = F(*zargs) if zargs else z3.Const(name, rsort)
    res = SymADT(app, famr) if famr is not None else app
    if kind != 'recursive':
        return res
    depth = getattr(P, '_uf_depth', 0)
    done = getattr(P, '_uf_done', None)
    if done is None:
        done = P._uf_done = {}
    if depth > 0 or app.get_id() in done:
        return res
    done[app.get_id()] = app
    guard = list(P.pc)
    P._uf_depth = depth + 1
    t = P._begin()
    try:
        P._uf_force = info
        try:
            v = P.call_function(FuncV(info), args, kwargs)
        except SymRaise as e:
            raise InterpError(f'recursive spec function {info.qualname} raised {e.exc.name} while unfolding ({e.where})')
        except (MergeAbort, _Return):
            raise InterpError(f'recursive spec function {info.qualname}: the body must be a mergeable expression '
                              '(use conditional expressions, not if-statements)')
    finally:
        P._uf_force = None
        P._uf_depth = depth
        P._rollback(t)
    if famr is not None:
        if not isinstance(v, SymADT) or v.fam is not famr:
            raise InterpError(f'{info.qualname}: body value {v!r} is not a {famr.name}')
        eq = app == v.term
    elif rsort == BOOL:
        eq = app == as_z3bool(P.truthy(v))
    else:
        eq = app == as_z3int(as_int(v))
    if guard:
        eq = z3.Implies(z3.And(guard), eq)
    P.facts.append(eq)
    return res


# --------------------------------------------------------------------------- loop rule

_HEAP_METHODS = {'append', 'extend', 'add', 'update', 'pop', 'remove', 'insert', 'clear', 'setdefault', 'discard',
                 'sort', 'reverse', 'popitem'}


def _loop_index(info, st):
    loops = sorted([n for n in ast.walk(info.node) if isinstance(n, (ast.For, ast.While))],
                   key=lambda n: (n.lineno, n.col_offset))
    return loops.index(st)


def _assigned(body):
    out = set()
    for st in body:
        for n in ast.walk(st):
            if isinstance(n, ast.Name) and isinstance(n.ctx, (ast.Store, ast.Del)):
                out.add(n.id)
            elif isinstance(n, (ast.Attribute, ast.Subscript)) and isinstance(n.ctx, (ast.Store, ast.Del)):
                raise Unsupported(f'loop body writes to the heap at line {n.lineno} (loop rule handles locals only)')
            elif isinstance(n, ast.Call) and isinstance(n.func, ast.Attribute) and n.func.attr in _HEAP_METHODS:
                raise Unsupported(f'loop body calls mutator .{n.func.attr}() at line {n.lineno} (loop rule handles locals only)')
            elif isinstance(n, (ast.FunctionDef, ast.Lambda, ast.Global, ast.Nonlocal, ast.Yield, ast.YieldFrom)):
                raise Unsupported(f'loop body construct {type(n).__name__}')
    return out


def _target_names(t):
    return {n.id for n in ast.walk(t) if isinstance(n, ast.Name)}


def _pattern_names(body):
    """names bound by `case` patterns in the body (iteration-local temporaries)"""
    out = set()
    for st in body:
        for n in ast.walk(st):
            if isinstance(n, (ast.MatchAs, ast.MatchStar)) and n.name is not None:
                out.add(n.name)
            elif isinstance(n, ast.MatchMapping) and n.rest is not None:
                out.add(n.rest)
    return out


def _conforms(P, v, typ) -> bool:
    k = typ[0]
    if k == 'int':
        return is_intlike(v) and not is_boollike(v)
    if k == 'bool':
        return is_boollike(v)
    if k == 'none':
        return v is None
    if k == 'union':
        return any(_conforms(P, v, a) for a in typ[1])
    if k == 'obj':
        if family_of_type(P.ex, typ) is not None:
            return isinstance(v, SymADT)
        return isinstance(v, SObj) and v.cls is not None and P.index.is_subclass(v.cls, typ[1])
    if k == 'seq':
        return isinstance(v, (SymSeq, tuple, list))
    if k == 'opaque' and typ[1] == 'range':
        return isinstance(v, (SymRange, range))
    if k == 'opaque' and typ[1] == 'key':
        return isinstance(v, SymKey)
    return True


def has_invariant(P, st, fr) -> bool:
    """does the contract under verification give an invariant for this loop of its target?"""
    c = P.ex.current
    if c is None or not c.target or fr.fn is None or P.txns:
        return False
    tinfo = P.ex.index.find_function(c.target)
    if fr.fn is not tinfo:
        return False
    return f'inv{_loop_index(tinfo, st)}' in c.ci.methods


def loop_rule(P, st, it, fr):
    """
    `for x in it` (it: SymSeq | SymRange of symbolic length) or `while test` (it is None)
    in the function under verification, by the invariant `inv<k>` of the contract:

      inv-init[k.*]   inv(_i = 0) holds on entry
      havoc           variables assigned in the body get fresh values of their declared types
                      (`loop_types`), a fresh _i with 0 <= _i (<= len), inv(_i) is assumed
      (a) one more iteration: bind the target to element _i, run the body once
          (continue = end of body, break = leave the loop with the current state,
          return / raise = as usual, checked against the contract), then
          inv-step[k.*] = inv(_i + 1) is obliged and the path ENDS
      (b) no more iteration (_i == len / test false): the else-clause runs and execution
          continues after the loop under inv.
    """
    from .interp import MergeAbort, SymRaise, _Break, _Continue
    from .values import FuncV
    if P.txns:
        raise MergeAbort()
    ex = P.ex
    c = ex.current
    tinfo = ex.index.find_function(c.target) if (c is not None and c.target) else None
    if tinfo is None or fr.fn is not tinfo:
        where = fr.fn.qualname if fr.fn is not None else '?'
        raise Unsupported(f'loop over a symbolic sequence in {where}, which is not the function under verification '
                          '(give it a contract)')
    k = _loop_index(tinfo, st)
    invfn = c.ci.methods.get(f'inv{k}')
    if invfn is None:
        raise Unsupported(f'loop {k} of {c.short} (line {st.lineno}) iterates a symbolic sequence: contract needs inv{k}')
    ltypes = (c.loop_types or {}).get(k, {})
    assigned = _assigned(st.body)
    tnames = _target_names(st.target) if isinstance(st, ast.For) else set()
    # names bound by `case` patterns are iteration-local: unreadable until bound again
    tnames |= _pattern_names(st.body) - set(ltypes)
    missing = sorted(assigned - tnames - set(ltypes))
    if missing:
        raise Unsupported(f'loop {k} of {c.short}: loop_types[{k}] lacks the assigned variables {missing}')
    short = c.short
    modname = tinfo.module.name

    def eval_inv(i):
        kw = {}
        for a in invfn.node.args.args:
            n = a.arg
            if n == '_i':
                kw[n] = i
            elif n == 'self' and 'self' not in fr.locals:
                kw[n] = None
            else:
                try:
                    kw[n] = P.lookup_name(n, fr)
                except SymRaise:
                    raise InterpError(f'inv{k} of {c.name}: no variable {n} in scope at the loop')
        try:
            r = P.call_function(FuncV(invfn), [], kw, force_inline=True)
        except SymRaise as e:
            raise InterpError(f'inv{k} of {c.name} raised {e.exc.name} ({e.where})')
        if not isinstance(r, dict):
            raise InterpError(f'inv{k} of {c.name} must return a dict of named clauses')
        return r

    # values assigned before the loop must conform to their declared types
    for n, ts in ltypes.items():
        if n in fr.locals:
            t = ex.types.parse_str(ts, modname, tinfo.cls)
            v = P.lookup_name(n, fr)
            if not _conforms(P, v, t):
                raise InterpError(f'loop {k} of {c.short}: {n}={v!r} does not have the declared type {ts}')
    for name, cond in eval_inv(0).items():
        P.oblige(f'{short}#inv-init[{k}.{name}]', 'inv', P.truthy(cond))
    # havoc
    for n in sorted(assigned & set(ltypes)):
        t = ex.types.parse_str(ltypes[n], modname, tinfo.cls)
        P.write(fr.locals, n, P.fresh(t, P.fresh_name(n)))
    for tn in tnames:
        if tn not in ltypes:
            P.write(fr.locals, tn, Opaque(f'loop-local {tn} read before it is bound in this iteration'))
    i = z3.Int(P.fresh_name('_i'))
    P.assume(i >= 0, fact=True)
    if it is not None:
        n_ = as_z3int(seq_len(P, it))
        P.assume(i <= n_, fact=True)
    for name, cond in eval_inv(i).items():
        P.assume(P.truthy(cond), fact=True)
    if it is not None:
        more = P.branch(simp(i < n_), f'loop{k}:iterate')
    else:
        more = P.branch(P.truthy(P.ev(st.test, fr)), f'loop{k}:test')
    if more:
        if it is not None:
            P.assign(st.target, it.at(P, i), fr)
        try:
            P.exec_block(st.body, fr)
        except _Break:
            return
        except _Continue:
            pass
        # the values now held must conform to the declared types (they were havoc'd at these types)
        for n, ts in ltypes.items():
            if n in fr.locals:
                t = ex.types.parse_str(ts, modname, tinfo.cls)
                v = P.lookup_name(n, fr)
                if not _conforms(P, v, t):
                    raise InterpError(f'loop {k} of {c.short}: {n}={v!r} does not have the declared type {ts}')
        for name, cond in eval_inv(simp(i + 1)).items():
            P.oblige(f'{short}#inv-step[{k}.{name}]', 'inv', P.truthy(cond))
        raise PathEnd()
    for tn in tnames:
        if tn not in ltypes:
            P.write(fr.locals, tn, Opaque(f'loop target {tn} after the loop'))
    P.exec_block(st.orelse, fr)


# --------------------------------------------------------------------------- models -> JSON

def _ev(model, t):
    v = model.eval(t, model_completion=True)
    if z3.is_int_value(v):
        return v.as_long()
    if z3.is_true(v):
        return True
    if z3.is_false(v):
        return False
    return v


def _key_json(model, t):
    """an opaque key as a small real BlockPath, distinct model values -> distinct paths"""
    v = model.eval(t, model_completion=True)
    s = str(v)
    digits = ''.join(ch for ch in s if ch.isdigit())
    n = int(digits) if digits else 0
    if n == 0:
        return {'$obj': 'fpy2.transform.path:FuncBody', 'fields': {}}
    return {'$obj': 'fpy2.transform.path:SubBlock', 'fields': {
        'parent': {'$obj': 'fpy2.transform.path:StmtPath', 'fields': {
            'parent': {'$obj': 'fpy2.transform.path:FuncBody', 'fields': {}}, 'index': n - 1}},
        'field': 'body'}}


def adt_json(fam, v):
    """a datatype model value as nested $obj JSON (replay rebuilds the frozen dataclasses)"""
    d = v.decl()
    for c in fam.ctors:
        if d.eq(c.decl):
            kids = list(v.children())
            pos = [0]

            def build(e):
                k = e[0]
                if k == 'rec':
                    return {'$obj': e[1].qualname, 'fields': {n: build(se) for n, se in e[2]}}
                x = kids[pos[0]]
                pos[0] += 1
                if k == 'int':
                    return x.as_long()
                if k == 'str':
                    return code_str(x.as_long())
                return adt_json(fam, x)
            return {'$obj': c.ci.qualname, 'fields': {n: build(e) for n, e in c.layout}}
    raise ValueError(f'not a {fam.name} value: {v}')


MAX_REPLAY_LEN = 40


def entry_hook(cz, typ, name, depth):
    """Concretizer.entry for the types of this module"""
    k = typ[0]
    m = cz.model
    if k == 'seq':
        cur = cz.ex.current
        fixed = (cur.opts.get('seq_len', {}) if cur is not None else {}).get(name)
        kind = typ[2] if len(typ) > 2 else 'tuple'
        if fixed is not None:
            items = [cz.entry(typ[1], f'{name}[{i}]', depth + 1) for i in range(fixed)]
        else:
            n = _ev(m, z3.Int(name + '#len'))
            if n > MAX_REPLAY_LEN:
                raise ValueError(f'model sequence {name} too long to replay ({n})')
            items = [_entry_sel(cz, typ[1], name + '[]', i, depth + 1) for i in range(n)]
        return items if kind == 'list' else {'$tuple': items}
    if k == 'opaque' and typ[1] == 'key':
        return _key_json(m, z3.Const(name, KEY))
    if k == 'opaque' and typ[1] == 'range':
        return {'$range': [_ev(m, z3.Int(name + '.start')), _ev(m, z3.Int(name + '.stop'))]}
    if k in ('obj', 'union'):
        r = family_of_type(cz.ex, typ)
        if r is not None:
            fam = r[0]
            return adt_json(fam, m.eval(z3.Const(name, fam.sort), model_completion=True))
    return NOT_HANDLED


def _entry_sel(cz, typ, prefix, i, depth):
    ov = cz.ex.overrides.get(prefix)
    if ov is not None:
        typ = ov
    m = cz.model
    k = typ[0]
    if k == 'int':
        return _ev(m, z3.Select(z3.Array(prefix, INT, INT), i))
    if k == 'bool':
        return _ev(m, z3.Select(z3.Array(prefix, INT, BOOL), i))
    if k == 'none':
        return None
    if k == 'frac':
        q = m.eval(z3.Select(z3.Array(prefix, INT, z3.RealSort()), i), model_completion=True)
        return {'$frac': [q.numerator_as_long(), q.denominator_as_long()]}
    if k == 'str':
        return code_str(_ev(m, z3.Select(z3.Array(prefix, INT, INT), i)))
    if k == 'opaque' and typ[1] == 'key':
        return _key_json(m, z3.Select(z3.Array(prefix, INT, KEY), i))
    if k == 'opaque' and typ[1] == 'range':
        return {'$range': [_ev(m, z3.Select(z3.Array(prefix + '.start', INT, INT), i)),
                           _ev(m, z3.Select(z3.Array(prefix + '.stop', INT, INT), i))]}
    if k == 'enum':
        ci = typ[1]
        members = cz.ex.index.enum_members(ci)
        idx = _ev(m, z3.Select(z3.Array(prefix, INT, INT), i))
        idx = min(max(idx, 0), len(members) - 1)
        return {'$enum': ci.qualname, 'member': members[idx][0]}
    if k in ('obj', 'union'):
        r = family_of_type(cz.ex, typ)
        if r is not None:
            fam = r[0]
            return adt_json(fam, m.eval(z3.Select(z3.Array(prefix, INT, fam.sort), i), model_completion=True))
    if k == 'obj':
        ci = typ[1]
        if depth > 6:
            return None
        fields = {}
        for f, (owner, ann) in cz.ex.index.fields(ci).items():
            ft = cz.ex.types.parse(ann, owner.module.name, ci)
            fields[f] = _entry_sel(cz, ft, f'{prefix}.{f}', i, depth + 1)
        return {'$obj': ci.qualname, 'fields': fields}
    if k == 'union':
        alts = typ[1]
        t = _ev(m, z3.Select(z3.Array(prefix + '#tag', INT, INT), i))
        t = min(max(t, 0), len(alts) - 1)
        return _entry_sel(cz, alts[t], prefix, i, depth)
    if k == 'tuple':
        return {'$tuple': [_entry_sel(cz, t, f'{prefix}.{j}', i, depth) for j, t in enumerate(typ[1])]}
    return {'$opaque': f'{prefix}[{i}]'}


def value_hook(cz, v, depth):
    """Concretizer.value for the value kinds of this module (current, not entry, values)"""
    m = cz.model
    if isinstance(v, SymADT):
        return adt_json(v.fam, m.eval(v.term, model_completion=True))
    if isinstance(v, SymKey):
        return _key_json(m, v.term)
    if isinstance(v, SymStr):
        return code_str(_ev(m, v.term))
    if isinstance(v, SymRange):
        return {'$range': [cz.value(v.start, depth), cz.value(v.stop, depth)]}
    if isinstance(v, SymSeq):
        n = _ev(m, v.length)
        if n > MAX_REPLAY_LEN:
            raise ValueError(f'model sequence {v.name} too long to replay ({n})')
        items = [_entry_sel(cz, v.elem, v.name + '[]', i, depth + 1) for i in range(n)]
        return items if v.kind == 'list' else {'$tuple': items}
    return NOT_HANDLED


def len_bounds(P, B):
    """extra constraints for the bounded counter-model search: keep sequences short"""
    return [s.length <= max(4, B // 2) for s in getattr(P, 'seqs', [])]


# --------------------------------------------------------------------------- message text (not modelled)

def is_message_join(node) -> bool:
    """`'sep'.join(<comprehension>)`: text of an exception message.  Like f-strings it is not
    evaluated (evidence assumption: 'exception messages, f-strings, repr and logging are not modelled')."""
    f = node.func
    return (isinstance(f, ast.Attribute) and f.attr == 'join' and isinstance(f.value, ast.Constant)
            and isinstance(f.value.value, str) and len(node.args) == 1 and not node.keywords
            and isinstance(node.args[0], (ast.GeneratorExp, ast.ListComp)))


_STR_TAGS = ('fstring', 'str', 'repr')


def opaque_binop(op, a, b):
    def strlike(x):
        return isinstance(x, str) or (isinstance(x, Opaque) and (x.tag in _STR_TAGS or x.tag.endswith(':str')))
    if op is ast.Add and strlike(a) and strlike(b):
        return Opaque('str')
    raise Unsupported(f'binop {op.__name__} on opaque values {a!r}, {b!r}')


# --------------------------------------------------------------------------- termination measures

def lex_less(P, new, old):
    """new < old in the lexicographic order of measure tuples.  Components: ints (0 <= new < old)
    or values of a structural value type (new is an immediate sub-term of old: well-founded,
    the values are finite trees)."""
    if not isinstance(new, tuple):
        new = (new,)
    if not isinstance(old, tuple):
        old = (old,)
    if len(new) != len(old) or not new:
        raise InterpError('decreases: measures must be tuples of the same non-zero length')

    def less(a, b):
        if isinstance(a, SymADT) and isinstance(b, SymADT) and a.fam is b.fam:
            alts = []
            for c in b.fam.ctors:
                for an, acc in c.acc.items():
                    if acc.range() == b.fam.sort:
                        alts.append(z3.And(c.recog(b.term), a.term == acc(b.term)))
            return z3.Or(alts) if alts else z3.BoolVal(False)
        if is_intlike(a) and is_intlike(b):
            return z3.And(as_z3int(a) >= 0, as_z3int(a) < as_z3int(b))
        raise InterpError(f'decreases: cannot compare {a!r} and {b!r}')

    def eq(a, b):
        r = P.equal(a, b)
        return as_z3bool(P.truthy(r))

    goal = z3.BoolVal(False)
    for i in range(len(new) - 1, -1, -1):
        goal = z3.Or(less(new[i], old[i]), z3.And(eq(new[i], old[i]), goal)) if i < len(new) - 1 else less(new[i], old[i])
    return simp(goal)


def apply_alias(args: dict, dst: str, src: str):
    """counterexample JSON: make the input field `dst` refer to the object `src` (contract `aliases`)"""
    def walk(path):
        parts = path.split('.')
        v = args[parts[0]]
        for p in parts[1:]:
            v = v['fields'][p]
        return v
    target = walk(src)
    if not isinstance(target, dict) or 'id' not in target:
        return
    base, _, fld = dst.rpartition('.')
    holder = walk(base)
    if isinstance(holder, dict) and 'fields' in holder:
        holder['fields'][fld] = {'$ref': target['id']}
