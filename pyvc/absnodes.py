"""
Abstract nodes (property C07): opaque keys (`containers.SymKey`) that stand for AST nodes / SSA
definitions whose *run-time class is symbolic* and whose attributes are abstract.

  class of a key      `clsof#K : Key_K -> Int` indexes the CLOSED WORLD of classes that a key declared
                      `Key[K]` can have: K itself (or, for a type alias `K = A | B`, its alternatives)
                      and every subclass defined in the modules that define them.  Every object has
                      exactly one class, so `isinstance(k, C)` is the disjunction over the world
                      members below C (decided concretely when all / none are).  Out-of-range values
                      of the uninterpreted function are folded onto member 0: no assumption is needed.
  attributes          contract option  key_attrs = {'K.attr': 'T'}  or  {'K.attr': 'Guard -> T'}:
                      `k.attr` is the uninterpreted function `attr#K.attr(k)` of result type T
                      (Key[..], int, bool); with a guard class the access raises AttributeError
                      unless isinstance(k, Guard) (only the named class is known to have the field).
                      Spec code uses the total accessors `key_attr(k, 'attr')` / `key_isa(k, 'C')`.
  maps                `dict[Key[K], set[Key[U]]]` and `dict[Key[K], Key[V]]` value types for
                      containers.SymMap (membership `<name>#mem(k, u)`; value `<name>#val(k)`),
                      `len(set)`, truthiness of a symbolic map / set, `map.items()` in the loop rule,
                      `seq[i]` on a KeySeq, typed empty locals (contract option local_types).

Hooked from interp.py / intrinsics.py / containers.py on lines marked `# absnodes`.
"""
from __future__ import annotations

import ast

import z3

from . import containers
from .containers import SymKey, SymMap, SymSet, SymKeySeq, key_sort, _b
from .values import InterpError, Unsupported, as_z3bool, as_z3int, is_boollike, is_intlike, is_z3, simp


# ------------------------------------------------------------------ classes

def _alts(P, kname):
    """the classes a key declared Key[kname] may be an instance of (alias -> alternatives)"""
    cache = P.ex.__dict__.setdefault('_absn_alts', {})
    if kname in cache:
        return cache[kname]
    r = P.ex.types._lookup(kname, None)
    out = None
    if r is not None and r[0] == 'class':
        out = [r[1]]
    elif r is not None and r[0] == 'assign':
        t = P.ex.types.parse(r[2], r[1].name)
        alts = t[1] if t[0] == 'union' else (t,)
        if all(a[0] == 'obj' for a in alts):
            out = [a[1] for a in alts]
    cache[kname] = out
    return out


def world(P, kname):
    """closed world of classes of a Key[kname]: alternatives and their subclasses (same modules)"""
    cache = P.ex.__dict__.setdefault('_absn_world', {})
    if kname in cache:
        return cache[kname]
    alts = _alts(P, kname)
    if alts is None:
        raise Unsupported(f'Key[{kname}]: {kname} is neither a class nor an alias of classes')
    out = []
    mods = []
    for a in alts:
        if a.module not in mods:
            mods.append(a.module)
    for m in mods:
        for ci in m.classes.values():
            if ci not in out and any(P.index.is_subclass(ci, a) for a in alts):
                out.append(ci)
    for a in alts:
        if a not in out:
            out.append(a)
    out.sort(key=lambda c: c.qualname)
    cache[kname] = out
    return out


def cls_index(P, key: SymKey):
    w = world(P, key.kname)
    f = z3.Function(f'clsof#{key.kname}', key_sort(key.kname), z3.IntSort())
    n = f(key.term)
    return z3.If(z3.And(n >= 0, n < len(w)), n, 0), w


def key_isinstance(P, key: SymKey, ci):
    """isinstance(key, ci): True / False / z3 Bool"""
    w = world(P, key.kname)
    below = [i for i, c in enumerate(w) if P.index.is_subclass(c, ci)]
    if len(below) == len(w):
        return True
    if not below:
        return False
    n, _ = cls_index(P, key)
    return simp(z3.Or([n == i for i in below]))


def key_isa(P, key, cname):
    """spec: is the key an instance of the class called `cname` (total, no fork)"""
    if not isinstance(key, SymKey):
        if key is None:
            return False
        raise Unsupported(f'key_isa on {key!r}')
    w = world(P, key.kname)
    cis = [c for c in w if c.name == cname]
    if not cis:
        r = P.ex.types._lookup(cname, None)
        if r is None or r[0] != 'class':
            raise InterpError(f'key_isa: unknown class {cname}')
        cis = [r[1]]
    return key_isinstance(P, key, cis[0])


# --------------------------------------------------------------- attributes

def _attr_spec(P, kname, attr):
    c = P.ex.current
    table = (c.opts.get('key_attrs') if c is not None else None) or {}
    if isinstance(table, str):
        # 'module:NAME' of a literal dict shared by several contracts
        cache = P.ex.__dict__.setdefault('_absn_tables', {})
        if table not in cache:
            mod, _, nm = table.partition(':')
            r = P.index.lookup(mod, nm)
            if r is None or r[0] != 'assign':
                raise InterpError(f'key_attrs: no literal dict {table}')
            cache[table] = ast.literal_eval(r[2])
        table = cache[table]
    s = table.get(f'{kname}.{attr}')
    if s is None:
        raise Unsupported(f'attribute {attr} of an abstract Key[{kname}] (declare it in options.key_attrs)')
    guard = None
    if '->' in s:
        guard, _, s = s.partition('->')
        guard = guard.strip()
    return guard, P.ex.types.parse_str(s.strip())


def _attr_value(P, key, attr, typ):
    s = key_sort(key.kname)
    nm = f'attr#{key.kname}.{attr}'
    if typ[0] == 'key':
        return SymKey(z3.Function(nm, s, key_sort(typ[1]))(key.term), typ[1])
    if typ[0] == 'int':
        return z3.Function(nm, s, z3.IntSort())(key.term)
    if typ[0] == 'bool':
        return z3.Function(nm, s, z3.BoolSort())(key.term)
    if typ[0] == 'str':
        from .values import Opaque
        return Opaque('str')        # text of a string attribute: not modelled (equal to nothing that is modelled)
    raise Unsupported(f'key attribute {key.kname}.{attr} of type {typ}')


def key_getattr(P, key: SymKey, attr):
    """code: `key.attr` with the AttributeError branch of a guarded attribute"""
    from .interp import SymRaise, mk_exc
    guard, typ = _attr_spec(P, key.kname, attr)
    if guard is not None:
        g = key_isa(P, key, guard)
        if g is not True:
            if g is False or not P.branch(g, f'{key.kname}.{attr} exists'):
                raise SymRaise(mk_exc('AttributeError'), f'{key.kname}.{attr}')
    return _attr_value(P, key, attr, typ)


def key_attr(P, key, attr):
    """spec: total attribute access (no guard, no fork)"""
    if not isinstance(key, SymKey):
        raise Unsupported(f'key_attr on {key!r}')
    if not isinstance(attr, str):
        raise InterpError('key_attr(k, name): name must be a string literal')
    _, typ = _attr_spec(P, key.kname, attr)
    return _attr_value(P, key, attr, typ)


# --------------------------------------------------------------------- maps

def value_type_ok(vt):
    return vt[0] in ('key', 'set')


def fresh_map(P, typ, name):
    """input map with set / key values"""
    ks = key_sort(typ[1])
    vt = typ[2]
    pf = z3.Function(name + '#in', ks, z3.BoolSort())
    if vt[0] == 'set':
        mf = z3.Function(name + '#mem', ks, key_sort(vt[1]), z3.BoolSort())
        return SymMap(lambda t: pf(t), lambda t: SymSet(lambda u: mf(t, u), vt[1]), typ[1], vt, name)
    if vt[0] == 'key':
        vf = z3.Function(name + '#val', ks, key_sort(vt[1]))
        return SymMap(lambda t: pf(t), lambda t: vf(t), typ[1], vt, name)
    raise Unsupported(f'map value type {vt}')


def empty_map(typ):
    vt = typ[2]
    if vt[0] == 'key':
        dflt = z3.Const(f'nokey#{vt[1]}', key_sort(vt[1]))
        return SymMap(lambda x: z3.BoolVal(False), lambda x: dflt, typ[1], vt)
    if vt[0] == 'set':
        return SymMap(lambda x: z3.BoolVal(False), lambda x: containers.empty_set(vt[1]), typ[1], vt)
    return containers.empty_map(typ[1], vt)


def wrap_value(m: SymMap, v):
    if m.vtyp[0] == 'key':
        return SymKey(simp(v), m.vtyp[1])
    if m.vtyp[0] == 'set':
        return v
    return simp(v)


def coerce_value(m: SymMap, v):
    if m.vtyp[0] == 'key':
        if isinstance(v, SymKey) and v.kname == m.vtyp[1]:
            return v.term
        raise Unsupported(f'value {v!r} stored in a map with Key[{m.vtyp[1]}] values')
    raise Unsupported(f'store into a map with values of type {m.vtyp}')


def as_symset(v):
    """a set-like symbolic value as a SymSet (a row of a ufmaps.SymRelMap: its content now)"""
    if type(v).__name__ == 'SymRow':
        mem, key = v.rel.member, v.key
        return SymSet(lambda u: mem(key, u), v.kname)
    return v


def set_map_has(P, m, k, u):
    """spec: k in m and u in m[k], total"""
    if type(m).__name__ == 'SymRelMap':   # dict[Key[K], set[Key[K]]] is a ufmaps relation map
        t = containers._kterm(m, k)
        return simp(z3.And(_b(m.present(t)), _b(m.member(t, containers._kterm(m, u)))))
    if not (isinstance(m, SymMap) and m.vtyp[0] == 'set'):
        raise Unsupported(f'set_map_has on {m!r}')
    t = containers._kterm(m, k)
    s = m.value(t)
    return simp(z3.And(_b(m.present(t)), _b(s.member(containers._kterm(s, u)))))


def map_val(P, m, k):
    """spec: m[k] without the KeyError branch (unspecified value when absent)"""
    if not isinstance(m, SymMap):
        raise Unsupported(f'map_val on {m!r}')
    return wrap_value(m, m.value(containers._kterm(m, k)))


def set_len(P, s: SymSet):
    """len(s) = n >= 0 with  n == 0 <=> s is empty  and  n >= 2 <=> s has two distinct members
    (witness constants for the existential directions; the cardinality of a finite set satisfies all of it)"""
    n = z3.Int(P.fresh_name('len#set'))
    ks = key_sort(s.kname)
    w = z3.Const(P.fresh_name('len#wit'), ks)
    w1 = z3.Const(P.fresh_name('len#wit1'), ks)
    w2 = z3.Const(P.fresh_name('len#wit2'), ks)
    x = z3.Const('k!len', ks)
    y = z3.Const('k!len2', ks)
    mem = lambda t: _b(s.member(t))
    P.assume(z3.And(n >= 0, mem(w) == (n > 0),
                    z3.ForAll([x], z3.Implies(mem(x), n > 0)),
                    z3.And(mem(w1), mem(w2), w1 != w2) == (n >= 2),
                    z3.ForAll([x, y], z3.Implies(z3.And(mem(x), mem(y), x != y), n >= 2))), fact=True)
    return n


def map_get(P, m: SymMap, args):
    """code: m.get(k[, default]) on a map with key / set values: forks on the presence of k (exact)"""
    t = containers._kterm(m, args[0])
    if P.branch(simp(_b(m.present(t))), 'get-present'):
        return wrap_value(m, m.value(t))
    return args[1] if len(args) == 2 else None


def truthy(P, c):
    x = z3.Const('k!nonempty', key_sort(c.kname))
    if isinstance(c, SymMap):
        return simp(z3.Exists([x], _b(c.present(x))))
    if isinstance(c, SymSet):
        return simp(z3.Exists([x], _b(c.member(x))))
    if isinstance(c, SymKeySeq):
        return simp(c.length > 0)
    raise Unsupported(f'truthiness of {c!r}')


def kseq_getitem(P, seq: SymKeySeq, i):
    from .interp import SymRaise, mk_exc
    if not is_intlike(i) or is_boollike(i):
        raise Unsupported(f'index {i!r} into a KeySeq')
    i = as_z3int(i)
    n = seq.length
    if not P.branch(simp(z3.And(i >= -n, i < n)), 'index-in-range'):
        raise SymRaise(mk_exc('IndexError'))
    return SymKey(simp(seq.at(z3.If(i < 0, i + n, i))), seq.kname)


class SymItems:
    """`m.items()` of a symbolic map: only iterated by the loop rule (targets `k, v`)"""
    __slots__ = ('map',)

    def __init__(self, m):
        self.map = m


# ------------------------------------------------------------ typed locals

def typed_empty_local(P, st, v, fr):
    """`x: T = {}` / `= set()` in the target: contract option local_types = {'x': 'dict[Key[K], ...]'}
    (else the annotation itself) makes the fresh empty literal an empty symbolic container"""
    if not (isinstance(v, (dict, set, list)) and not v and isinstance(st.target, ast.Name)):
        return v
    c = P.ex.current
    info = fr.fn
    if c is None or info is None or info.qualname != c.target:
        return v
    lt = (c.opts.get('local_types') or {}).get(st.target.id)
    if lt is None:
        return v
    typ = P.ex.types.parse_str(lt, fr.module.name)
    if typ[0] == 'map' and isinstance(v, dict):
        m = empty_map(typ)
        containers._register_fresh(P, m)
        return m
    if typ[0] == 'set' and isinstance(v, list):   # zipseqs: append-only list abstracted by its element set
        from . import zipseqs
        return zipseqs.empty_bag(P, typ)
    if typ[0] == 'set' and isinstance(v, set):
        s = containers.empty_set(typ[1])
        containers._register_fresh(P, s)
        return s
    raise InterpError(f'local_types[{st.target.id}] = {lt}: not a map/set type matching the literal')


# ------------------------------------------------------- Fraction(float)

def fraction_of_float(P, x):
    """Fraction(x) for a symbolic binary64 x: ValueError for NaN, OverflowError for an infinity, else the exact
    value (-1)^s * c * 2^exp of the IEEE 754 layout.  The value is written with the spec vocabulary of
    spec/c05.py (t_val_q(trip(x)): f64_sign / f64_exp / f64_c), so specs about the same float share its terms."""
    from .interp import SymRaise, mk_exc
    e = (x.bits / (1 << 52)) % 2048
    m = x.bits % (1 << 52)
    if P.branch(simp(z3.And(e == 2047, m != 0)), 'Fraction(nan)'):
        raise SymRaise(mk_exc('ValueError'), 'Fraction(nan)')
    if P.branch(simp(e == 2047), 'Fraction(inf)'):
        raise SymRaise(mk_exc('OverflowError'), 'Fraction(inf)')
    trip = P.global_value('spec.c05', 'trip')
    tval = P.global_value('spec.c05', 't_val_q')
    return P.call(tval, [P.call(trip, [x], {})], {})


# ------------------------------------------------- any(... for x in <symbolic set>)

class SymSetImage:
    """a generator expression `elt(x) for x in S` over a symbolic set: only consumed by any() / all()"""
    __slots__ = ('set', 'fn')

    def __init__(self, s, fn):
        self.set = s
        self.fn = fn


def comp_over_symset(P, node, fr, it):
    """hook of interp._comp: a single generator without conditions over a symbolic set"""
    if len(node.generators) != 1 or node.generators[0].ifs or not isinstance(node.generators[0].target, ast.Name):
        raise Unsupported('comprehension over a symbolic set (only `f(x) for x in S` inside any()/all())')
    g = node.generators[0]
    from .interp import Frame

    def fn(key):
        inner = Frame(fr.module, fr.fn, fr.cls, parent=fr)
        P.new_dict(inner.locals)
        inner.locals[g.target.id] = key
        return P.truthy(P.ev(node.elt, inner))
    return SymSetImage(it, fn)


def _quant_image(P, img, exists):
    from .interp import MergeAbort
    s = img.set
    P.counter += 1
    x = z3.Const(f'k!any{P.counter}', key_sort(s.kname))
    saved = P.merge_inner
    top = not P.txns
    if top:
        P.merge_inner = None
    t = P._begin()
    try:
        try:
            v = img.fn(SymKey(x, s.kname))
        except MergeAbort:
            raise Unsupported('any()/all() over a symbolic set: the element expression forks or has side effects')
    finally:
        P._rollback(t)
        if top:
            P.merge_inner = saved
    v = as_z3bool(v) if not isinstance(v, bool) else z3.BoolVal(v)
    if exists:
        return simp(z3.Exists([x], z3.And(_b(s.member(x)), v)))
    return simp(z3.ForAll([x], z3.Implies(_b(s.member(x)), v)))


def any_image(P, img):
    return _quant_image(P, img, True)


def all_image(P, img):
    return _quant_image(P, img, False)


# ------------------------------------------------------- while-loop rule

def _while_loops(fn_node):
    ws = [n for n in ast.walk(fn_node) if isinstance(n, ast.While)]
    ws.sort(key=lambda n: (n.lineno, n.col_offset))
    return ws


def _while_inv(P, st, fr):
    c = P.ex.current
    info = fr.fn
    if c is None or info is None or info.qualname != c.target or P.txns:
        return None, None
    ws = _while_loops(info.node)
    if st not in ws:
        return None, None
    idx = ws.index(st)
    return c.ci.methods.get(f'winv{idx}'), idx


def has_while_invariant(P, st, fr):
    return _while_inv(P, st, fr)[0] is not None


def while_rule(P, st, fr):
    """
    `while cond: body` in the target with the contract's invariant winv<k>(<locals in scope at the loop>[, old]):
      winv-init : the invariant holds on entry
      then      : havoc every location the body assigns (syntactic targets; contract options
                  while_types = {k: {'self.f': 'T'}} re-types a havoced field, while_binds = {k: {'a.b': 'c.d'}} makes a
                  havoced field the SAME object as another path), assume the invariant, decide cond:
      winv-step : cond holds: run the body once, prove the invariant (the path ends); `return` / `raise` leave normally
      exit      : cond fails: continue after the loop
    """
    import types as _types
    from .interp import _Break, _Continue, Lazy
    from .containers import _Havoc, LoopStepDone
    ex = P.ex
    c = ex.current
    inv, idx = _while_inv(P, st, fr)
    if st.orelse:
        raise Unsupported('while rule: while-else')
    short = c.short
    shim = _types.SimpleNamespace(body=st.body, target=ast.Tuple(elts=[], ctx=ast.Store()))
    hv = _Havoc(P, fr, shim, (c.opts.get('while_modifies') or {}).get(idx, []))

    def clauses():
        b = {k: v for k, v in fr.locals.items() if not k.startswith('#')}
        for k in list(b):
            if isinstance(b[k], Lazy):
                b[k] = fr.locals[k] = P.force(b[k])
        names = [a.arg for a in inv.node.args.args]
        miss = [n for n in names if n not in ('old', 'self') and n not in b]
        if miss:
            raise InterpError(f'{inv.qualname}: parameters {miss} are not locals in scope at the loop')
        return ex._call_spec(P, inv, b, {'old': getattr(P, 'old', None)})

    for k, cond in clauses().items():
        P.oblige(f'{short}#winv{idx}-init[{k}]', 'inv', P.truthy(cond))
    tag = f'while{idx}'
    hv.apply(tag)
    for path, tstr in ((c.opts.get('while_types') or {}).get(idx, {})).items():
        node = ast.parse(path, mode='eval').body
        o = P.ev(node.value, fr)
        o.fields[node.attr] = P.fresh(ex.types.parse_str(tstr, fr.module.name), P.fresh_name(f'{path}@{tag}'))
    for path, src in ((c.opts.get('while_binds') or {}).get(idx, {})).items():
        node = ast.parse(path, mode='eval').body
        o = P.ev(node.value, fr)
        o.fields[node.attr] = P.ev(ast.parse(src, mode='eval').body, fr)
    for k, cond in clauses().items():
        P.assume(P.truthy(cond), fact=True)
    if not P.branch(P.truthy(P.ev(st.test, fr)), f'{tag}-cond'):
        return
    prev = P.loop_guard
    P.loop_guard = {'allowed': hv.allowed(), 'fresh': set(), 'keep': []}
    try:
        try:
            P.exec_block(st.body, fr)
        except _Continue:
            pass
        except _Break:
            raise Unsupported('while rule: break')
    finally:
        P.loop_guard = prev
    for k, cond in clauses().items():
        P.oblige(f'{short}#winv{idx}-step[{k}]', 'inv', P.truthy(cond))
    raise LoopStepDone()


class CompOverSymSet(Exception):
    """control: a comprehension over a symbolic set evaluates to a SymSetImage"""
    def __init__(self, image):
        self.image = image
