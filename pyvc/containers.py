"""
Symbolic containers (property C15): opaque hashable keys, dicts and sets with
symbolic content, quantification over keys and a loop rule with invariants.

  ('key', 'NamedId')        SymKey: constant of an uninterpreted z3 sort; `==` is z3 equality
                            (assumes the class's __eq__/__hash__ are a consistent equivalence).
  ('map', ktype, vtype)     SymMap: a *mutable* dict object represented by two closures
                            present(k) -> Bool and value(k) -> scalar.  A fresh input map is built
                            from uninterpreted functions `<name>#in`, `<name>#val`.
  ('set', ktype)            SymSet: mutable set, one closure member(k) -> Bool (`<name>#in`).
  ('kseq', ktype)           SymKeySeq: immutable symbolic-length sequence of keys
                            (`<name>#at`: Int -> key, `<name>#len` >= 0); only iterated by the loop rule.

Exact dict semantics: `k in m`, `m[k]` (KeyError when absent), `m[k] = v`, `m.copy()`,
`m.get(k, d)`, `m.keys()`, `a | b`, `s.add(k)`, `k in s`.  Anything else is Unsupported.

Everything that other modules need is reached through the few dispatch lines
marked `# containers` in interp.py / intrinsics.py / engine.py / refute.py.
"""
from __future__ import annotations

import ast

import z3

from .values import (InterpError, Lazy, SObj, Unsupported, as_z3bool, as_z3int, is_boollike,
                     is_intlike, is_sym_bool, is_z3, simp)


# ------------------------------------------------------------------ values

def key_sort(kname: str):
    return z3.DeclareSort('Key_' + kname)


class SymKey:
    __slots__ = ('term', 'kname')

    def __init__(self, term, kname):
        self.term = term
        self.kname = kname

    def __repr__(self):
        return f'<key {self.kname} {self.term}>'


class SymMap:
    __slots__ = ('present', 'value', 'kname', 'vtyp', 'name')

    def __init__(self, present, value, kname, vtyp, name=None):
        self.present = present
        self.value = value
        self.kname = kname
        self.vtyp = vtyp
        self.name = name

    def clone(self):
        return SymMap(self.present, self.value, self.kname, self.vtyp, self.name)

    def __repr__(self):
        return f'<symmap {self.name or hex(id(self))}: {self.kname}>'


class SymSet:
    __slots__ = ('member', 'kname', 'name')

    def __init__(self, member, kname, name=None):
        self.member = member
        self.kname = kname
        self.name = name

    def clone(self):
        return SymSet(self.member, self.kname, self.name)

    def __repr__(self):
        return f'<symset {self.name or hex(id(self))}: {self.kname}>'


class SymKeySeq:
    __slots__ = ('at', 'length', 'kname', 'name')

    def __init__(self, at, length, kname, name=None):
        self.at = at
        self.length = length
        self.kname = kname
        self.name = name

    def clone(self):
        return self

    def __repr__(self):
        return f'<symkeyseq {self.name}: {self.kname}>'


SYM = (SymMap, SymSet, SymKeySeq)
MUTABLE = (SymMap, SymSet)


class LoopStepDone(Exception):
    """control: the path that proves preservation of a loop invariant ends here"""


# ------------------------------------------------------------------- types

def key_name_of(t):
    """key-sort name of a type descriptor usable as dict key, or None"""
    if t[0] == 'key':
        return t[1]
    if t[0] == 'obj':
        return t[1].name
    return None


def parse_generic(parser, bname, elts, P):
    """type descriptors for Key[X], dict[K, V], set[K]; None = not ours"""
    if bname == 'Key' and len(elts) == 1 and isinstance(elts[0], ast.Name):
        return ('key', elts[0].id)
    if bname == 'KeySeq' and len(elts) == 1 and isinstance(elts[0], ast.Name):
        return ('kseq', elts[0].id)
    if bname == 'PairSeq' and len(elts) == 1 and isinstance(elts[0], ast.Name):   # zipseqs: tuple[tuple[str, K], ...]
        return ('kseq', elts[0].id, 'pairs')
    if bname in ('dict', 'Dict', 'Mapping') and len(elts) == 2:
        from . import ufmaps   # ufmaps: key-valued maps, dict[K, set[K]]
        r = ufmaps.parse_generic(bname, elts, P)
        if r is not None:
            return r
        kn = key_name_of(P(elts[0]))
        vt = P(elts[1])
        if kn is not None and vt[0] in ('bool', 'int', 'key', 'set'):   # absnodes: key / set values
            return ('map', kn, vt)
        return None
    if bname in ('set', 'Set', 'frozenset') and len(elts) == 1:
        kn = key_name_of(P(elts[0]))
        if kn is not None:
            return ('set', kn)
        return None
    return None


def _vsort(vtyp):
    if vtyp[0] == 'bool':
        return z3.BoolSort()
    if vtyp[0] == 'int':
        return z3.IntSort()
    if vtyp[0] == 'key':   # ufmaps
        return key_sort(vtyp[1])
    raise Unsupported(f'symbolic map with values of type {vtyp}')


def fresh(P, typ, name):
    k = typ[0]
    if k == 'key':
        return SymKey(z3.Const(name, key_sort(typ[1])), typ[1])
    if k == 'map' and typ[2][0] in ('key', 'set'):   # absnodes
        from . import absnodes
        return absnodes.fresh_map(P, typ, name)
    if k == 'map':
        s = key_sort(typ[1])
        pf = z3.Function(name + '#in', s, z3.BoolSort())
        vf = z3.Function(name + '#val', s, _vsort(typ[2]))
        return SymMap(lambda t: pf(t), lambda t: vf(t), typ[1], typ[2], name)
    if k == 'set':
        s = key_sort(typ[1])
        pf = z3.Function(name + '#in', s, z3.BoolSort())
        return SymSet(lambda t: pf(t), typ[1], name)
    if k == 'kseq':
        s = key_sort(typ[1])
        af = z3.Function(name + '#at', z3.IntSort(), s)
        n = z3.Int(name + '#len')
        P.assume(n >= 0, fact=True)
        if len(typ) > 2:   # zipseqs
            from . import zipseqs
            return zipseqs.SymPairSeq(lambda i: af(i), n, typ[1], name)
        return SymKeySeq(lambda i: af(i), n, typ[1], name)
    if k == 'relmap':   # ufmaps
        from . import ufmaps
        return ufmaps.fresh(P, typ, name)
    raise InterpError(f'containers.fresh: {typ}')


def type_of_value(P, v):
    """type descriptor under which a value can be havoced"""
    if isinstance(v, SymKey):
        return ('key', v.kname)
    if isinstance(v, SymMap):
        return ('map', v.kname, v.vtyp)
    if isinstance(v, SymSet):
        return ('set', v.kname)
    if type(v).__name__ == 'SymRelMap':   # ufmaps
        return ('relmap', v.kname)
    if isinstance(v, bool) or is_sym_bool(v):
        return ('bool',)
    if is_intlike(v):
        return ('int',)
    if isinstance(v, SObj) and v.cls is not None:
        return ('obj', v.cls)
    raise Unsupported(f'loop rule: cannot havoc a value like {v!r}')


# ------------------------------------------------------------ key handling

def _kterm(c, k):
    if isinstance(k, SymKey) and k.kname == c.kname:
        return k.term
    if isinstance(k, SObj) and k.cls is not None and k.name is not None:
        return obj_key(k, c.kname)          # a named input object used as a key: its identity
    raise Unsupported(f'key {k!r} used with a symbolic container of {c.kname} keys '
                      f'(declare the key as Key[{c.kname}] in the contract)')


def key_equal(a, b):
    if isinstance(a, SymKey) and isinstance(b, SymKey):
        if a.kname != b.kname:
            return False
        return simp(a.term == b.term)
    return False


def key_identical(a, b):
    if a is b:
        return True
    if isinstance(a, SymKey) and isinstance(b, SymKey):
        raise Unsupported('`is` on symbolic keys')
    return False


def key_isinstance(P, v: SymKey, ci) -> bool:
    r = P.ex.types._lookup(v.kname, None)
    if r is None or r[0] != 'class':
        raise Unsupported(f'isinstance on a key of unknown class {v.kname}')
    kci = r[1]
    if ci in P.index.mro(kci):
        return True
    if kci in P.index.mro(ci):
        raise Unsupported(f'isinstance({v.kname} key, {ci.name}): the key is abstract, the test is undetermined')
    return False


def ite_key(cond, a, b):
    if a.kname != b.kname:
        return None
    return SymKey(z3.If(cond, a.term, b.term), a.kname)


# ------------------------------------------------------------- operations

def _b(x):
    return as_z3bool(x) if is_boollike(x) else x


def _or(a, b):
    return simp(z3.Or(_b(a), _b(b)))


def contains(P, c, k):
    t = _kterm(c, k)
    if isinstance(c, SymMap):
        return simp(_b(c.present(t)))
    if isinstance(c, SymSet):
        return simp(_b(c.member(t)))
    raise Unsupported(f'in on {c!r}')


def _coerce_val(m: SymMap, v):
    if m.vtyp[0] == 'bool':
        if not is_boollike(v):
            raise Unsupported(f'non-bool value {v!r} stored in a dict[{m.kname}, bool]')
        return as_z3bool(v)
    if m.vtyp[0] == 'int':
        if not is_intlike(v) or is_boollike(v):
            raise Unsupported(f'non-int value {v!r} stored in a dict[{m.kname}, int]')
        return as_z3int(v)
    from . import absnodes   # absnodes
    return absnodes.coerce_value(m, v)


def map_getitem(P, m: SymMap, k):
    from .interp import SymRaise, mk_exc
    t = _kterm(m, k)
    if not P.branch(simp(_b(m.present(t))), 'key-present'):
        raise SymRaise(mk_exc('KeyError'))
    from . import absnodes   # absnodes: key / set values
    return absnodes.wrap_value(m, m.value(t))


def _mutate(P, c):
    from .interp import MergeAbort
    if P.txns:
        raise MergeAbort()
    g = getattr(P, 'loop_guard', None)
    if g is not None and id(c) not in g['allowed'] and id(c) not in g['fresh']:
        raise Unsupported(f'loop rule: the loop body mutates {c!r}, which is not among the havoced locations')


def map_setitem(P, m: SymMap, k, v):
    _mutate(P, m)
    t = _kterm(m, k)
    val = _coerce_val(m, v)
    op, ov = m.present, m.value
    m.present = lambda x: z3.Or(x == t, _b(op(x)))
    m.value = lambda x: z3.If(x == t, val, ov(x))


def empty_map(kname, vtyp):
    dv = z3.BoolVal(False) if vtyp[0] == 'bool' else (z3.Const('k!none', key_sort(vtyp[1])) if vtyp[0] == 'key' else z3.IntVal(0))
    return SymMap(lambda x: z3.BoolVal(False), lambda x: dv, kname, vtyp)


def empty_set(kname):
    return SymSet(lambda x: z3.BoolVal(False), kname)


def set_binop(P, op, a, b):
    if isinstance(a, SymSet) and isinstance(b, SymSet) and a.kname == b.kname:
        ma, mb = a.member, b.member
        if op is ast.BitOr:
            return SymSet(lambda x: z3.Or(_b(ma(x)), _b(mb(x))), a.kname)
        if op is ast.BitAnd:
            return SymSet(lambda x: z3.And(_b(ma(x)), _b(mb(x))), a.kname)
        if op is ast.Sub:
            return SymSet(lambda x: z3.And(_b(ma(x)), z3.Not(_b(mb(x)))), a.kname)
    raise Unsupported(f'set operation {op.__name__} on {a!r}, {b!r}')


def bound_name(v, attr):
    if isinstance(v, SymMap):
        return f'symmap.{attr}'
    if isinstance(v, SymSet):
        return f'symset.{attr}'
    if type(v).__name__ == 'SymRow':   # ufmaps
        return f'symrow.{attr}'
    return f'symseq.{attr}'


def call_bound(P, name, recv, args, kwargs):
    if kwargs:
        raise Unsupported(f'{name} with keyword arguments')
    if name.startswith('symrow.'):   # ufmaps
        from . import ufmaps
        return ufmaps.call_bound(P, name, recv, args, kwargs)
    if name == 'symmap.copy' and not args:
        c = recv.clone()
        c.name = None
        _register_fresh(P, c)
        return c
    if name == 'symmap.items' and not args:   # absnodes: only iterated by the loop rule
        from . import absnodes
        return absnodes.SymItems(recv)
    if name == 'symmap.keys' and not args:
        pr = recv.present
        return SymSet(lambda x: pr(x), recv.kname)
    if name == 'symmap.get' and 1 <= len(args) <= 2 and recv.vtyp[0] in ('key', 'set'):   # absnodes
        from . import absnodes
        return absnodes.map_get(P, recv, args)
    if name == 'symmap.get' and 1 <= len(args) <= 2:
        t = _kterm(recv, args[0])
        d = args[1] if len(args) == 2 else None
        if d is None:
            raise Unsupported('dict.get with default None on a symbolic map')
        return simp(z3.If(_b(recv.present(t)), recv.value(t), _coerce_val(recv, d)))
    if name == 'symset.copy' and not args:
        c = recv.clone()
        c.name = None
        _register_fresh(P, c)
        return c
    if name == 'symset.append' and type(recv).__name__ != 'SymBag':   # zipseqs: only the list abstraction has append
        raise Unsupported('append on a symbolic set')
    if name in ('symset.add', 'symset.append') and len(args) == 1:
        _mutate(P, recv)
        t = _kterm(recv, args[0])
        om = recv.member
        recv.member = lambda x: z3.Or(x == t, _b(om(x)))
        return None
    if name == 'symset.union' and len(args) == 1:
        return set_binop(P, ast.BitOr, recv, args[0])
    raise Unsupported(f'method {name} on a symbolic container')


def _register_fresh(P, c):
    g = getattr(P, 'loop_guard', None)
    if g is not None:
        g['fresh'].add(id(c))
        g['keep'].append(c)


def retype_literal(P, st, v, fr):
    """`obj.f = {}` / `obj.f = set()` where f is declared dict[Key, bool] / set[Key]: the fresh empty
    literal becomes an empty symbolic container (exact: a literal has no aliases)."""
    if not (isinstance(v, (dict, set)) and not v and len(st.targets) == 1):
        return v
    t = st.targets[0]
    lit = isinstance(st.value, ast.Dict) and not st.value.keys or \
        (isinstance(st.value, ast.Call) and isinstance(st.value.func, ast.Name)
         and st.value.func.id in ('dict', 'set') and not st.value.args and not st.value.keywords)
    if not lit or not isinstance(t, ast.Attribute) or not isinstance(t.value, ast.Name):
        return v
    obj = P.lookup_name(t.value.id, fr)
    if not isinstance(obj, SObj) or obj.cls is None:
        return v
    f = P.index.fields(obj.cls).get(t.attr)
    if f is None:
        return v
    ft = P.ex.types.parse(f[1], f[0].module.name, obj.cls)
    alts = ft[1] if ft[0] == 'union' else (ft,)
    for a in alts:
        if a[0] == 'map' and isinstance(v, dict):
            c = empty_map(a[1], a[2])
            _register_fresh(P, c)
            return c
        if a[0] == 'set' and isinstance(v, set):
            c = empty_set(a[1])
            _register_fresh(P, c)
            return c
    return v


# ---------------------------------------------------------------- frames

def same_content(P, cur, prev_typ_name):
    """cur (a container) has the same content as the entry value `<name>` of the given type"""
    typ, name = prev_typ_name
    old = fresh_quiet(typ, name)
    return equal_content(cur, old)


def fresh_quiet(typ, name):
    class _NoP:
        def assume(self, *a, **k):
            pass
    return fresh(_NoP(), typ, name)


def equal_content(a, b):
    if type(a) is not type(b) or a.kname != b.kname:
        return False
    if type(a).__name__ == 'SymRelMap':   # ufmaps
        from . import ufmaps
        return ufmaps.equal_content(a, b)
    x = z3.Const('k!frame', key_sort(a.kname))
    if isinstance(a, SymMap):
        va, vb = a.value(x), b.value(x)
        if isinstance(va, SymSet) and isinstance(vb, SymSet):
            # c07y: set-valued map (dict[Key, set[Key]]): the rows are equal as sets (extensionally)
            y = z3.Const('u!frame', key_sort(va.kname))
            veq = z3.ForAll([y], _b(va.member(y)) == _b(vb.member(y)))
        else:
            veq = va == vb
        body = z3.And(_b(a.present(x)) == _b(b.present(x)),
                      z3.Implies(_b(a.present(x)), veq))
    elif isinstance(a, SymSet):
        body = _b(a.member(x)) == _b(b.member(x))
    else:
        return a is b or (a.name is not None and a.name == b.name)     # immutable, named after its input
    return simp(z3.ForAll([x], body))


def obj_key(obj, kname=None):
    """identity of a *named* (input / contract-result) object as a key term of its class's sort"""
    if not isinstance(obj, SObj) or obj.cls is None or obj.name is None:
        raise Unsupported(f'{obj!r} used as a key / ghost argument: only named symbolic objects have an identity term')
    return z3.Const(obj.name, key_sort(kname or obj.cls.name))


def seq_at(P, seq, i):
    """total element access of a symbolic key sequence (spec side)"""
    if isinstance(seq, SymKeySeq):
        return SymKey(seq.at(as_z3int(i)), seq.kname)
    if isinstance(seq, (tuple, list)) and isinstance(i, int):
        return seq[i] if 0 <= i < len(seq) else None
    raise Unsupported(f'seq_at on {seq!r}')


def seq_len(P, seq):
    if isinstance(seq, SymKeySeq):
        return seq.length
    if isinstance(seq, (tuple, list)):
        return len(seq)
    raise Unsupported(f'seq_len on {seq!r}')


# ------------------------------------------------------------ quantifiers

def forall_ints(P, fn):
    """∀ i : int. fn(i)   (fn must evaluate without forking or side effects)"""
    return _forall(P, z3.Int, lambda x: x, fn, 'forall_ints')



def forall_keys(P, kname, fn):
    """∀ k : Key[kname]. fn(k)   (fn must evaluate without forking or side effects)"""
    from .interp import MergeAbort
    if not isinstance(kname, str):
        raise InterpError('forall_keys(kname, fn): kname must be a string literal')
    return _forall(P, lambda n: z3.Const(n, key_sort(kname)), lambda x: SymKey(x, kname), fn, 'forall_keys')


def _forall(P, mk, wrap, fn, what):
    from .interp import MergeAbort
    P.counter += 1
    x = mk(f'k!q{P.counter}')
    saved = P.merge_inner
    top = not P.txns
    if top:
        P.merge_inner = None
    t = P._begin()
    try:
        try:
            v = P.truthy(P.call(fn, [wrap(x)], {}))
        except MergeAbort:
            raise InterpError(f'{what}: the body forks or has side effects; make it branch-free '
                              '(guard m[k] with `k in m and ...`)')
    finally:
        P._rollback(t)
        if top:
            P.merge_inner = saved
    if isinstance(v, bool):
        return v
    return z3.ForAll([x], as_z3bool(v))


# -------------------------------------------------------------- loop rule

def is_symbolic_iterable(v):
    return isinstance(v, SYM) or type(v).__name__ in ('SymItems', 'SymZip')   # absnodes: map.items(); zipseqs: zip(seq, seq)


def _for_loops(fn_node):
    out = []

    def walk(body):
        for st in body:
            if isinstance(st, ast.For):
                out.append(st)
            for fld in ('body', 'orelse', 'finalbody'):
                sub = getattr(st, fld, None)
                if isinstance(sub, list):
                    walk(sub)
            for h in getattr(st, 'handlers', []) or []:
                walk(h.body)
            for c in getattr(st, 'cases', []) or []:
                walk(c.body)
    walk(fn_node.body)
    return out


def _assigned(body, out):
    """syntactic assignment targets of a statement list"""
    for st in body:
        if isinstance(st, ast.Assign):
            out.extend(st.targets)
        elif isinstance(st, (ast.AugAssign, ast.AnnAssign)):
            out.append(st.target)
        elif isinstance(st, ast.For):
            out.append(st.target)
        for fld in ('body', 'orelse', 'finalbody'):
            sub = getattr(st, fld, None)
            if isinstance(sub, list):
                _assigned(sub, out)
        for c in getattr(st, 'cases', []) or []:
            _assigned(c.body, out)
    return out


def _flatten_targets(t, out):
    if isinstance(t, (ast.Tuple, ast.List)):
        for e in t.elts:
            _flatten_targets(e, out)
    elif isinstance(t, ast.Starred):
        _flatten_targets(t.value, out)
    else:
        out.append(t)
    return out


def _pure_path(node):
    """Name or Name.attr.attr...: evaluation has no side effects"""
    while isinstance(node, ast.Attribute):
        node = node.value
    return isinstance(node, ast.Name)


class _Havoc:
    """the locations a loop may modify, and how to give them arbitrary values"""

    def __init__(self, P, fr, st, extra_paths):
        self.P = P
        self.fr = fr
        self.locals = []          # names
        self.fields = []          # (SObj, field)
        self.conts = []           # SymMap / SymSet objects (mutated in place)
        targets = []
        for t in _assigned(st.body, []):
            _flatten_targets(t, targets)
        for t in targets:
            if isinstance(t, ast.Name):
                if t.id not in self.locals:
                    self.locals.append(t.id)
            elif isinstance(t, ast.Subscript) and _pure_path(t.value):
                c = P.ev(t.value, fr)
                if not isinstance(c, MUTABLE):
                    raise Unsupported('loop rule: subscript store into a concrete container')
                self.conts.append(c)
            elif isinstance(t, ast.Attribute) and _pure_path(t.value):
                o = P.ev(t.value, fr)
                if not isinstance(o, SObj):
                    raise Unsupported('loop rule: attribute store on a non-object')
                self.fields.append((o, t.attr))
            else:
                raise Unsupported(f'loop rule: assignment target {ast.unparse(t)}')
        for path in extra_paths:
            node = ast.parse(path, mode='eval').body
            if not _pure_path(node):
                raise InterpError(f'loop_modifies: bad path {path}')
            if isinstance(node, ast.Name):
                v = fr.locals.get(node.id)
                if isinstance(v, MUTABLE):   # absnodes: a local container mutated by method calls (.add)
                    self.conts.append(v)
                    continue
                self.locals.append(node.id)
                continue
            v = P.ev(node, fr)
            if isinstance(v, MUTABLE):
                self.conts.append(v)
            o = P.ev(node.value, fr)
            self.fields.append((o, node.attr))
        self.loop_target = [t.id for t in _flatten_targets(st.target, []) if isinstance(t, ast.Name)]

    def allowed(self):
        s = set()
        for n in self.locals + self.loop_target:
            s.add((id(self.fr.locals), n))
        for o, f in self.fields:
            s.add((id(o.fields), f))
        for c in self.conts:
            s.add(id(c))
        return s

    def apply(self, tag):
        P, fr = self.P, self.fr
        for n in self.locals:
            if n in self.loop_target:
                continue
            if n not in fr.locals:
                continue          # first assigned inside the loop: unbound before, rebound by the body
            v = fr.locals[n]
            if isinstance(v, Lazy):
                v = P.force(v)
            fr.locals[n] = P.fresh(type_of_value(P, v), P.fresh_name(f'{n}@{tag}'))
        for o, f in self.fields:
            ft = P.ex.field_type(o.cls, f)
            o.fields[f] = Lazy(ft, P.fresh_name(f'{o.name or o.cls.name}.{f}@{tag}'))
        for c in self.conts:
            n = fresh(P, type_of_value(P, c), P.fresh_name(f'{c.name or "map"}@{tag}'))
            if isinstance(c, SymMap):
                c.present, c.value = n.present, n.value
            else:
                c.member = n.member


def check_write(P, container, key):
    g = P.loop_guard
    cid = id(container)
    if cid in g['fresh'] or (cid, key) in g['allowed']:
        return
    if isinstance(key, str) and key.startswith('#'):
        return
    raise Unsupported(f'loop rule: the loop body writes `{key}` of a pre-existing frame/object that is not '
                      f'among the havoced locations (add it to options.loop_modifies)')


def guard_concrete(P, obj):
    if getattr(P, 'loop_guard', None) is not None:
        raise Unsupported('loop rule: mutation of a concrete list/dict/set inside a loop verified by invariant')


def loop_rule(P, st, fr, it):
    """
    `for x in <symbolic collection>` in the target of the current contract, with the contract's
    k-th invariant  inv<k>(<locals...>, done):
      inv-init : inv holds with done = {} (sets/maps) / 0 (sequences)
      inv-step : havoc; assume inv(done), x in S \\ done (resp. x = S[done]); body; prove inv(done + x)
      exit     : havoc; assume inv(done = S) (resp. done = len(S)); the loop target is unbound afterwards
                 unless it was bound before (conservative: a later read reports NameError)
    """
    ex = P.ex
    c = ex.current
    info = fr.fn
    if c is None or info is None or info.qualname != c.target:
        raise Unsupported(f'loop over a symbolic collection in {info.qualname if info else "?"} (inlined): '
                          f'give that function a contract')
    loops = _for_loops(info.node)
    idx = next((i for i, l in enumerate(loops) if l is st), None)
    inv = c.ci.methods.get(f'inv{idx}') if idx is not None else None
    if inv is None:
        raise Unsupported(f'loop {idx} of {c.short} iterates a symbolic collection and needs an invariant `inv{idx}`')
    if st.orelse:
        raise Unsupported('loop rule: for-else')
    if P.txns:
        from .interp import MergeAbort
        raise MergeAbort()
    targets = _flatten_targets(st.target, [])
    items_map = None
    if type(it).__name__ == 'SymItems':   # absnodes: `for k, v in m.items()`
        items_map = it = it.map
        if len(targets) != 2 or not all(isinstance(t, ast.Name) for t in targets):
            raise Unsupported('loop rule: items() needs the target `k, v`')
        vname = targets[1].id
        targets = targets[:1]
    from . import zipseqs   # zipseqs: `for x, y in zip(seq, seq)` / `for name, v in <pair sequence>`
    multi = others = None
    if isinstance(it, zipseqs.MULTI):
        multi = it
        first, others = zipseqs.split_targets(multi, targets)
        targets = [first]
        it = zipseqs.carrier(multi)
    if len(targets) != 1 or not isinstance(targets[0], ast.Name):
        raise Unsupported('loop rule: the loop target must be a single name')
    tname = targets[0].id
    short = c.short
    extra = (c.opts.get('loop_modifies') or {}).get(idx, [])
    hv = _Havoc(P, fr, st, extra)
    is_seq = isinstance(it, SymKeySeq)
    if isinstance(it, SymMap):
        pr = it.present
        S = SymSet(lambda x: pr(x), it.kname)
    elif isinstance(it, SymSet):
        mm = it.member
        S = SymSet(lambda x: mm(x), it.kname)      # iteration is over the set as it is now
    else:
        S = it

    # zipseqs: contract attribute loop_types = {idx: {'local': 'type'}} declares locals that the body assigns and
    # that are unbound before the loop; after >= 1 iterations they are bound (havoced, described by the invariant)
    late_types = {n: t for n, t in ((getattr(c, 'loop_types', None) or {}).get(idx) or {}).items() if n not in fr.locals}

    def clauses(done):
        b = {k: v for k, v in fr.locals.items() if not k.startswith('#')}
        for k in list(b):
            if isinstance(b[k], Lazy):
                b[k] = fr.locals[k] = P.force(b[k])
        b.pop('done', None)
        names = [a.arg for a in inv.node.args.args]
        miss = [n for n in names if n not in ('done', 'old', 'self') and n not in b]
        for n in [m for m in miss if m in late_types]:   # zipseqs: a local first assigned by the body is None
            b[n] = None                                  # in the invariant while it is unbound
            miss.remove(n)
        if miss:
            raise InterpError(f'{inv.qualname}: parameters {miss} are not locals in scope at the loop')
        return ex._call_spec(P, inv, b, {'done': done, 'old': getattr(P, 'old', None)})

    # --- init
    done0 = 0 if is_seq else empty_set(S.kname)
    for k, cond in clauses(done0).items():
        P.oblige(f'{short}#inv{idx}-init[{k}]', 'inv', P.truthy(cond))
    tag = f'loop{idx}'
    P.counter += 1
    step = z3.Bool(f'{tag}!{P.counter}#step')
    was_bound = tname in fr.locals
    if P.branch(step, f'{tag}-step'):
        hv.apply(tag)
        if is_seq:
            done = z3.Int(P.fresh_name(f'{tag}#i'))
            P.assume(z3.And(done >= 0, done < S.length), fact=True)
            key = SymKey(S.at(done), S.kname)
            done2 = simp(done + 1)
        else:
            dn = P.fresh_name(f'{tag}#done')
            df = z3.Function(dn, key_sort(S.kname), z3.BoolSort())
            done = SymSet(lambda x: df(x), S.kname, dn)
            x = z3.Const('k!sub', key_sort(S.kname))
            P.assume(z3.ForAll([x], z3.Implies(df(x), _b(S.member(x)))), fact=True)
            kt = z3.Const(P.fresh_name(f'{tag}#key'), key_sort(S.kname))
            P.assume(z3.And(_b(S.member(kt)), z3.Not(df(kt))), fact=True)
            key = SymKey(kt, S.kname)
            done2 = SymSet(lambda y: z3.Or(y == kt, df(y)), S.kname)
        for k, cond in clauses(done).items():
            P.assume(P.truthy(cond), fact=True)
        fr.locals[tname] = key
        if multi is not None:   # zipseqs
            zipseqs.bind(P, fr, multi, others, done)
        if items_map is not None:   # absnodes
            from . import absnodes
            fr.locals[vname] = absnodes.wrap_value(items_map, items_map.value(key.term))
        from .interp import _Break, _Continue
        prev_guard = P.loop_guard   # absnodes: nested inside a while rule
        P.loop_guard = {'allowed': hv.allowed(), 'fresh': set(), 'keep': []}
        try:
            try:
                P.exec_block(st.body, fr)
            except _Continue:
                pass
            except _Break:
                raise Unsupported('loop rule: break')
        finally:
            P.loop_guard = prev_guard
        for k, cond in clauses(done2).items():
            P.oblige(f'{short}#inv{idx}-step[{k}]', 'inv', P.truthy(cond))
        raise LoopStepDone()
    # --- exit
    hv.apply(tag)
    if is_seq:
        doneS = S.length
    else:
        doneS = S
    if late_types and is_seq:   # zipseqs: bound iff the body ran at least once
        ran = simp(S.length >= 1)
        if ran is True or (ran is not False and P.branch(ran, f'{tag}-ran')):
            for n, t in late_types.items():
                fr.locals[n] = P.fresh(ex.types.parse_str(t, info.module.name, info.cls), P.fresh_name(f'{n}@{tag}'))
    for k, cond in clauses(doneS).items():
        P.assume(P.truthy(cond), fact=True)
    if items_map is not None:   # absnodes
        fr.locals.pop(vname, None)
    if multi is not None:   # zipseqs: the other targets are unbound after the loop (conservative, like the first)
        for o in others:
            fr.locals.pop(o, None)
    if not was_bound:
        fr.locals.pop(tname, None)
    else:
        v = fr.locals[tname]
        fr.locals[tname] = P.fresh(type_of_value(P, v), P.fresh_name(f'{tname}@{tag}'))


# ----------------------------------------------------------- model values

def universe(model, kname):
    try:
        u = model.get_universe(key_sort(kname))
    except Exception:
        u = None
    return list(u) if u else []


def concretize_entry(cz, typ, name):
    """JSON value of the symbolic input `<name>` of a container/key type under a model"""
    m = cz.model
    k = typ[0]
    if k == 'key':
        v = m.eval(z3.Const(name, key_sort(typ[1])), model_completion=True)
        return {'$key': typ[1], 'name': str(v)}
    if k == 'map' and typ[2][0] in ('key', 'set'):   # absnodes
        from . import absnodes
        return concretize_value(cz, absnodes.fresh_map(None, typ, name))
    if k == 'map':
        s = key_sort(typ[1])
        pf = z3.Function(name + '#in', s, z3.BoolSort())
        vf = z3.Function(name + '#val', s, _vsort(typ[2]))
        items = []
        for u in universe(m, typ[1]):
            if z3.is_true(m.eval(pf(u), model_completion=True)):
                val = m.eval(vf(u), model_completion=True)
                items.append([str(u), z3.is_true(val) if typ[2][0] == 'bool' else (str(val) if typ[2][0] == 'key' else val.as_long())])
        return {'$map': typ[1], 'items': items, 'universe': [str(u) for u in universe(m, typ[1])]}
    if k == 'set':
        s = key_sort(typ[1])
        pf = z3.Function(name + '#in', s, z3.BoolSort())
        items = [str(u) for u in universe(m, typ[1]) if z3.is_true(m.eval(pf(u), model_completion=True))]
        return {'$set': typ[1], 'items': items, 'universe': [str(u) for u in universe(m, typ[1])]}
    if k == 'relmap':   # ufmaps
        from . import ufmaps
        return ufmaps.concretize(cz, None, name, typ)
    if k == 'kseq':
        s = key_sort(typ[1])
        af = z3.Function(name + '#at', z3.IntSort(), s)
        n = m.eval(z3.Int(name + '#len'), model_completion=True).as_long()
        n = max(0, min(n, 8))
        if len(typ) > 2:   # zipseqs
            return {'$kseq': typ[1], 'pairs': True, 'items': [str(m.eval(af(i), model_completion=True)) for i in range(n)]}
        return {'$kseq': typ[1], 'items': [str(m.eval(af(i), model_completion=True)) for i in range(n)]}
    raise InterpError(f'concretize_entry {typ}')


def concretize_value(cz, v):
    m = cz.model
    if isinstance(v, SymKey):
        return {'$key': v.kname, 'name': str(m.eval(v.term, model_completion=True))}
    if isinstance(v, SymMap):
        items = []
        for u in universe(m, v.kname):
            if z3.is_true(m.eval(_b(v.present(u)), model_completion=True)):
                if v.vtyp[0] == 'set':   # absnodes
                    items.append([str(u), concretize_value(cz, v.value(u))])
                    continue
                val = m.eval(v.value(u), model_completion=True)
                if v.vtyp[0] == 'key':   # absnodes
                    items.append([str(u), {'$key': v.vtyp[1], 'name': str(val)}])
                    continue
                items.append([str(u), z3.is_true(val) if v.vtyp[0] == 'bool' else val.as_long()])
        return {'$map': v.kname, 'items': items, 'universe': [str(u) for u in universe(m, v.kname)]}
    if isinstance(v, SymSet):
        items = [str(u) for u in universe(m, v.kname) if z3.is_true(m.eval(_b(v.member(u)), model_completion=True))]
        return {'$set': v.kname, 'items': items, 'universe': [str(u) for u in universe(m, v.kname)]}
    if type(v).__name__ == 'SymRelMap':   # ufmaps
        from . import ufmaps
        return ufmaps.concretize(cz, v)
    return {'$opaque': repr(v)}
