"""
Symbolic numeral strings (C06).

The engine does not model `re` or character sequences in general.  It models
exactly the strings that a numeral spelling is made of:

  DigitStr   a string of base-b digits ([0-9]* or [0-9a-f]*), abstracted to the
             pair (val, len): `int(s, b)` is `val`, `len(s)` is `len`,
             `s == ''` iff `len == 0`, with the invariant 0 <= val < b^len.
             This is all the information the code under verification uses.
  SymStr     either a concatenation of segments (concrete `str` pieces and
             DigitStr pieces), or an *unparsed input* (segs is None) whose content
             is known only through its decomposition under one of the two numeral
             regexes of fpy2/utils/fractions.py.

TRUSTED (stated in every contract note that relies on it):
  (T1) the group decomposition of `re.fullmatch` for the two regexes whose exact
       pattern text is pinned below (any other pattern text is Unsupported): a
       string matches iff it is  [sign] I ['.' F] [e|p [esign] E]  with I, F, E
       digit strings, (I non-empty or '.' present), F non-empty if '.' present,
       E non-empty if the exponent marker is present; groups 1, 2, 3, 4, 5 are the
       corresponding substrings.  speclib.dec_groups / hex_groups is the native
       counterpart (a hand-written scanner); tools/selftest_c06.py compares it
       with `re.fullmatch` on random and exhaustive short strings.
  (T2) `int(d, b)` of a non-empty base-b digit string is its positional value
       (with an optional leading sign), and raises ValueError on the empty string.
  (T3) surrounding whitespace is not modelled: `strip/lstrip/rstrip` are the
       identity on an unparsed input, i.e. the contracts quantify over spellings
       without surrounding whitespace.
"""
from __future__ import annotations

import re as _re

import z3

from . import theory
from .values import Unsupported, as_z3int, is_z3, simp

DEC_PATTERN = r'([-+])?([0-9]+(\.[0-9]+)?|\.[0-9]+)(e([-+]?[0-9]+))?'
HEX_PATTERN = r'([-+])?0x([0-9a-f]+(\.[0-9a-f]+)?|\.[0-9a-f]+)(p([-+]?[0-9]+))?'
KINDS = {DEC_PATTERN: ('dec', 10, '', 'e'), HEX_PATTERN: ('hex', 16, '0x', 'p')}
_DIGITS = {10: '0123456789', 16: '0123456789abcdef'}
_SIGNS = (None, '+', '-')


class DigitStr:
    __slots__ = ('val', 'len', 'base', 'name')

    def __init__(self, val, length, base, name):
        self.val = val
        self.len = length
        self.base = base
        self.name = name

    def __repr__(self):
        return f'<digits{self.base} {self.name}>'


class SymStr:
    __slots__ = ('segs', 'name', 'parses')

    def __init__(self, segs=None, name=None):
        self.segs = segs
        self.name = name
        self.parses = {}

    def __repr__(self):
        return f'<symstr {self.name or self.segs}>'


class FreeCons:
    """value of an external free constructor call such as ast.Call(func=..., args=[...]): name + keyword fields"""
    __slots__ = ('name', 'fields')

    def __init__(self, name, fields):
        self.name = name
        self.fields = fields

    def __repr__(self):
        return f'<{self.name} {sorted(self.fields)}>'


class RegexV:
    __slots__ = ('pattern',)

    def __init__(self, pattern):
        self.pattern = pattern


class MatchV:
    __slots__ = ('groups',)

    def __init__(self, groups):
        self.groups = groups


# ---------------------------------------------------------------------------

def fresh_digits(P, name, base):
    v, n = z3.Int(name + '.val'), z3.Int(name + '.len')
    P.assume(z3.And(n >= 0, v >= 0, v < theory.ipow(z3.IntVal(base), n)), fact=True)
    return DigitStr(v, n, base, name)


def mk(segs):
    """normalise a segment list; a fully concrete one becomes a python str"""
    out = []
    for s in segs:
        if isinstance(s, SymStr):
            if s.segs is None:
                raise Unsupported('concatenation with an unparsed symbolic string')
            out.extend(s.segs)
        elif isinstance(s, str):
            if s == '':
                continue
            if out and isinstance(out[-1], str):
                out[-1] = out[-1] + s
            else:
                out.append(s)
        elif isinstance(s, DigitStr):
            out.append(s)
        else:
            raise Unsupported(f'string segment {s!r}')
    if not out:
        return ''
    if all(isinstance(s, str) for s in out):
        return ''.join(out)
    return SymStr(out)


def _segs(P, s):
    if isinstance(s, str):
        return [s] if s else []
    if s.segs is None:
        raise Unsupported(f'content of the unparsed symbolic string {s.name} (only re.fullmatch with a pinned numeral pattern reveals it)')
    return s.segs


def length(P, s):
    if isinstance(s, str):
        return len(s)
    tot = 0
    for g in _segs(P, s):
        tot = tot + (len(g) if isinstance(g, str) else g.len)
    return simp(tot) if is_z3(tot) else tot


def truthy(P, s):
    n = length(P, s)
    return (n != 0) if isinstance(n, int) else simp(n != 0)


def _nondigit(ch, segs):
    bases = {g.base for g in segs if isinstance(g, DigitStr)}
    return all(all(c not in _DIGITS[b] for b in bases) for c in ch)


def contains(P, s, item):
    if not isinstance(item, str) or item == '':
        raise Unsupported('`in` on a symbolic string with a non-literal needle')
    segs = _segs(P, s)
    if any(isinstance(g, str) and item in g for g in segs):
        return True
    if len(item) == 1 and _nondigit(item, segs):
        return False
    raise Unsupported(f'{item!r} in symbolic string')


def split(P, s, sep=None, *rest):
    if rest or not isinstance(sep, str) or len(sep) != 1:
        raise Unsupported('split of a symbolic string on a non single-character separator')
    segs = _segs(P, s)
    if not _nondigit(sep, segs):
        raise Unsupported('split of a symbolic string on a digit')
    parts, cur = [], []
    for g in segs:
        if isinstance(g, str):
            pieces = g.split(sep)
            cur.append(pieces[0])
            for p in pieces[1:]:
                parts.append(cur)
                cur = [p]
        else:
            cur.append(g)
    parts.append(cur)
    return [mk(p) for p in parts]


def startswith(P, s, prefix):
    if not isinstance(prefix, str) or len(prefix) != 1:
        raise Unsupported('startswith on a symbolic string with a non single-character prefix')
    if isinstance(s, SymStr) and s.segs is None and prefix in '+-':
        # unparsed input known (on this path) to match one of the numeral patterns, e.g. after a
        # modular call of decnum_to_fraction: the first character is the sign group (T1)
        for d in s.parses.values():
            if not P.feasible(z3.Not(d['matches'])):
                return simp(d['sign'] == (1 if prefix == '+' else 2))
    segs = _segs(P, s)
    if not _nondigit(prefix, segs):
        raise Unsupported('startswith(digit) on a symbolic string')

    def go(i):
        if i == len(segs):
            return False
        g = segs[i]
        if isinstance(g, str):
            return g.startswith(prefix)
        rest = go(i + 1)
        if rest is False:
            return False
        r = z3.And(g.len == 0, z3.BoolVal(True) if rest is True else rest)
        return simp(r)
    return go(0)


def equal(P, a, b):
    """a is a SymStr; b a str or SymStr"""
    if isinstance(b, SymStr):
        if a is b:
            return True
        raise Unsupported('equality of two symbolic strings')
    if not isinstance(b, str):
        return False
    if b == '':
        n = length(P, a)
        return (n == 0) if isinstance(n, int) else simp(n == 0)
    segs = _segs(P, a)
    if len(segs) == 1 and isinstance(segs[0], DigitStr):
        d = segs[0]
        if all(c in _DIGITS[d.base] for c in b):
            return simp(z3.And(d.len == len(b), d.val == int(b, d.base)))
        return False
    if any(c not in '0123456789abcdef' for c in b):
        lits = ''.join(g for g in segs if isinstance(g, str))
        if any(c not in lits for c in b if c not in '0123456789abcdef'):
            return False
    raise Unsupported(f'equality of a symbolic string with {b!r}')


def to_int(P, s, base=10):
    """int(s, base) for a symbolic numeral: [sign] digits, ValueError when there is no digit (T2)"""
    from .interp import SymRaise, mk_exc
    if is_z3(base) or not isinstance(base, int):
        raise Unsupported('int(str, symbolic base)')
    segs = list(_segs(P, s))
    neg = False
    if segs and isinstance(segs[0], str) and segs[0][:1] in ('+', '-'):
        neg = segs[0][0] == '-'
        segs[0] = segs[0][1:]
        if segs[0] == '':
            segs.pop(0)
    val, n = 0, 0
    for g in segs:
        if isinstance(g, str):
            if any(c not in _DIGITS.get(base, '') for c in g):
                if base not in _DIGITS:
                    raise Unsupported(f'int(symbolic string, {base})')
                raise SymRaise(mk_exc('ValueError'), f'int() of a string containing {g!r}')
            val = val * (base ** len(g)) + int(g, base)
            n = n + len(g)
        else:
            if g.base != base:
                if g.base < base and base in _DIGITS:
                    # digits of the narrower base read in a wider base: every digit is valid, the VALUE is another
                    # function of the same digits (uninterpreted `redigit`), which agrees on one-digit numbers
                    # and is strictly larger otherwise ("10" read in base 16 is 16)
                    rd = z3.Function(f'redigit_{g.base}_{base}', z3.IntSort(), z3.IntSort(), z3.IntSort())
                    r = rd(g.val, g.len)
                    P.assume(z3.And(r >= g.val, r < theory.ipow(z3.IntVal(base), g.len),
                                    z3.Implies(g.val < g.base, r == g.val),
                                    z3.Implies(g.val >= g.base, r >= g.val + (base - g.base))), fact=True)
                    g = DigitStr(r, g.len, base, g.name + f'@{base}')
                else:
                    raise Unsupported(f'int(base-{g.base} digit string, {base})')
            val = val * theory.ipow(z3.IntVal(base), g.len) + g.val if not (isinstance(val, int) and val == 0) else g.val
            n = n + g.len
    empty = (n == 0) if isinstance(n, int) else simp(n == 0)
    if P.branch(empty, 'int("")'):
        raise SymRaise(mk_exc('ValueError'), 'int() of an empty string')
    val = simp(val) if is_z3(val) else val
    return simp(-val) if neg and is_z3(val) else (-val if neg else val)


# ---------------------------------------------------------------------------
# the trusted decomposition (T1)

def parse_vars(P, s: SymStr, kind: str, base: int):
    """symbolic decomposition of the unparsed input `s` under the numeral regex `kind` (created once per path)"""
    d = s.parses.get(kind)
    if d is not None:
        return d
    pre = f'{s.name}#{kind}.'
    d = {
        'matches': z3.Bool(pre + 'matches'),
        'sign': z3.Int(pre + 'sign'),          # 0 absent, 1 '+', 2 '-'
        'has_frac': z3.Bool(pre + 'has_frac'),
        'has_exp': z3.Bool(pre + 'has_exp'),
        'esign': z3.Int(pre + 'esign'),
        'I': fresh_digits(P, pre + 'I', base),
        'F': fresh_digits(P, pre + 'F', base),
        'E': fresh_digits(P, pre + 'E', 10),
    }
    I, F, E = d['I'], d['F'], d['E']
    P.assume(z3.And(d['sign'] >= 0, d['sign'] <= 2, d['esign'] >= 0, d['esign'] <= 2), fact=True)
    P.assume(z3.Implies(d['matches'], z3.And(
        z3.Or(I.len >= 1, d['has_frac']),
        z3.If(d['has_frac'], F.len >= 1, z3.And(F.len == 0, F.val == 0)),
        z3.If(d['has_exp'], E.len >= 1, z3.And(E.len == 0, E.val == 0, d['esign'] == 0)))), fact=True)
    s.parses[kind] = d
    return d


def fullmatch(P, rx, s):
    """re.fullmatch(rx, s): None or a MatchV"""
    from .interp import MergeAbort
    if not isinstance(rx, RegexV):
        raise Unsupported('re.fullmatch with a non-compiled pattern')
    if isinstance(s, str):
        m = _re.fullmatch(rx.pattern, s)
        if m is None:
            return None
        return MatchV([m.group(0)] + list(m.groups()))
    if not isinstance(s, SymStr) or s.segs is not None:
        raise Unsupported('re.fullmatch on a constructed symbolic string')
    if rx.pattern not in KINDS:
        raise Unsupported(f'regex {rx.pattern!r} is not one of the two pinned numeral patterns')
    if P.txns:
        raise MergeAbort()
    kind, base, prefix, marker = KINDS[rx.pattern]
    d = parse_vars(P, s, kind, base)
    if not P.branch(d['matches'], f'{kind}-match'):
        return None

    def tag(v, what):
        for k in (0, 1):
            if P.branch(simp(v == k), f'{what}=={_SIGNS[k]}'):
                return _SIGNS[k]
        return _SIGNS[2]
    sign = tag(d['sign'], 'sign')
    has_frac = P.branch(d['has_frac'], 'has_frac')
    has_exp = P.branch(d['has_exp'], 'has_exp')
    esign = tag(d['esign'], 'esign') if has_exp else None
    frac = mk(['.', d['F']]) if has_frac else None
    mant = mk([d['I'], frac or ''])
    exp = mk([esign or '', d['E']]) if has_exp else None
    expg = mk([marker, exp]) if has_exp else None
    whole = mk([sign or '', prefix, mant, expg or ''])
    s.segs = whole.segs
    return MatchV([s, sign, mant, frac, expg, exp])


def groups_of(P, s, kind):
    """speclib dec_groups / hex_groups on a symbolic input: (matches, neg, I, F, eneg, E)"""
    base = 10 if kind == 'dec' else 16
    d = parse_vars(P, s, kind, base)
    return (d['matches'], simp(d['sign'] == 2), d['I'], d['F'], simp(d['esign'] == 2), d['E'])
