"""
T4 (C03): syntactic obligation on the constant table `fpy2.number.engine.gmp._constant_exprs`.

`mpfr_call(fn, ())` evaluates `fn()` ONCE under (precision P, round toward zero) and reads the ternary value
`rc` of the returned mpfr to build the round-to-odd intermediate.  That is only a correct RTO_P of the constant
if `fn()` is ONE correctly-rounded MPFR primitive applied to exact arguments:

  single_rounding[K]   the expression contains exactly one rounding MPFR primitive (every argument is an exact
                       literal: an int, gmp.mpfr(int), or an exact dyadic quotient/product of such); a composition
                       of two rounded primitives rounds twice (the inner result is already truncated);
  ternary_kept[K]      the outermost operation IS that primitive: any operation applied after it (even an exact one
                       such as `/ 2`) returns a fresh mpfr whose rc describes only the last operation (rc == 0 for
                       an exact one), so the sticky information of the primitive is lost.

The obligations are decided on the AST read from the current source.  For every entry that fails, a native
search (tools/const_search.py under /venv/bin/python, real fpy2 + gmpy2) looks for a (precision, rounding mode)
at which the public `fpy2.ops.const_*` differs from the correctly rounded constant (reference: directed-rounding
enclosure with 300 extra digits); the first failing pair is the replayable input.
"""
from __future__ import annotations

import ast
import json
import os
import subprocess
from fractions import Fraction

ROOT = os.path.dirname(os.path.dirname(os.path.abspath(__file__)))

NULLARY = {'const_pi', 'const_log2', 'const_euler', 'const_catalan'}
ROUNDING = NULLARY | {
    'exp', 'exp2', 'exp10', 'expm1', 'log', 'log2', 'log10', 'log1p', 'sqrt', 'cbrt', 'rec_sqrt', 'sin', 'cos', 'tan',
    'asin', 'acos', 'atan', 'sinh', 'cosh', 'tanh', 'asinh', 'acosh', 'atanh', 'gamma', 'lgamma', 'erf', 'erfc',
    'add', 'sub', 'mul', 'div', 'fma', 'hypot', 'atan2', 'zeta', 'pow',
}
OPS_NAME = {'E': 'const_e', 'LOG2E': 'const_log2e', 'LOG10E': 'const_log10e', 'LN2': 'const_ln2', 'LN10': None,
            'PI': 'const_pi', 'PI_2': 'const_pi_2', 'PI_4': 'const_pi_4', 'M_1_PI': 'const_1_pi', 'M_2_PI': 'const_2_pi',
            'M_2_SQRTPI': 'const_2_sqrt_pi', 'SQRT2': 'const_sqrt2', 'SQRT1_2': 'const_sqrt1_2'}


def _gmp_attr(node):
    """name if node is `gmp.<name>`"""
    if isinstance(node, ast.Attribute) and isinstance(node.value, ast.Name) and node.value.id in ('gmp', 'gmpy2'):
        return node.attr
    return None


def exact_value(node):
    """Fraction value of an exact literal argument (exact at every precision >= 2), else None"""
    if isinstance(node, ast.Constant) and isinstance(node.value, int) and not isinstance(node.value, bool):
        v = Fraction(node.value)
    elif isinstance(node, ast.Call) and _gmp_attr(node.func) in ('mpfr', 'mpz') and len(node.args) == 1 and not node.keywords:
        v = exact_value(node.args[0])
    elif isinstance(node, ast.Call) and _gmp_attr(node.func) in ('div', 'mul') and len(node.args) == 2:
        a, b = exact_value(node.args[0]), exact_value(node.args[1])
        if a is None or b is None or (_gmp_attr(node.func) == 'div' and b == 0):
            return None
        v = a / b if _gmp_attr(node.func) == 'div' else a * b
    else:
        return None
    if v is None:
        return None
    # exact under every precision >= 2: a dyadic value whose odd part has at most 2 digits ... or a small int argument
    if isinstance(node, ast.Constant):
        return v
    num, den = abs(v.numerator), v.denominator
    if den & (den - 1):
        return None
    while num and num % 2 == 0:
        num //= 2
    return v if num.bit_length() <= 2 else None


def rounding_calls(node):
    """all calls / operators inside `node` that round (excluding exact literal sub-expressions)"""
    out = []

    def walk(n):
        if exact_value(n) is not None:
            return
        if isinstance(n, ast.Call):
            nm = _gmp_attr(n.func)
            out.append(nm or ast.unparse(n.func))
            for a in n.args:
                walk(a)
        elif isinstance(n, ast.BinOp):
            out.append('operator ' + type(n.op).__name__)
            walk(n.left)
            walk(n.right)
        elif isinstance(n, ast.UnaryOp):
            out.append('operator ' + type(n.op).__name__)
            walk(n.operand)
    walk(node)
    return out


def check_entry(value):
    """-> (single_ok, single_reason, ternary_ok, ternary_reason)"""
    if _gmp_attr(value) is not None:
        nm = _gmp_attr(value)
        ok = nm in NULLARY
        return ok, ('' if ok else f'gmp.{nm} is not a known nullary MPFR constant'), ok, ''
    if not (isinstance(value, ast.Lambda) and not value.args.args):
        return False, 'entry is neither gmp.<constant> nor a nullary lambda', False, 'not analysable'
    body = value.body
    calls = rounding_calls(body)
    prims = [c for c in calls if c in ROUNDING]
    others = [c for c in calls if c not in ROUNDING]
    # outermost operation must be the (single) primitive, applied to exact literals
    outer_prim = isinstance(body, ast.Call) and _gmp_attr(body.func) in ROUNDING
    single = len(prims) == 1 and not [o for o in others if not o.startswith('operator')] and \
        all(o.startswith('operator') for o in others) and (len(prims) + len(others) == 1 or not outer_prim or True)
    # operators (/, *, -) on an mpfr round as well: they count as rounding operations unless exact by construction;
    # exactness of `x / 2` is a fact about binary floating point, but the ternary value is still lost (second obligation)
    n_round = len(prims) + len([o for o in others if o.startswith('operator') and not _exact_scaling(body)])
    single = (n_round == 1) and not [o for o in others if not o.startswith('operator')]
    s_reason = '' if single else f'{n_round} rounding operations in one expression: {calls} (double rounding)'
    args_exact = outer_prim and all(exact_value(a) is not None for a in body.args)
    ternary = outer_prim and args_exact
    if ternary:
        t_reason = ''
    elif outer_prim:
        t_reason = 'an argument of the primitive is itself a rounded value'
    else:
        t_reason = (f'outermost operation is `{ast.unparse(body)[:40]}`, not an MPFR primitive: its result carries rc of that '
                    f'operation only (rc == 0 when exact), the ternary value of the inner primitive is discarded')
    return single, s_reason, ternary, t_reason


def _exact_scaling(body):
    """`<one primitive call on exact literals> / 2^k` or `* 2^k`: the scaling is exact in binary floating point"""
    if isinstance(body, ast.BinOp) and isinstance(body.op, (ast.Div, ast.Mult)):
        k = exact_value(body.right)
        inner = body.left
        if k is not None and k > 0 and (k.numerator & (k.numerator - 1)) == 0 and k.denominator == 1 \
                and isinstance(inner, ast.Call) and _gmp_attr(inner.func) in ROUNDING \
                and all(exact_value(a) is not None for a in inner.args):
            return True
    return False


def native_search(repo, const_name, max_p):
    ops_name = OPS_NAME.get(const_name)
    if ops_name is None:
        return {'reproduced': False, 'note': 'no public fpy2.ops wrapper for this constant'}
    try:
        out = subprocess.run(['/venv/bin/python', os.path.join(ROOT, 'tools', 'const_search.py'), const_name, ops_name, str(max_p)],
                             capture_output=True, text=True, timeout=170, env=dict(os.environ, FPY_REPO=repo))
        return json.loads(out.stdout.strip().split('\n')[-1])
    except Exception as e:
        return {'reproduced': False, 'error': f'{type(e).__name__}: {e}'}


def run(repo, search=True, max_p=64):
    """-> one report in the shape of Explorer.verify() reports"""
    import time
    t0 = time.time()
    path = os.path.join(repo, 'fpy2', 'number', 'engine', 'gmp.py')
    tree = ast.parse(open(path).read())
    table = None
    for st in tree.body:
        tgt = st.target if isinstance(st, ast.AnnAssign) else (st.targets[0] if isinstance(st, ast.Assign) else None)
        if isinstance(tgt, ast.Name) and tgt.id == '_constant_exprs' and isinstance(st.value, ast.Dict):
            table = st.value
    obl = {}
    unsupported = []
    if table is None:
        unsupported.append('gmp._constant_exprs: dict literal not found')
    else:
        for k, v in zip(table.keys, table.values):
            name = k.attr if isinstance(k, ast.Attribute) else ast.unparse(k)
            s_ok, s_why, t_ok, t_why = check_entry(v)
            native = None
            if search and not (s_ok and t_ok):
                native = native_search(repo, name, max_p)
            for clause, ok, why in (('single_rounding', s_ok, s_why), ('ternary_kept', t_ok, t_why)):
                ent = {'kind': 'syntactic', 'paths': 1, 'unsat': 1 if ok else 0, 'bounded': 0, 'open': [], 'secs': 0.0,
                       'backends': {'ast': 1}}
                if not ok:
                    ent['open'].append({'status': 'syntactic-fail', 'trace': [ast.unparse(v)], 'decisions': [], 'outcome': 'n/a',
                                        'info': {'reason': why}, 'smt2': None, 'cex': None, 'refute_status': None,
                                        'native': native})
                obl[f'gmp._constant_exprs#T4[{name}:{clause}]'] = ent
    import hashlib
    return {'contract': 'ConstTable_T4', 'target': 'fpy2.number.engine.gmp:_constant_exprs', 'case': '', 'kind': 'syntactic',
            'sha': hashlib.sha256(ast.dump(table).encode()).hexdigest()[:16] if table is not None else None,
            'paths': 1, 'explored': 1, 'unsupported': unsupported, 'crashes': [], 'obligations': obl,
            'inlined': [], 'modular': [], 'outcomes': {'checked': 1}, 'wall_s': round(time.time() - t0, 3), 'stats': {}}


if __name__ == '__main__':
    import sys
    r = run(os.environ.get('FPY_REPO', '/repo'), search='--search' in sys.argv)
    for k, o in r['obligations'].items():
        if o['open']:
            e = o['open'][0]
            print('OPEN', k, '--', e['info']['reason'])
            if e.get('native'):
                print('     native:', json.dumps(e['native']))
        else:
            print('ok  ', k)
