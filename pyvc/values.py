"""
Value domain of the symbolic interpreter.

Concrete Python ints/bools/None/str/tuples/lists/dicts/Fractions/floats are
used as-is (constant folding: with all-concrete inputs the interpreter is an
ordinary Python interpreter, which is what the CPython cross-check uses).
Symbolic scalars are z3 terms: Int sort for `int`, Bool sort for `bool`,
Real sort for `Fraction`.
"""
from __future__ import annotations

from fractions import Fraction
import z3


class Unsupported(Exception):
    """Construct outside the verified subset (exit 2, never a pass or a violation)."""


class InterpError(Exception):
    """Engine failure (exit 3)."""


class SObj:
    """An object of a repository class: concrete identity, (possibly symbolic) fields."""
    __slots__ = ('cls', 'fields', 'name')

    def __init__(self, cls, fields=None, name=None):
        self.cls = cls
        self.fields = fields if fields is not None else {}
        self.name = name

    def __repr__(self):
        return f'<{self.cls.name} {self.name or hex(id(self))}>'


class EnumV:
    """Member of a repository Enum class; `idx` is a python int or a z3 Int (index in member list)."""
    __slots__ = ('cls', 'idx')

    def __init__(self, cls, idx):
        self.cls = cls
        self.idx = idx

    def __repr__(self):
        return f'<enum {self.cls.name}[{self.idx}]>'


class EnumName:
    """`.name` of a symbolic enum member: compares against strings by member index."""
    __slots__ = ('cls', 'idx')

    def __init__(self, cls, idx):
        self.cls = cls
        self.idx = idx


class FlagV:
    """Member (or combination) of a Flag enum: integer bit set, concrete only."""
    __slots__ = ('cls', 'bits')

    def __init__(self, cls, bits: int):
        self.cls = cls
        self.bits = bits

    def __repr__(self):
        return f'<flag {self.cls.name}:{self.bits}>'

    def __eq__(self, o):
        return isinstance(o, FlagV) and o.cls == self.cls and o.bits == self.bits

    def __hash__(self):
        return hash((self.cls.qualname, self.bits))


class ExcV:
    """An exception instance: class name (+ base names for matching)."""
    __slots__ = ('name', 'bases', 'args')

    def __init__(self, name, bases, args=()):
        self.name = name
        self.bases = bases
        self.args = args

    def __repr__(self):
        return f'<exc {self.name}>'


class FuncV:
    __slots__ = ('info', 'self_obj', 'closure')

    def __init__(self, info, self_obj=None, closure=None):
        self.info = info
        self.self_obj = self_obj
        self.closure = closure

    def __repr__(self):
        return f'<func {self.info.qualname}>'


class LambdaV:
    __slots__ = ('node', 'frame')

    def __init__(self, node, frame):
        self.node = node
        self.frame = frame


class ClassV:
    __slots__ = ('info',)

    def __init__(self, info):
        self.info = info

    def __repr__(self):
        return f'<classv {self.info.qualname}>'

    def __eq__(self, o):
        return isinstance(o, ClassV) and o.info == self.info

    def __hash__(self):
        return hash(self.info.qualname)


class ExtV:
    """External (non-repository) name: builtin type, stdlib function, ... identified by dotted name."""
    __slots__ = ('name',)

    def __init__(self, name):
        self.name = name

    def __repr__(self):
        return f'<ext {self.name}>'

    def __eq__(self, o):
        return isinstance(o, ExtV) and o.name == self.name

    def __hash__(self):
        return hash(self.name)


class ModV:
    __slots__ = ('name',)

    def __init__(self, name):
        self.name = name

    def __repr__(self):
        return f'<module {self.name}>'


class BoundBuiltin:
    __slots__ = ('name', 'recv')

    def __init__(self, name, recv):
        self.name = name
        self.recv = recv


class Opaque:
    """A value the engine does not model (strings built from f-strings, RNG objects, ...)."""
    __slots__ = ('tag',)

    def __init__(self, tag):
        self.tag = tag

    def __repr__(self):
        return f'<opaque {self.tag}>'


class Lazy:
    """A not-yet-materialised symbolic value of a declared type (lazy initialisation)."""
    __slots__ = ('typ', 'name')

    def __init__(self, typ, name):
        self.typ = typ
        self.name = name

    def __repr__(self):
        return f'<lazy {self.name}: {self.typ}>'


class SymFloat:
    """
    A symbolic Python float, as its binary64 bit pattern (z3 Int in [0, 2^64)).
    """
    __slots__ = ('bits',)

    def __init__(self, bits):
        self.bits = bits


class SymSeq:
    """Symbolic-length homogeneous sequence: z3 array + length (used by loop-invariant proofs)."""
    __slots__ = ('arr', 'length', 'elem', 'name')

    def __init__(self, arr, length, elem, name):
        self.arr = arr
        self.length = length
        self.elem = elem
        self.name = name


# ---------------------------------------------------------------------------

def is_z3(v) -> bool:
    return isinstance(v, z3.ExprRef)


def is_sym_int(v) -> bool:
    return isinstance(v, z3.ArithRef) and v.is_int()


def is_sym_real(v) -> bool:
    return isinstance(v, z3.ArithRef) and v.is_real()


def is_sym_bool(v) -> bool:
    return isinstance(v, z3.BoolRef)


def is_intlike(v) -> bool:
    """python int/bool or z3 Int/Bool"""
    return isinstance(v, (int, bool)) or is_sym_int(v) or is_sym_bool(v)


def is_boollike(v) -> bool:
    return isinstance(v, bool) or is_sym_bool(v)


def is_fraclike(v) -> bool:
    return isinstance(v, Fraction) or is_sym_real(v)


def as_int(v):
    """Coerce an int-like to a python int or z3 Int."""
    if isinstance(v, bool):
        return int(v)
    if isinstance(v, int):
        return v
    if is_sym_bool(v):
        return z3.If(v, z3.IntVal(1), z3.IntVal(0))
    if is_sym_int(v):
        return v
    raise InterpError(f'not an int: {v!r}')


def as_z3int(v):
    v = as_int(v)
    if isinstance(v, int):
        return z3.IntVal(v)
    return v


def as_z3bool(v):
    if isinstance(v, bool):
        return z3.BoolVal(v)
    if is_sym_bool(v):
        return v
    raise InterpError(f'not a bool: {v!r}')


def as_z3real(v):
    if isinstance(v, Fraction):
        return z3.RealVal(f'{v.numerator}/{v.denominator}')
    if isinstance(v, (int, bool)):
        return z3.RealVal(int(v))
    if is_sym_real(v):
        return v
    if is_sym_int(v) or is_sym_bool(v):
        return z3.ToReal(as_z3int(v))
    raise InterpError(f'not a real: {v!r}')


def simp(t):
    """Light simplification; returns python constants when the term is a literal."""
    if not is_z3(t):
        return t
    t = z3.simplify(t)
    if z3.is_true(t):
        return True
    if z3.is_false(t):
        return False
    if z3.is_int_value(t):
        return t.as_long()
    if z3.is_rational_value(t) and t.is_real():
        return Fraction(t.numerator_as_long(), t.denominator_as_long())
    return t
