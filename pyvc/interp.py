"""
Path-exploring symbolic interpreter for the Python subset used by fpy2's
number library (see DESIGN.md §2.2).

One `Path` object executes one path from the beginning, following a recorded
prefix of decisions; forks enqueue new prefixes in the `Explorer`.  Control
flow is concrete on each path; only scalars are symbolic.  Simple `if`s,
conditional expressions and boolean operators are merged into `ite` terms when
both sides can be evaluated without forking or raising; otherwise the path
forks.
"""
from __future__ import annotations

import ast
import math
import operator
from fractions import Fraction

import z3

from . import seqs, theory
from .source import ClassInfo, FunctionInfo, ModuleInfo, SourceIndex
from .types import TypeParser
from . import containers   # containers
from .containers import SymKey, SymMap, SymSet   # containers
from . import ufmaps   # ufmaps
from .values import (BoundBuiltin, ClassV, EnumName, EnumV, ExcV, ExtV, FlagV, FuncV, InterpError,
                     LambdaV, Lazy, ModV, Opaque, SObj, SymFloat, Unsupported, as_int,
                     as_z3bool, as_z3int, as_z3real, is_boollike, is_fraclike, is_intlike,
                     is_sym_bool, is_sym_int, is_sym_real, is_z3, simp)

MISSING = object()


class Ctl(Exception):
    pass


class SymRaise(Ctl):
    def __init__(self, exc: ExcV, where=None):
        self.exc = exc
        self.where = where


class _Return(Ctl):
    def __init__(self, value):
        self.value = value


class _Break(Ctl):
    pass


class _Continue(Ctl):
    pass


class MergeAbort(Ctl):
    pass


class PathInfeasible(Ctl):
    pass


BUILTIN_EXC_BASES = {
    'BaseException': (),
    'Exception': ('BaseException',),
    'ArithmeticError': ('Exception',),
    'ZeroDivisionError': ('ArithmeticError',),
    'OverflowError': ('ArithmeticError',),
    'AssertionError': ('Exception',),
    'AttributeError': ('Exception',),
    'LookupError': ('Exception',),
    'IndexError': ('LookupError',),
    'KeyError': ('LookupError',),
    'NotImplementedError': ('RuntimeError',),
    'RuntimeError': ('Exception',),
    'TypeError': ('Exception',),
    'ValueError': ('Exception',),
    'StopIteration': ('Exception',),
    'NameError': ('Exception',),
}


def exc_bases(name: str) -> tuple:
    out = []
    todo = [name]
    while todo:
        n = todo.pop()
        for b in BUILTIN_EXC_BASES.get(n, ()):
            if b not in out:
                out.append(b)
                todo.append(b)
    return tuple(out)


def mk_exc(name: str, args=()) -> ExcV:
    return ExcV(name, exc_bases(name), args)


from .mapseq import LazyComp as LazyComp_   # mapseq (C19x)
from . import eagergen   # eager generators (C19x)


class Frame:
    __slots__ = ('locals', 'module', 'fn', 'cls', 'parent')

    def __init__(self, module: ModuleInfo, fn=None, cls=None, parent=None):
        self.locals = {}
        self.module = module
        self.fn = fn
        self.cls = cls
        self.parent = parent


class Obligation:
    __slots__ = ('name', 'kind', 'pc', 'goal', 'info')

    def __init__(self, name, kind, pc, goal, info=None):
        self.name = name
        self.kind = kind
        self.pc = pc
        self.goal = goal
        self.info = info or {}


class Txn:
    __slots__ = ('log', 'npc', 'nobl', 'inner', 'fresh', 'keep')

    def __init__(self, npc, nobl):
        self.log = []
        self.npc = npc
        self.nobl = nobl
        self.inner = []
        self.fresh = set()
        self.keep = []


_BUILTIN_NAMES = {
    'isinstance', 'len', 'min', 'max', 'abs', 'int', 'bool', 'float', 'str', 'range', 'enumerate',
    'zip', 'tuple', 'list', 'dict', 'set', 'frozenset', 'sorted', 'sum', 'all', 'any', 'hash', 'type',
    'repr', 'print', 'divmod', 'pow', 'round', 'reversed', 'callable', 'getattr', 'hasattr', 'object',
    'super', 'id', 'iter', 'next', 'map', 'filter', 'issubclass', 'NotImplemented', 'Ellipsis',
    'staticmethod', 'classmethod', 'property',
} | set(BUILTIN_EXC_BASES)


class Path:
    def __init__(self, explorer: 'Explorer', prefix: list):
        self.ex = explorer
        self.index: SourceIndex = explorer.index
        self.prefix = prefix
        self.decisions: list = []
        self.facts: list = []       # assumptions about inputs / callee postconditions (never rolled back)
        self.pc: list = []          # branch conditions
        self.obligations: list[Obligation] = []
        self.txns: list[Txn] = []
        self.counter = 0
        self.depth = 0
        self.inputs: dict = {}      # name -> forced input objects (for models)
        self.trace: list = []       # human-readable branch trace
        self.in_global = 0
        self.inlined: set = set()
        self.modular: set = set()
        self.modular_calls: dict = {}
        self.merge_inner: list | None = None
        self.loop_guard = None      # containers: write check while a loop body is verified by invariant

    # ------------------------------------------------------------------ pc
    def all_pc(self):
        return self.facts + self.pc

    def assume(self, cond, fact=False):
        cond = simp(cond) if is_z3(cond) else cond
        if cond is True:
            return
        if cond is False:
            raise PathInfeasible()
        cond = as_z3bool(cond)
        if fact:
            self.facts.append(cond)
        else:
            self.pc.append(cond)

    def feasible(self, cond) -> bool:
        """Is pc ∧ cond satisfiable?  unknown counts as feasible."""
        self.ex.stats['feas_checks'] += 1
        s = z3.Solver()
        s.set('timeout', self.ex.feas_timeout_ms)
        fs = self.all_pc() + [cond]
        for f in fs:
            s.add(f)
        if self.ex.feas_axioms:
            # quantified mode: feasibility checks get no pairwise schemas at all (a quantifier makes `sat` come back
            # as `unknown` after the full timeout; unknown counts as feasible anyway)
            ax, _ = theory.instantiate(fs, rounds=1, heavy=False, quant=('skip' if (self.ex.quant or self.ex.feas_light) else False))
            for a in ax:
                s.add(a)
        r = s.check()
        if r == z3.unknown:
            # a loaded machine must not change the set of explored paths: one longer retry before giving up
            s.set('timeout', self.ex.feas_timeout_ms * 8)
            r = s.check()
        return r != z3.unsat

    def branch(self, cond, what='') -> bool:
        """Decide a (possibly symbolic) condition; forks the path when both outcomes are feasible."""
        if isinstance(cond, bool):
            return cond
        cond = simp(cond)
        if isinstance(cond, bool):
            return cond
        if not is_sym_bool(cond):
            raise InterpError(f'branch on non-bool {cond!r}')
        if self.in_global:
            raise InterpError('symbolic branch while evaluating a module-level constant')
        if self.txns:
            # inside a merge attempt: only one-sided conditions may proceed
            inner = self.merge_inner
            if inner is not None and inner[0] < len(inner[1]):
                d = inner[1][inner[0]]
                inner[0] += 1
                if d == 'X':
                    raise MergeAbort()
            else:
                t = self.feasible(cond)
                f = self.feasible(z3.Not(cond))
                if t == f:
                    if inner is not None:
                        inner[1].append('X')
                        inner[0] += 1
                    raise MergeAbort()
                d = t
                if inner is not None:
                    inner[1].append(d)
                    inner[0] += 1
            self.pc.append(cond if d else z3.Not(cond))
            return d
        pos = len(self.decisions)
        if pos < len(self.prefix):
            ent = self.prefix[pos]
            if ent[0] != 'B':
                raise InterpError(f'nondeterministic replay: expected B at {pos}, got {ent}')
            d = ent[1]
            self.decisions.append(ent)
        else:
            t = self.feasible(cond)
            f = self.feasible(z3.Not(cond))
            if t and f:
                d = True
                self.ex.enqueue(self.decisions + [('B', False)])
            elif t:
                d = True
            elif f:
                d = False
            else:
                raise PathInfeasible()
            self.decisions.append(('B', d))
        self.pc.append(cond if d else z3.Not(cond))
        if what:
            self.trace.append(f'{what}={d}')
        return d

    def fresh_name(self, base: str) -> str:
        self.counter += 1
        return f'{base}!{self.counter}'

    # --------------------------------------------------------------- merge
    def write(self, container: dict, key, value):
        if self.loop_guard is not None:
            containers.check_write(self, container, key)   # containers
        if self.txns:
            cid = id(container)
            if not any(cid in t.fresh for t in self.txns):
                self.txns[-1].log.append((container, key, container.get(key, MISSING)))
        container[key] = value

    def new_dict(self, d: dict):
        """register a dict (frame locals / object fields) created during a merge attempt"""
        if self.loop_guard is not None:   # containers
            self.loop_guard['fresh'].add(id(d))
            self.loop_guard['keep'].append(d)
        if self.txns:
            self.txns[-1].fresh.add(id(d))
            self.txns[-1].keep.append(d)
        return d

    def _begin(self) -> Txn:
        t = Txn(len(self.pc), len(self.obligations))
        self.txns.append(t)
        return t

    def _rollback(self, t: Txn):
        assert self.txns and self.txns[-1] is t
        self.txns.pop()
        finals = {}
        for (c, k, old) in reversed(t.log):
            key = (id(c), k)
            if key not in finals:
                finals[key] = (c, k, c.get(k, MISSING))
            if old is MISSING:
                c.pop(k, None)
            else:
                c[k] = old
        del self.pc[t.npc:]
        del self.obligations[t.nobl:]
        return finals

    def try_merge(self, cond, then_fn, else_fn):
        """
        Evaluate both alternatives speculatively and merge their effects with ite(cond, ., .).
        then_fn / else_fn return a value (or None).  Raises MergeAbort if not mergeable.
        """
        if not self.ex.merging:
            raise MergeAbort()
        top = not self.txns
        if top:
            pos = len(self.decisions)
            if pos < len(self.prefix):
                ent = self.prefix[pos]
                if ent[0] not in ('M', 'A'):
                    raise InterpError(f'nondeterministic replay: expected M/A at {pos}, got {ent}')
                # an aborted attempt is re-run too: speculation may materialise lazy inputs
                self.merge_inner = [0, list(ent[1])]
            else:
                self.merge_inner = [0, []]
        try:
            results = []
            for c, fn in ((cond, then_fn), (z3.Not(cond), else_fn)):
                t = self._begin()
                try:
                    self.pc.append(c)
                    v = fn()
                    nob = len(self.obligations)
                    if nob != t.nobl:
                        raise MergeAbort()
                except (SymRaise, _Return, _Break, _Continue, MergeAbort, PathInfeasible, Unsupported):
                    # (Unsupported: the speculated arm may be dead; the fork below decides feasibility first)
                    self._rollback(t)
                    raise MergeAbort()
                finals = self._rollback(t)
                results.append((v, finals))
            (v1, w1), (v2, w2) = results
            if self.ex.merge_light_only:
                for v in [v1, v2] + [w[2] for w in w1.values()] + [w[2] for w in w2.values()]:
                    if self.is_heavy(v):
                        raise MergeAbort()
            merged_writes = []
            for key in set(w1) | set(w2):
                c_, k_, _ = (w1.get(key) or w2.get(key))
                cur = c_.get(k_, MISSING)
                a = w1[key][2] if key in w1 else cur
                b = w2[key][2] if key in w2 else cur
                if a is MISSING or b is MISSING:
                    raise MergeAbort()
                merged_writes.append((c_, k_, self.ite_value(cond, a, b)))
            mv = self.ite_value(cond, v1, v2)
        except MergeAbort:
            if top:
                inner = tuple(self.merge_inner[1])
                self.merge_inner = None
                pos = len(self.decisions)
                if pos < len(self.prefix) and self.prefix[pos][0] != 'A':
                    raise InterpError('nondeterministic replay: merge aborted on replay')
                self.decisions.append(('A', inner))
            raise
        if top:
            pos = len(self.decisions)
            if pos < len(self.prefix) and self.prefix[pos][0] != 'M':
                raise InterpError('nondeterministic replay: merge succeeded on replay of an aborted one')
            self.decisions.append(('M', tuple(self.merge_inner[1])))
            self.merge_inner = None
        for (c_, k_, v_) in merged_writes:
            self.write(c_, k_, v_)
        return mv

    def is_heavy(self, v) -> bool:
        """does a value contain pow2 / bit_length / division terms (merging those hurts the solver)?"""
        if isinstance(v, (tuple, list)):
            return any(self.is_heavy(x) for x in v)
        if isinstance(v, EnumV):
            return self.is_heavy(v.idx)
        if not is_z3(v) or is_sym_bool(v):
            return False
        p2, bls, dms, ipows = theory._collect1(v)
        if p2 or bls or ipows:
            return True
        return any(not z3.is_int_value(t.arg(1)) for t in dms.values())

    def ite_value(self, cond, a, b):
        if a is b:
            return a
        if a is None and b is None:
            return None
        if is_boollike(a) and is_boollike(b):
            if isinstance(a, bool) and isinstance(b, bool) and a == b:
                return a
            return simp(z3.If(cond, as_z3bool(a), as_z3bool(b)))
        if is_intlike(a) and is_intlike(b) and not isinstance(a, bool) and not isinstance(b, bool) \
                and not is_sym_bool(a) and not is_sym_bool(b):
            if isinstance(a, int) and isinstance(b, int) and a == b:
                return a
            return simp(z3.If(cond, as_z3int(a), as_z3int(b)))
        if is_fraclike(a) and is_fraclike(b):
            return simp(z3.If(cond, as_z3real(a), as_z3real(b)))
        if isinstance(a, EnumV) and isinstance(b, EnumV) and a.cls == b.cls:
            if isinstance(a.idx, int) and isinstance(b.idx, int) and a.idx == b.idx:
                return a
            return EnumV(a.cls, simp(z3.If(cond, as_z3int(a.idx), as_z3int(b.idx))))
        if isinstance(a, tuple) and isinstance(b, tuple) and len(a) == len(b):
            return tuple(self.ite_value(cond, x, y) for x, y in zip(a, b))
        if isinstance(a, str) and isinstance(b, str) and a == b:
            return a
        if isinstance(a, Opaque) and isinstance(b, Opaque):
            return a
        if isinstance(a, seqs.KINDS) or isinstance(b, seqs.KINDS):
            return seqs.ite_value(self, cond, a, b)
        if isinstance(a, SymKey) and isinstance(b, SymKey) and a.kname == b.kname:   # containers
            return containers.ite_key(cond, a, b)
        raise MergeAbort()

    # --------------------------------------------------------------- force
    def force(self, lz: Lazy):
        """Materialise a lazy symbolic value."""
        typ = lz.typ
        ov = self.ex.overrides.get(lz.name)
        if ov is not None and not (ov == ('numstr',) and typ != ('str',)):
            typ = ov          # (a 'numstr' override only refines a field declared `str`)
        return self.fresh(typ, lz.name)

    def fresh(self, typ, name: str):
        k = typ[0]
        r = seqs.fresh_hook(self, typ, name)
        if r is not seqs.NOT_HANDLED:
            return r
        if k == 'int':
            return z3.Int(name)
        if k == 'bool':
            return z3.Bool(name)
        if k == 'none':
            return None
        if k == 'frac':
            return z3.Real(name)
        if k == 'default':
            return self.global_value('fpy2.utils.default', 'DEFAULT')
        if k == 'enum':
            ci = typ[1]
            n = len(self.index.enum_members(ci))
            if self.index.is_flag_enum(ci):
                raise Unsupported(f'symbolic flag enum {ci.name}')
            idx = z3.Int(name)
            self.assume(z3.And(idx >= 0, idx < n), fact=True)
            return EnumV(ci, idx)
        if k == 'obj':
            ci = typ[1]
            obj = SObj(ci, {}, name)
            for f, (owner, ann) in self.index.fields(ci).items():
                ft = self.ex.types.parse(ann, owner.module.name, ci)
                obj.fields[f] = Lazy(ft, f'{name}.{f}')
            self.inputs[name] = obj
            for f in list(obj.fields):   # containers: a union-typed override is resolved now, so that quantified
                ov = self.ex.overrides.get(f'{name}.{f}')   # spec clauses over the field never have to fork
                if ov is not None and ov[0] == 'union':
                    obj.fields[f] = self.force(obj.fields[f])
            inv = self.ex.invariants.get(ci.qualname)
            if inv is None:
                for c in self.index.mro(ci):
                    inv = self.ex.invariants.get(c.qualname)
                    if inv is not None:
                        break
            if inv is not None:
                v = self.call_function(FuncV(inv), [obj], {})
                self.assume(self.truthy(v), fact=True)
            return obj
        if k == 'union':
            alts = typ[1]
            if len(alts) == 1:
                return self.fresh(alts[0], name)
            tag = z3.Int(name + '#tag')
            self.assume(z3.And(tag >= 0, tag < len(alts)), fact=True)
            for i, a in enumerate(alts[:-1]):
                if self.branch(tag == i, f'{name} is {a[0] if a[0] not in ("obj", "enum") else a[1].name}'):
                    return self.fresh(a, name)
            return self.fresh(alts[-1], name)
        if k == 'tuple':
            return tuple(self.fresh(t, f'{name}.{i}') for i, t in enumerate(typ[1]))
        if k == 'fconst':
            return float(typ[1])
        if k == 'float':
            b = z3.Int(name + '#bits')
            self.assume(z3.And(b >= 0, b < (1 << 64)), fact=True)
            return SymFloat(b)
        if k in ('key', 'map', 'set', 'kseq', 'relmap'):   # containers
            return containers.fresh(self, typ, name)
        if k == 'opaque' and typ[1] == 'AbsList':   # abslist
            from . import abslist
            return abslist.fresh(self, name)
        if k == 'opaque':
            return Opaque(f'{name}:{typ[1]}')
        if k == 'any':
            return Opaque(f'{name}:any')
        if k == 'str':
            return Opaque(f'{name}:str')
        if k == 'const':
            return typ[1]
        if k == 'numstr':
            from .strings import SymStr
            return SymStr(None, name)
        raise Unsupported(f'fresh value of type {typ}')

    # ------------------------------------------------------------- globals
    def global_value(self, modname: str, name: str):
        key = (modname, name)
        cache = self.ex.global_cache
        if key in cache:
            return cache[key]
        r = self.index.lookup(modname, name)
        if r is None:
            mi = self.index.module(modname)
            if mi is not None and 'speclib' in mi.star_imports and hasattr(self.ex.intrinsics, 's_' + name):
                v = ExtV(f'speclib.{name}')
                cache[key] = v
                return v
            if name in _BUILTIN_NAMES:
                v = ExtV(f'builtins.{name}')
                cache[key] = v
                return v
            raise SymRaise(mk_exc('NameError'), f'{modname}.{name}')
        v = self._resolve(r)
        cache[key] = v
        return v

    def _resolve(self, r):
        kind = r[0]
        if kind == 'function':
            return FuncV(r[1])
        if kind == 'class':
            return ClassV(r[1])
        if kind == 'module':
            return ModV(r[1])
        if kind == 'external':
            return ExtV(f'{r[1]}.{r[2]}')
        if kind == 'assign':
            mi, expr = r[1], r[2]
            self.in_global += 1
            try:
                return self.ev(expr, Frame(mi))
            finally:
                self.in_global -= 1
        raise InterpError(f'cannot resolve {r}')

    def lookup_name(self, name: str, fr: Frame):
        f = fr
        while f is not None:
            if name in f.locals:
                v = f.locals[name]
                if isinstance(v, Lazy):
                    v = self.force(v)
                    f.locals[name] = v
                return v
            f = f.parent
        return self.global_value(fr.module.name, name)

    # --------------------------------------------------------- expressions
    def ev(self, node: ast.expr, fr: Frame):
        m = getattr(self, 'ev_' + type(node).__name__, None)
        if m is None:
            raise Unsupported(f'expression {type(node).__name__} at {fr.module.name}:{getattr(node, "lineno", "?")}')
        return m(node, fr)

    def ev_Constant(self, node, fr):
        return node.value

    def ev_Name(self, node, fr):
        return self.lookup_name(node.id, fr)

    def ev_JoinedStr(self, node, fr):
        from . import derivedseq   # names built by f-strings (C04)
        r = derivedseq.try_fstring(self, node, fr)
        return Opaque('fstring') if r is None else r

    def ev_Tuple(self, node, fr):
        from . import mapseq   # mapseq: `(*a, x, *b)` over symbolic sequences (C19x)
        r = mapseq.starred_tuple(self, node, fr)
        if r is not seqs.NOT_HANDLED:
            return r
        out = []
        for e in node.elts:
            if isinstance(e, ast.Starred):
                out.extend(self.iterate(self.ev(e.value, fr)))
            else:
                out.append(self.ev(e, fr))
        return tuple(out)

    def ev_List(self, node, fr):
        return list(self.ev_Tuple(node, fr))

    def ev_Set(self, node, fr):
        return set(self.ev_Tuple(node, fr))

    def ev_Dict(self, node, fr):
        d = {}
        for k, v in zip(node.keys, node.values):
            if k is None:
                d.update(self.ev(v, fr))
            else:
                d[self.hashable(self.ev(k, fr))] = self.ev(v, fr)
        return d

    def hashable(self, v):
        if isinstance(v, EnumV):
            if not isinstance(v.idx, int):
                raise Unsupported('symbolic enum as dict key')
            return ('#enum', v.cls.qualname, v.idx)
        if isinstance(v, tuple):
            return tuple(self.hashable(x) for x in v)
        if is_z3(v):
            raise Unsupported('symbolic dict key')
        return v

    def ev_Lambda(self, node, fr):
        return LambdaV(node, fr)

    def ev_IfExp(self, node, fr):
        c = self.truthy(self.ev(node.test, fr))
        if isinstance(c, bool):
            return self.ev(node.body if c else node.orelse, fr)
        try:
            return self.try_merge(c, lambda: self.ev(node.body, fr), lambda: self.ev(node.orelse, fr))
        except MergeAbort:
            pass
        if self.branch(c, f'ifexp@{node.lineno}'):
            return self.ev(node.body, fr)
        return self.ev(node.orelse, fr)

    def ev_BoolOp(self, node, fr):
        is_and = isinstance(node.op, ast.And)
        vals = node.values

        def go(i):
            v = self.ev(vals[i], fr)
            if i == len(vals) - 1:
                return v
            t = self.truthy(v)
            if isinstance(t, bool):
                if t == is_and:
                    return go(i + 1)
                return v
            # symbolic: try to merge
            if is_boollike(v):
                try:
                    if is_and:
                        return self.try_merge(t, lambda: self._boolify(go(i + 1)), lambda: False)
                    else:
                        return self.try_merge(t, lambda: True, lambda: self._boolify(go(i + 1)))
                except MergeAbort:
                    pass
            if self.branch(t, f'boolop@{node.lineno}'):
                return go(i + 1) if is_and else v
            else:
                return v if is_and else go(i + 1)
        return go(0)

    def _boolify(self, v):
        if not is_boollike(v):
            raise MergeAbort()
        return v

    def ev_UnaryOp(self, node, fr):
        v = self.ev(node.operand, fr)
        op = node.op
        if isinstance(op, ast.Not):
            t = self.truthy(v)
            return (not t) if isinstance(t, bool) else simp(z3.Not(t))
        if isinstance(v, SObj):
            dn = {ast.USub: '__neg__', ast.UAdd: '__pos__', ast.Invert: '__invert__'}[type(op)]
            return self.call_method(v, dn, [], {})
        if isinstance(v, FlagV) and isinstance(op, ast.Invert):
            allbits = 0
            for _, e in self.index.enum_members(v.cls):
                pass
            raise Unsupported('~ on flag')
        if isinstance(op, ast.USub):
            if isinstance(v, SymFloat):
                # -x flips the sign bit (also of NaN and zero)
                return self.ex.intrinsics.float_neg(self, v)
            if isinstance(v, (int, float, Fraction)) and not is_z3(v):
                return -v
            if is_fraclike(v):
                return -as_z3real(v)
            return simp(-as_z3int(v))
        if isinstance(op, ast.UAdd):
            return as_int(v) if is_intlike(v) else v
        if isinstance(op, ast.Invert):
            if isinstance(v, int):
                return ~v
            return simp(-as_z3int(v) - 1)
        raise Unsupported(f'unary {op}')

    def ev_BinOp(self, node, fr):
        a = self.ev(node.left, fr)
        b = self.ev(node.right, fr)
        return self.binop(type(node.op), a, b, node)

    def ev_Compare(self, node, fr):
        left = self.ev(node.left, fr)
        result = None
        for op, rn in zip(node.ops, node.comparators):
            right = self.ev(rn, fr)
            r = self.compare(type(op), left, right)
            if result is None:
                result = r
            else:
                if isinstance(result, bool) and isinstance(r, bool):
                    result = result and r
                elif result is False or r is False:
                    result = False
                else:
                    result = simp(z3.And(as_z3bool(result), as_z3bool(r)))
            left = right
        return result

    def ev_Attribute(self, node, fr):
        v = self.ev(node.value, fr)
        return self.getattr(v, node.attr)

    def ev_Subscript(self, node, fr):
        v = self.ev(node.value, fr)
        if isinstance(node.slice, ast.Slice):
            lo = self.ev(node.slice.lower, fr) if node.slice.lower else None
            hi = self.ev(node.slice.upper, fr) if node.slice.upper else None
            st = self.ev(node.slice.step, fr) if node.slice.step else None
            if isinstance(v, seqs.SymSeq):   # derived sequences (C04)
                from . import derivedseq
                return derivedseq.slice_of(self, v, lo, hi, st)
            if any(is_z3(x) for x in (lo, hi, st)):
                raise Unsupported('symbolic slice')
            return v[lo:hi:st]
        k = self.ev(node.slice, fr)
        return self.getitem(v, k)

    def getitem(self, v, k):
        if isinstance(v, seqs.KINDS):
            return seqs.getitem(self, v, k)
        if isinstance(v, (tuple, list, str)):
            if is_z3(k):
                k = simp(k)
            if is_z3(k):
                # symbolic index into a concrete sequence: case split
                n = len(v)
                for i in range(n):
                    if self.branch(as_z3int(k) == i, f'index=={i}'):
                        return v[i]
                    if self.branch(as_z3int(k) == i - n, f'index=={i - n}'):
                        return v[i]
                raise SymRaise(mk_exc('IndexError'))
            try:
                return v[k]
            except IndexError:
                raise SymRaise(mk_exc('IndexError'))
        if isinstance(v, dict):
            if isinstance(k, EnumV) and not isinstance(k.idx, int):
                for kk, vv in v.items():
                    if isinstance(kk, tuple) and kk and kk[0] == '#enum' and kk[1] == k.cls.qualname:
                        if self.branch(as_z3int(k.idx) == kk[2], f'key=={kk[2]}'):
                            return vv
                raise SymRaise(mk_exc('KeyError'))
            hk = self.hashable(k)
            if hk in v:
                return v[hk]
            raise SymRaise(mk_exc('KeyError'))
        if isinstance(v, ufmaps.SymRelMap):   # ufmaps
            return ufmaps.getitem(self, v, k)
        if isinstance(v, SymMap):   # containers
            return containers.map_getitem(self, v, k)
        if isinstance(v, containers.SymKeySeq):   # absnodes
            from . import absnodes
            return absnodes.kseq_getitem(self, v, k)
        if isinstance(v, SObj):
            return self.call_method(v, '__getitem__', [k], {})
        if isinstance(v, (ExtV, ClassV)):
            return v   # generic alias, e.g. list[int]
        raise Unsupported(f'subscript of {v!r}')

    def ev_Call(self, node, fr):
        # super().__init__(...)
        fnode = node.func
        if seqs.is_message_join(node):
            return Opaque('str')
        args = []
        for a in node.args:
            if isinstance(a, ast.Starred):
                args.extend(self.iterate(self.ev(a.value, fr)))
            else:
                args.append(self.ev(a, fr))
        kwargs = {}
        for kw in node.keywords:
            if kw.arg is None:
                d = self.ev(kw.value, fr)
                kwargs.update(d)
            else:
                kwargs[kw.arg] = self.ev(kw.value, fr)
        if isinstance(fnode, ast.Attribute) and isinstance(fnode.value, ast.Call) \
                and isinstance(fnode.value.func, ast.Name) and fnode.value.func.id == 'super':
            cls = fr.cls
            selfv = fr.locals.get('self') or fr.locals.get('cls')
            if cls is None or selfv is None:
                raise Unsupported('super() outside method')
            if isinstance(selfv, SObj):
                mro = self.index.mro(selfv.cls)
            else:
                mro = self.index.mro(selfv.info)
            i = mro.index(cls)
            for c in mro[i + 1:]:
                if fnode.attr in c.methods:
                    return self.call_function(FuncV(c.methods[fnode.attr], selfv), args, kwargs)
            if fnode.attr == '__init__':
                return None
            raise Unsupported(f'super().{fnode.attr} not found')
        f = self.ev(fnode, fr)
        return self.call(f, args, kwargs, node)

    def ev_ListComp(self, node, fr):
        return self._comp(node, fr, lambda f: self.ev(node.elt, f))

    def ev_GeneratorExp(self, node, fr):
        from . import absnodes   # absnodes
        try:
            return self._comp(node, fr, lambda f: self.ev(node.elt, f))
        except absnodes.CompOverSymSet as e:
            return e.image

    def ev_SetComp(self, node, fr):
        return set(self.hashable(x) for x in self._comp(node, fr, lambda f: self.ev(node.elt, f)))

    def ev_DictComp(self, node, fr):
        items = self._comp(node, fr, lambda f: (self.hashable(self.ev(node.key, f)), self.ev(node.value, f)))
        return dict(items)

    def _comp(self, node, fr, elt):
        out = []
        inner = Frame(fr.module, fr.fn, fr.cls, parent=fr)
        self.new_dict(inner.locals)

        def rec(i):
            if i == len(node.generators):
                out.append(elt(inner))
                return
            g = node.generators[i]
            it_ = self.ev(g.iter, inner)
            if isinstance(it_, (SymSet, ufmaps.SymRow)):   # absnodes: `f(x) for x in <symbolic set>` (for any / all)
                from . import absnodes
                it_ = absnodes.as_symset(it_)
                raise absnodes.CompOverSymSet(absnodes.comp_over_symset(self, node, fr, it_))
            if i == 0 and isinstance(it_, seqs.SymSeq):   # mapseq: effect-free comprehension over a symbolic sequence (C19x)
                from . import mapseq
                r = mapseq.comp_over_seq(self, node, inner, it_, 'list')
                if r is not seqs.NOT_HANDLED:
                    raise mapseq.LazyComp(r)
            if type(it_).__name__ == 'AbsList':   # abslist: splice of an abstract list
                from . import abslist
                out.append(abslist.comp_splice(self, node, i, it_))
                return
            for item in self.iterate(it_):
                self.assign(g.target, item, inner)
                ok = True
                for cnd in g.ifs:
                    t = self.truthy(self.ev(cnd, inner))
                    if not self.branch(t, 'comp-if'):
                        ok = False
                        break
                if ok:
                    rec(i + 1)
        try:
            rec(0)
        except LazyComp_ as e:   # mapseq
            return e.seq
        if out and any(type(x).__name__ == 'Splice' for x in out):   # abslist
            from . import abslist
            return abslist.comp_result(out)
        return out

    def ev_Yield(self, node, fr):   # eagergen
        return eagergen.ev_Yield(self, node, fr)

    def ev_YieldFrom(self, node, fr):   # eagergen
        return eagergen.ev_YieldFrom(self, node, fr)

    def ev_Starred(self, node, fr):
        raise Unsupported('starred')

    def ev_NamedExpr(self, node, fr):
        v = self.ev(node.value, fr)
        self.assign(node.target, v, fr)
        return v

    # ---------------------------------------------------------- primitives
    def truthy(self, v):
        if isinstance(v, bool) or is_sym_bool(v):
            return v
        if v is None:
            return False
        if isinstance(v, (int, float, Fraction, str, tuple, list, dict, set)):
            return bool(v)
        if is_sym_int(v):
            return simp(v != 0)
        if is_sym_real(v):
            return simp(v != 0)
        if isinstance(v, SObj):
            m = self.index.find_method(v.cls, '__bool__')
            if m is not None:
                return self.truthy(self.call_function(FuncV(m, v), [], {}))
            m = self.index.find_method(v.cls, '__len__')
            if m is not None:
                return self.truthy(self.call_function(FuncV(m, v), [], {}))
            return True
        if isinstance(v, EnumV):
            return True
        if isinstance(v, FlagV):
            return v.bits != 0
        if isinstance(v, (FuncV, ClassV, ExtV, ModV, LambdaV)):
            return True
        if type(v).__name__ == 'FreeCons':
            return True
        if isinstance(v, SymFloat):
            raise Unsupported('truthiness of symbolic float')
        if isinstance(v, seqs.KINDS):
            return seqs.truthy(self, v)
        if isinstance(v, containers.SYM):   # absnodes
            from . import absnodes
            return absnodes.truthy(self, v)
        if type(v).__name__ == 'SymStr':
            from . import strings
            return strings.truthy(self, v)
        if type(v).__name__ in ('MatchV', 'RegexV'):
            return True
        if type(v).__name__ == 'AbsList':   # abslist
            from . import abslist
            return abslist.truthy(self, v)
        raise Unsupported(f'truthiness of {v!r}')

    def binop(self, op, a, b, node=None):
        # object operands -> dunder dispatch
        if isinstance(a, SObj) or isinstance(b, SObj):
            return self.binop_obj(op, a, b)
        if isinstance(a, SymSet) or isinstance(b, SymSet):   # containers
            return containers.set_binop(self, op, a, b)
        if isinstance(a, FlagV) and isinstance(b, FlagV):
            if op is ast.BitOr:
                return FlagV(a.cls, a.bits | b.bits)
            if op is ast.BitAnd:
                return FlagV(a.cls, a.bits & b.bits)
            if op is ast.BitXor:
                return FlagV(a.cls, a.bits ^ b.bits)
        if op is ast.BitOr and isinstance(a, (ClassV, ExtV, tuple)) and isinstance(b, (ClassV, ExtV, tuple)) \
                or (op is ast.BitOr and (a is None or b is None) and isinstance(a if b is None else b, (ClassV, ExtV, tuple))):
            # type union
            ta = a if isinstance(a, tuple) else (a,)
            tb = b if isinstance(b, tuple) else (b,)
            return ta + tb
        if isinstance(a, Opaque) or isinstance(b, Opaque):
            return seqs.opaque_binop(op, a, b)
        if op is ast.Add and isinstance(a, list) and type(b) is seqs.SymSeq and b.kind == 'list':
            from . import derivedseq
            return derivedseq.PrefixSeq(list(a), b)
        if op is ast.Add and (isinstance(a, seqs.SymSeq) or isinstance(b, seqs.SymSeq)):
            raise Unsupported(f'concatenation {a!r} + {b!r} of symbolic-length sequences')
        conc = not is_z3(a) and not is_z3(b)
        if conc and not isinstance(a, SymFloat) and not isinstance(b, SymFloat):
            return self.binop_concrete(op, a, b)
        if (isinstance(a, float) and is_sym_int(b)) or (isinstance(b, float) and is_sym_int(a)):
            r = self._binop_int_nonfinite_float(op, a, b)
            if r is not MISSING:
                return r
        if isinstance(a, SymFloat) or isinstance(b, SymFloat) or isinstance(a, float) or isinstance(b, float):
            if op is ast.Mult and isinstance(a, SymFloat) and isinstance(b, float):
                return self.ex.intrinsics.float_mul_unit(self, a, b)
            if op is ast.Mult and isinstance(b, SymFloat) and isinstance(a, float):
                return self.ex.intrinsics.float_mul_unit(self, b, a)
            raise Unsupported('symbolic float arithmetic')
        if is_fraclike(a) or is_fraclike(b):
            return self.binop_real(op, a, b)
        if is_intlike(a) and is_intlike(b):
            return self.binop_int(op, a, b)
        if isinstance(a, (tuple, list)) and isinstance(b, (tuple, list)) and op is ast.Add:
            return a + b
        raise Unsupported(f'binop {op.__name__} on {a!r}, {b!r}')

    _FLOAT_CONV_LIMIT = 2 ** 1024 - 2 ** 970      # float(k) raises OverflowError iff |k| >= this

    def _binop_int_nonfinite_float(self, op, a, b):
        """
        symbolic int (+,-,*) concrete inf/nan float, exact CPython semantics: the int is converted
        to a double first (OverflowError when |k| >= 2^1024 - 2^970), then IEEE arithmetic with inf/nan.
        Finite floats are not handled here (returns MISSING).
        """
        f, k, f_left = (a, b, True) if isinstance(a, float) else (b, a, False)
        if math.isfinite(f) or op not in (ast.Add, ast.Sub, ast.Mult):
            return MISSING
        L = self._FLOAT_CONV_LIMIT
        if self.branch(simp(z3.Or(k >= L, k <= -L)), 'int->float overflow'):
            raise SymRaise(mk_exc('OverflowError'))
        if math.isnan(f):
            return f
        if op is ast.Add:
            return f
        if op is ast.Sub:
            return f if f_left else -f
        # Mult: 0 * inf = nan, sign otherwise
        if self.branch(simp(k == 0), 'int*inf: int==0'):
            return float('nan')
        return f if self.branch(simp(k > 0), 'int*inf: int>0') else -f

    def _cmp_sym_conc_float(self, op, a, b):
        """ordering / equality between a symbolic int or Fraction and a concrete float: exact (as CPython)"""
        f, x, f_left = (a, b, True) if isinstance(a, float) else (b, a, False)
        if math.isnan(f):
            return op is ast.NotEq
        if math.isinf(f):
            if op is ast.Eq:
                return False
            if op is ast.NotEq:
                return True
            f_greater = f > 0
            # f_left: f OP x ; else x OP f
            if op in (ast.Gt, ast.GtE):
                return f_greater if f_left else not f_greater
            return (not f_greater) if f_left else f_greater
        fr = Fraction(f)
        x_ = as_z3real(x) if (is_fraclike(x) or fr.denominator != 1) else as_z3int(x)
        c_ = as_z3real(fr) if (is_fraclike(x) or fr.denominator != 1) else z3.IntVal(fr.numerator)
        l, r = (c_, x_) if f_left else (x_, c_)
        return simp({ast.Lt: l < r, ast.LtE: l <= r, ast.Gt: l > r, ast.GtE: l >= r,
                     ast.Eq: l == r, ast.NotEq: l != r}[op])

    _PYOPS = {
        ast.Add: operator.add, ast.Sub: operator.sub, ast.Mult: operator.mul,
        ast.FloorDiv: operator.floordiv, ast.Mod: operator.mod, ast.Pow: operator.pow,
        ast.LShift: operator.lshift, ast.RShift: operator.rshift, ast.BitAnd: operator.and_,
        ast.BitOr: operator.or_, ast.BitXor: operator.xor, ast.Div: operator.truediv,
    }

    def binop_concrete(self, op, a, b):
        try:
            if op is ast.Div and isinstance(a, int) and isinstance(b, int) and not self.ex.native_div:
                pass
            return self._PYOPS[op](a, b)
        except ZeroDivisionError:
            raise SymRaise(mk_exc('ZeroDivisionError'))
        except ValueError:
            raise SymRaise(mk_exc('ValueError'))
        except OverflowError:
            raise SymRaise(mk_exc('OverflowError'))
        except TypeError:
            raise SymRaise(mk_exc('TypeError'))

    def binop_real(self, op, a, b):
        x, y = as_z3real(a), as_z3real(b)
        if op is ast.Add:
            return simp(x + y)
        if op is ast.Sub:
            return simp(x - y)
        if op is ast.Mult:
            return simp(x * y)
        if op is ast.Div:
            if self.branch(y == 0, 'div0'):
                raise SymRaise(mk_exc('ZeroDivisionError'))
            return simp(x / y)
        if op is ast.Pow:
            return self.real_pow(a, b)
        raise Unsupported(f'real binop {op.__name__}')

    def real_pow(self, a, e):
        """Fraction(int) ** int, exactly as fractions.Fraction.__pow__: b^e for e >= 0, 1/b^-e for e < 0
        (ZeroDivisionError when b == 0).  Only integer-valued bases are modelled."""
        if not is_intlike(e):
            raise Unsupported('Fraction ** non-int')
        if isinstance(a, Fraction):
            if a.denominator != 1:
                raise Unsupported('non-integer Fraction base of **')
            bi = a.numerator
        elif is_z3(a) and z3.is_to_real(a):
            bi = a.arg(0)
        else:
            raise Unsupported(f'** on real base {a!r}')
        e_ = as_int(e)
        if isinstance(e_, int) and isinstance(bi, int):
            return Fraction(bi) ** e_
        ez = as_z3int(e_)

        def ip(k):
            if isinstance(bi, int) and bi == 2:
                return theory.pow2(k)
            return theory.ipow(as_z3int(bi), k)
        if self.branch(simp(ez < 0), 'pow<0'):
            if not isinstance(bi, int) or bi == 0:
                if self.branch(simp(as_z3int(bi) == 0), 'pow base==0'):
                    raise SymRaise(mk_exc('ZeroDivisionError'))
            return simp(1 / z3.ToReal(ip(simp(-ez))))
        return z3.ToReal(ip(ez))

    def binop_int(self, op, a, b):
        T = self.ex.tags
        a_, b_ = as_int(a), as_int(b)
        if op is ast.Add:
            return simp(as_z3int(a_) + as_z3int(b_))
        if op is ast.Sub:
            r = simp(as_z3int(a_) - as_z3int(b_))
            # remember masks: pow2(k) - 1
            if is_z3(r) and isinstance(b_, int) and b_ == 1 and is_z3(a_) and theory.is_app_of(a_, theory.pow2):
                T.mask[r.get_id()] = a_.arg(0)
                T.keep.append(r)
            return r
        if op is ast.Mult:
            return simp(as_z3int(a_) * as_z3int(b_))
        if op is ast.Div:
            y = as_z3int(b_)
            if self.branch(y == 0, 'div0'):
                raise SymRaise(mk_exc('ZeroDivisionError'))
            return simp(z3.ToReal(as_z3int(a_)) / z3.ToReal(y))
        if op in (ast.FloorDiv, ast.Mod):
            x, y = as_z3int(a_), as_z3int(b_)
            if self.branch(y == 0, 'div0'):
                raise SymRaise(mk_exc('ZeroDivisionError'))
            if isinstance(b_, int):
                q = x / y if b_ > 0 else (-x) / (-y)
            else:
                pos = self.branch(y > 0, 'divisor>0')
                q = x / y if pos else (-x) / (-y)
            if op is ast.FloorDiv:
                return simp(q)
            return simp(x - y * q)
        if op is ast.LShift:
            k = b_
            if not isinstance(k, int) or k < 0:
                if self.branch(as_z3int(k) < 0, 'shift<0'):
                    raise SymRaise(mk_exc('ValueError'))
            if isinstance(k, int):
                return simp(as_z3int(a_) * (1 << k))
            P = theory.pow2(k)
            if isinstance(a_, int) and a_ == 1:
                return P
            r = as_z3int(a_) * P
            T.shl[r.get_id()] = (a_, k)
            T.keep.append(r)
            return r
        if op is ast.RShift:
            k = b_
            if not isinstance(k, int) or k < 0:
                if self.branch(as_z3int(k) < 0, 'shift<0'):
                    raise SymRaise(mk_exc('ValueError'))
            if isinstance(k, int):
                return simp(as_z3int(a_) / (1 << k))
            return as_z3int(a_) / theory.pow2(k)
        if op is ast.Pow:
            if isinstance(a_, int) and a_ == 2:
                if self.branch(as_z3int(b_) < 0, 'pow<0'):
                    return simp(1 / z3.ToReal(theory.pow2(-as_z3int(b_))))
                return theory.pow2(as_z3int(b_))
            if isinstance(b_, int) and 0 <= b_ <= 4:
                r = z3.IntVal(1)
                for _ in range(b_):
                    r = r * as_z3int(a_)
                return simp(r)
            if self.branch(as_z3int(b_) < 0, 'pow<0'):
                raise Unsupported('negative symbolic power')
            return theory.ipow(as_z3int(a_), as_z3int(b_))
        if op is ast.BitAnd:
            return self.bitand(a_, b_)
        if op is ast.BitOr:
            if is_boollike(a) and is_boollike(b):   # absnodes: bool | bool is the bool `or` (eager)
                return simp(z3.Or(as_z3bool(a), as_z3bool(b)))
            return self.bitor(a_, b_)
        if op is ast.BitXor:
            raise Unsupported('symbolic xor')
        raise Unsupported(f'int binop {op.__name__}')

    def bitand(self, a, b):
        T = self.ex.tags
        if isinstance(a, int) and not isinstance(b, int):
            a, b = b, a
        x = as_z3int(a)
        if isinstance(b, int):
            if b >= 0:
                if b == 0:
                    return 0
                if b & (b + 1) == 0:          # 2^k - 1
                    return simp(x % (b + 1))
                low = b & -b
                if (b // low) & (b // low + 1) == 0:      # contiguous run of ones: (2^w - 1) << k
                    return simp(((x / low) % (b // low + 1)) * low)
                # general non-negative constant: sum of its set bits
                terms = []
                k = 0
                bb = b
                while bb:
                    if bb & 1:
                        terms.append(((x / (1 << k)) % 2) * (1 << k))
                    bb >>= 1
                    k += 1
                return simp(z3.Sum(terms)) if len(terms) > 1 else simp(terms[0])
            else:
                nb = ~b                       # clear the bits of nb
                terms = []
                k = 0
                while nb:
                    if nb & 1:
                        terms.append(((x / (1 << k)) % 2) * (1 << k))
                    nb >>= 1
                    k += 1
                return simp(x - z3.Sum(terms)) if len(terms) > 1 else simp(x - terms[0])
        # symbolic mask?
        for (u, v) in ((a, b), (b, a)):
            if is_z3(v):
                k = T.mask.get(v.get_id())
                if k is not None:
                    return as_z3int(u) % theory.pow2(k)
                if theory.is_app_of(v, theory.pow2):
                    kk = v.arg(0)
                    return ((as_z3int(u) / v) % 2) * v
        # x & (x - 1): power-of-two test
        d = simp(as_z3int(a) - as_z3int(b))
        if isinstance(d, int) and d in (1, -1):
            big = as_z3int(a if d == 1 else b)
            # big & (big - 1) clears the lowest set bit: big - 2^tz(big) for big > 0; 0 & -1 == 0
            if self.branch(simp(big < 0), 'x&(x-1): x<0'):
                raise Unsupported('x & (x-1) with negative x')
            if self.branch(simp(big == 0), 'x&(x-1): x==0'):
                return 0
            r = big - theory.pow2(theory.tz(big))
            # law CL (self-tested in tools/selftest_c06.py), a consequence stated explicitly so that proofs about
            # powers of two need not go through tz: 0 <= r < big and (r == 0  <=>  big == 2^(bit_length(big)-1))
            self.assume(z3.And(r >= 0, r < big, (r == 0) == (big == theory.pow2(theory.bl(big) - 1))), fact=True)
            return r
        raise Unsupported(f'symbolic & of {a} and {b}')

    def bitor(self, a, b):
        T = self.ex.tags
        if isinstance(a, int) and not isinstance(b, int):
            a, b = b, a
        x = as_z3int(a)
        if isinstance(b, int) and b >= 0:
            if b == 0:
                return a
            if b & (b - 1) == 0:   # single bit
                return simp(x + b * (1 - (x / b) % 2))
            terms = []
            k = 0
            bb = b
            while bb:
                if bb & 1:
                    terms.append((1 << k) * (1 - (x / (1 << k)) % 2))
                bb >>= 1
                k += 1
            return simp(x + z3.Sum(terms))
        # (u << k) | v  with 0 <= v < pow2(k): disjoint => +
        for (u, v) in ((a, b), (b, a)):
            if is_z3(u):
                sh = T.shl.get(u.get_id())
                if sh is None and theory.is_app_of(u, theory.pow2):
                    sh = (1, u.arg(0))          # (1 << k) | v
                if sh is not None:
                    k = sh[1]
                    vv = as_z3int(v)
                    self.oblige('safe[or-disjoint]', 'safe', z3.And(vv >= 0, vv < theory.pow2(k)))
                    r = u + vv
                    sh2 = T.shl.get(vv.get_id()) if is_z3(vv) else None
                    if sh2 is not None:
                        # (a << k) | (b << j) with j <= k is again a multiple of 2^j: a further `| c` with
                        # 0 <= c < 2^j is disjoint too (three-field words  s | e | m)
                        j = sh2[1]
                        self.oblige('safe[or-fields-ordered]', 'safe', z3.And(as_z3int(j) >= 0, as_z3int(j) <= as_z3int(k)))
                        T.shl[r.get_id()] = (None, j)
                        T.keep.append(r)
                    return r
        raise Unsupported(f'symbolic | of {a} and {b}')

    def binop_obj(self, op, a, b):
        names = {ast.Add: 'add', ast.Sub: 'sub', ast.Mult: 'mul', ast.Div: 'truediv',
                 ast.FloorDiv: 'floordiv', ast.Mod: 'mod', ast.Pow: 'pow', ast.LShift: 'lshift',
                 ast.RShift: 'rshift', ast.BitAnd: 'and', ast.BitOr: 'or', ast.BitXor: 'xor'}
        nm = names[op]
        NI = ExtV('builtins.NotImplemented')
        if isinstance(a, SObj):
            m = self.index.find_method(a.cls, f'__{nm}__')
            if m is not None:
                r = self.call_function(FuncV(m, a), [b], {})
                if not (isinstance(r, ExtV) and r.name == 'builtins.NotImplemented'):
                    return r
        if isinstance(b, SObj):
            m = self.index.find_method(b.cls, f'__r{nm}__')
            if m is not None:
                r = self.call_function(FuncV(m, b), [a], {})
                if not (isinstance(r, ExtV) and r.name == 'builtins.NotImplemented'):
                    return r
        raise SymRaise(mk_exc('TypeError'))

    def compare(self, op, a, b):
        if op is ast.Is:
            return self.identical(a, b)
        if op is ast.IsNot:
            r = self.identical(a, b)
            return (not r) if isinstance(r, bool) else simp(z3.Not(r))
        if op is ast.Eq:
            return self.equal(a, b)
        if op is ast.NotEq:
            r = self.equal(a, b)
            return (not r) if isinstance(r, bool) else simp(z3.Not(r))
        if op is ast.In:
            return self.contains(b, a)
        if op is ast.NotIn:
            r = self.contains(b, a)
            return (not r) if isinstance(r, bool) else simp(z3.Not(r))
        # ordering
        if isinstance(a, SObj) or isinstance(b, SObj):
            dn = {ast.Lt: ('__lt__', '__gt__'), ast.LtE: ('__le__', '__ge__'),
                  ast.Gt: ('__gt__', '__lt__'), ast.GtE: ('__ge__', '__le__')}[op]
            NI = ExtV('builtins.NotImplemented')
            if isinstance(a, SObj) and isinstance(b, SObj) and self._rcomparable(b.cls, a.cls):
                # @rcomparable(A) on class B (fpy2.utils.decorator) rebinds A's comparison methods:
                # for an operand of class B they evaluate the reversed comparison  b <rev-op> a
                m = self.index.find_method(b.cls, dn[1])
                if m is not None:
                    return self.call_function(FuncV(m, b), [a], {})
            if isinstance(a, SObj):
                m = self.index.find_method(a.cls, dn[0])
                if m is not None:
                    r = self.call_function(FuncV(m, a), [b], {})
                    if not (isinstance(r, ExtV) and r.name == 'builtins.NotImplemented'):
                        return r
            if isinstance(b, SObj):
                m = self.index.find_method(b.cls, dn[1])
                if m is not None:
                    r = self.call_function(FuncV(m, b), [a], {})
                    if not (isinstance(r, ExtV) and r.name == 'builtins.NotImplemented'):
                        return r
            raise SymRaise(mk_exc('TypeError'))
        if isinstance(a, EnumV) and isinstance(b, EnumV) and a.cls == b.cls:
            a, b = self.enum_value(a), self.enum_value(b)
        if not is_z3(a) and not is_z3(b) and not isinstance(a, SymFloat) and not isinstance(b, SymFloat):
            try:
                return {ast.Lt: operator.lt, ast.LtE: operator.le, ast.Gt: operator.gt, ast.GtE: operator.ge}[op](a, b)
            except TypeError:
                raise SymRaise(mk_exc('TypeError'))
        if (isinstance(a, float) and (is_sym_int(b) or is_sym_real(b))) or \
                (isinstance(b, float) and (is_sym_int(a) or is_sym_real(a))):
            return self._cmp_sym_conc_float(op, a, b)
        if isinstance(a, (SymFloat, float)) or isinstance(b, (SymFloat, float)):
            if isinstance(a, SymFloat) and isinstance(b, (int, float)) and not isinstance(b, bool) and b == 0:
                return self.ex.intrinsics.float_compare_zero(self, op.__name__, a)
            if isinstance(b, SymFloat) and isinstance(a, (int, float)) and not isinstance(a, bool) and a == 0:
                flip = {'Lt': 'Gt', 'Gt': 'Lt', 'LtE': 'GtE', 'GtE': 'LtE'}[op.__name__]
                return self.ex.intrinsics.float_compare_zero(self, flip, b)
            raise Unsupported('symbolic float comparison')
        if is_fraclike(a) or is_fraclike(b):
            x, y = as_z3real(a), as_z3real(b)
        elif is_intlike(a) and is_intlike(b):
            x, y = as_z3int(a), as_z3int(b)
        else:
            raise SymRaise(mk_exc('TypeError'))
        r = {ast.Lt: x < y, ast.LtE: x <= y, ast.Gt: x > y, ast.GtE: x >= y}[op]
        return simp(r)

    def _rcomparable(self, bcls, acls) -> bool:
        """is class `bcls` decorated with @rcomparable(A) for a class A that `acls` derives from?"""
        for d in getattr(bcls.node, 'decorator_list', []):
            if isinstance(d, ast.Call) and getattr(d.func, 'id', getattr(d.func, 'attr', None)) == 'rcomparable' \
                    and len(d.args) == 1 and isinstance(d.args[0], ast.Name):
                r = self.index.lookup(bcls.module.name, d.args[0].id)
                if r is not None and r[0] == 'class' and self.index.is_subclass(acls, r[1]) \
                        and not self.index.is_subclass(acls, bcls):
                    return True
        return False

    def enum_value(self, e: EnumV):
        vals = self.ex.enum_values(e.cls)
        if isinstance(e.idx, int):
            return vals[e.idx]
        if all(isinstance(v, int) for v in vals):
            r = z3.IntVal(vals[-1])
            for i in range(len(vals) - 2, -1, -1):
                r = z3.If(e.idx == i, z3.IntVal(vals[i]), r)
            return simp(r)
        raise Unsupported('value of symbolic non-int enum')

    def identical(self, a, b):
        if a is None or b is None:
            return a is None and b is None
        if isinstance(a, seqs.KINDS) or isinstance(b, seqs.KINDS):
            return seqs.identical(self, a, b)
        if isinstance(a, SymKey) or isinstance(b, SymKey):   # containers
            return containers.key_identical(a, b)
        if isinstance(a, SObj) or isinstance(b, SObj):
            return a is b
        if is_boollike(a) and is_boollike(b):
            if isinstance(a, bool) and isinstance(b, bool):
                return a == b
            return simp(as_z3bool(a) == as_z3bool(b))
        if isinstance(a, (EnumV, FlagV)) or isinstance(b, (EnumV, FlagV)):
            return self.equal(a, b) if type(a) is type(b) else False
        if isinstance(a, (ClassV, ExtV)) or isinstance(b, (ClassV, ExtV)):
            return a == b
        if is_intlike(a) and is_intlike(b):
            return self.equal(a, b)
        if isinstance(a, (tuple, list, dict)) or isinstance(b, (tuple, list, dict)):
            return a is b
        return a is b

    def equal(self, a, b):
        if a is None or b is None:
            return a is None and b is None
        if isinstance(a, seqs.KINDS) or isinstance(b, seqs.KINDS):
            return seqs.equal(self, a, b)
        if isinstance(a, SymKey) or isinstance(b, SymKey):   # containers
            return containers.key_equal(a, b)
        if type(a).__name__ == 'SymStr' or type(b).__name__ == 'SymStr':
            from . import strings
            return strings.equal(self, a, b) if type(a).__name__ == 'SymStr' else strings.equal(self, b, a)
        if isinstance(a, SObj) or isinstance(b, SObj):
            NI = ExtV('builtins.NotImplemented')
            if isinstance(a, SObj):
                m = self.index.find_method(a.cls, '__eq__')
                if m is not None:
                    r = self.call_function(FuncV(m, a), [b], {})
                    if not (isinstance(r, ExtV) and r.name == 'builtins.NotImplemented'):
                        return r
                elif a is b:
                    return True
            if isinstance(b, SObj):
                m = self.index.find_method(b.cls, '__eq__')
                if m is not None:
                    r = self.call_function(FuncV(m, b), [a], {})
                    if not (isinstance(r, ExtV) and r.name == 'builtins.NotImplemented'):
                        return r
            return a is b
        if isinstance(a, EnumV) or isinstance(b, EnumV):
            if isinstance(a, EnumV) and isinstance(b, EnumV):
                if a.cls != b.cls:
                    return False
                if isinstance(a.idx, int) and isinstance(b.idx, int):
                    return a.idx == b.idx
                return simp(as_z3int(a.idx) == as_z3int(b.idx))
            e, o = (a, b) if isinstance(a, EnumV) else (b, a)
            if is_intlike(o) and 'IntEnum' in ' '.join(self.index.external_bases(e.cls)):
                return self.equal(self.enum_value(e), o)
            return False
        if isinstance(a, FlagV) or isinstance(b, FlagV):
            return isinstance(a, FlagV) and isinstance(b, FlagV) and a == b
        if isinstance(a, EnumName) or isinstance(b, EnumName):
            n, o = (a, b) if isinstance(a, EnumName) else (b, a)
            names = [m for m, _ in self.index.enum_members(n.cls)]
            if isinstance(o, str):
                if o not in names:
                    return False
                return simp(as_z3int(n.idx) == names.index(o))
            if isinstance(o, EnumName) and o.cls == n.cls:
                return simp(as_z3int(n.idx) == as_z3int(o.idx))
            return False
        if isinstance(a, (tuple, list)) and isinstance(b, (tuple, list)):
            if type(a) is not type(b) or len(a) != len(b):
                return False
            rs = [self.equal(x, y) for x, y in zip(a, b)]
            if any(r is False for r in rs):
                return False
            rs = [r for r in rs if r is not True]
            if not rs:
                return True
            return simp(z3.And([as_z3bool(r) for r in rs]))
        if isinstance(a, SymFloat) or isinstance(b, SymFloat):
            for x_, y_ in ((a, b), (b, a)):   # absnodes (C07): v == 0 for a symbolic float (IEEE: -0.0 == 0, NaN != 0)
                if isinstance(x_, SymFloat) and isinstance(y_, (int, float)) and not isinstance(y_, bool) and not is_z3(y_) and y_ == 0:
                    return self.ex.intrinsics.float_compare_zero(self, 'Eq', x_)
            raise Unsupported('symbolic float equality')
        if (isinstance(a, float) and (is_sym_int(b) or is_sym_real(b))) or \
                (isinstance(b, float) and (is_sym_int(a) or is_sym_real(a))):
            return self._cmp_sym_conc_float(ast.Eq, a, b)
        if not is_z3(a) and not is_z3(b):
            if isinstance(a, (Opaque,)) or isinstance(b, (Opaque,)):
                if a is b:
                    return True
                raise Unsupported('equality on opaque value')
            try:
                return a == b
            except Exception:
                return False
        if is_boollike(a) and is_boollike(b):
            return simp(as_z3bool(a) == as_z3bool(b))
        if is_fraclike(a) or is_fraclike(b):
            if (is_fraclike(a) or is_intlike(a)) and (is_fraclike(b) or is_intlike(b)):
                return simp(as_z3real(a) == as_z3real(b))
            return False
        if is_intlike(a) and is_intlike(b):
            return simp(as_z3int(a) == as_z3int(b))
        return False

    def contains(self, container, item):
        if isinstance(container, seqs.KINDS):
            return seqs.contains(self, container, item)
        if isinstance(container, (ufmaps.SymRelMap, ufmaps.SymRow)):   # ufmaps
            return ufmaps.contains(self, container, item)
        if isinstance(container, (SymMap, SymSet)):   # containers
            return containers.contains(self, container, item)
        if type(container).__name__ == 'SymStr':
            from . import strings
            return strings.contains(self, container, item)
        if isinstance(container, (tuple, list)):
            rs = [self.equal(x, item) for x in container]
            if any(r is True for r in rs):
                return True
            rs = [as_z3bool(r) for r in rs if r is not False]
            if not rs:
                return False
            return simp(z3.Or(rs))
        if isinstance(container, (dict, set)):
            try:
                return self.hashable(item) in container
            except Unsupported:
                raise
        if isinstance(container, str):
            return item in container
        if isinstance(container, SObj):
            return self.truthy(self.call_method(container, '__contains__', [item], {}))
        if isinstance(container, FlagV) and isinstance(item, FlagV):
            return (container.bits & item.bits) == item.bits
        raise Unsupported(f'in on {container!r}')

    # ----------------------------------------------------------- attributes
    def getattr(self, v, attr: str):
        if isinstance(v, Lazy):
            raise InterpError('unforced lazy value')
        if isinstance(v, seqs.KINDS):
            return seqs.getattr_hook(self, v, attr)
        if isinstance(v, SymKey):   # absnodes: abstract attribute of an opaque key
            from . import absnodes
            return absnodes.key_getattr(self, v, attr)
        if isinstance(v, SObj):
            if attr in v.fields:
                x = v.fields[attr]
                if isinstance(x, Lazy):
                    x = self.force(x)
                    v.fields[attr] = x
                return x
            if attr == '__class__':
                return ClassV(v.cls)
            m = self.index.find_method(v.cls, attr)
            if m is not None:
                if m.kind == 'property':
                    return self.call_function(FuncV(m, v), [], {})
                if m.kind == 'staticmethod':
                    return FuncV(m)
                if m.kind == 'classmethod':
                    return FuncV(m, ClassV(v.cls))
                return FuncV(m, v)
            ca = self.index.find_class_attr(v.cls, attr)
            if ca is not None:
                return self.class_attr(ca[0], attr, ca[1])
            raise SymRaise(mk_exc('AttributeError'), f'{v.cls.name}.{attr}')
        if isinstance(v, ClassV):
            ci = v.info
            if self.index.is_enum(ci):
                members = self.index.enum_members(ci)
                for i, (nm, _) in enumerate(members):
                    if nm == attr:
                        if self.index.is_flag_enum(ci):
                            return FlagV(ci, self.ex.enum_values(ci)[i])
                        return EnumV(ci, i)
            m = self.index.find_method(ci, attr)
            if m is not None:
                if m.kind == 'staticmethod':
                    return FuncV(m)
                if m.kind == 'classmethod':
                    return FuncV(m, v)
                return FuncV(m)       # unbound
            ca = self.index.find_class_attr(ci, attr)
            if ca is not None:
                return self.class_attr(ca[0], attr, ca[1])
            if attr == '__name__':
                return ci.name
            if attr == '__mro__':   # repository classes only (external bases such as ABC/object are never dispatch keys)
                return tuple(ClassV(c) for c in self.index.mro(ci))
            raise SymRaise(mk_exc('AttributeError'), f'{ci.name}.{attr}')
        if isinstance(v, ModV):
            mi = self.index.module(v.name)
            if mi is None:
                if v.name == 'math' and attr in ('inf', 'nan', 'pi', 'e', 'tau'):
                    return getattr(math, attr)
                return ExtV(f'{v.name}.{attr}')
            return self.global_value(v.name, attr)
        if isinstance(v, EnumV):
            if attr == 'value':
                return self.enum_value(v)
            if attr == 'name':
                if isinstance(v.idx, int):
                    return self.index.enum_members(v.cls)[v.idx][0]
                return EnumName(v.cls, v.idx)
            m = self.index.find_method(v.cls, attr)
            if m is not None:
                if m.kind == 'property':
                    return self.call_function(FuncV(m, v), [], {})
                if m.kind == 'staticmethod':
                    return FuncV(m)
                return FuncV(m, v)
            raise SymRaise(mk_exc('AttributeError'), f'{v.cls.name}.{attr}')
        if isinstance(v, FlagV):
            if attr == 'value':
                return v.bits
            m = self.index.find_method(v.cls, attr)
            if m is not None:
                if m.kind == 'property':
                    return self.call_function(FuncV(m, v), [], {})
                return FuncV(m, v)
            raise SymRaise(mk_exc('AttributeError'))
        if isinstance(v, ExtV):
            if v.name == 'sys.hash_info' and attr == 'inf':
                from .intrinsics import PYHASH_INF
                return PYHASH_INF
            return ExtV(f'{v.name}.{attr}')
        if is_intlike(v):
            if attr in ('bit_length', 'to_bytes', 'as_integer_ratio', 'is_integer', 'bit_count'):
                return BoundBuiltin(f'int.{attr}', v)
            if attr == 'numerator':
                return as_int(v)
            if attr == 'denominator':
                return 1
            if attr == 'real':
                return as_int(v)
            if not hasattr(int, attr):
                raise SymRaise(mk_exc('AttributeError'), f'int.{attr}')
        if isinstance(v, Fraction):
            if attr in ('numerator', 'denominator'):
                return getattr(v, attr)
            return BoundBuiltin(f'Fraction.{attr}', v)
        if is_sym_real(v):
            if attr in ('numerator', 'denominator'):
                return self.ex.frac_part(self, v, attr)
            return BoundBuiltin(f'Fraction.{attr}', v)
        if isinstance(v, containers.SYM):   # containers
            return BoundBuiltin(containers.bound_name(v, attr), v)
        if isinstance(v, (list, dict, set, tuple, str, float)):
            return BoundBuiltin(f'{type(v).__name__}.{attr}', v)
        if isinstance(v, SymFloat):
            return BoundBuiltin(f'float.{attr}', v)
        if isinstance(v, ExcV):
            if attr == 'args':
                return v.args
        if isinstance(v, Opaque):
            return Opaque(f'{v.tag}.{attr}')
        if type(v).__name__ == 'SymStr':
            return BoundBuiltin(f'symstr.{attr}', v)
        if type(v).__name__ == 'MatchV':
            return BoundBuiltin(f'match.{attr}', v)
        if type(v).__name__ == 'FreeCons':
            if attr in v.fields:
                return v.fields[attr]
            raise SymRaise(mk_exc('AttributeError'), f'{v.name}.{attr}')
        raise Unsupported(f'attribute {attr} of {v!r}')

    def class_attr(self, ci: ClassInfo, attr: str, expr):
        key = ('#classattr', ci.qualname, attr)
        cache = self.ex.global_cache
        if key in cache:
            return cache[key]
        self.in_global += 1
        try:
            fr = Frame(ci.module, cls=ci)
            v = self.ev(expr, fr)
        finally:
            self.in_global -= 1
        cache[key] = v
        return v

    def setattr(self, obj, attr, value):
        if isinstance(obj, SObj):
            st = self.index.find_setter(obj.cls, attr)
            if st is not None:
                self.call_function(FuncV(st, obj), [value], {})
                return
            if self.txns and obj.name is None and False:
                pass
            self.write(obj.fields, attr, value)
            return
        raise Unsupported(f'setattr on {obj!r}')

    # ---------------------------------------------------------------- calls
    def call(self, f, args, kwargs, node=None):
        if isinstance(f, FuncV):
            return self.call_function(f, args, kwargs)
        if isinstance(f, ClassV):
            return self.instantiate(f.info, args, kwargs)
        if isinstance(f, ExtV):
            return self.ex.intrinsics.call(self, f.name, args, kwargs)
        if isinstance(f, BoundBuiltin):
            return self.ex.intrinsics.call_bound(self, f.name, f.recv, args, kwargs)
        if isinstance(f, LambdaV):
            fr = Frame(f.frame.module, f.frame.fn, f.frame.cls, parent=f.frame)
            self.new_dict(fr.locals)
            self.bind_args(f.node.args, args, kwargs, fr, 'lambda')
            return self.ev(f.node.body, fr)
        if isinstance(f, SObj):
            return self.call_method(f, '__call__', args, kwargs)
        if isinstance(f, Opaque) and f.tag.endswith('.getrandbits') and self.ex.draw_fn is not None:
            return self.ex.draw_fn(args[0])
        raise Unsupported(f'call of {f!r}')

    def call_method(self, obj: SObj, name: str, args, kwargs):
        m = self.index.find_method(obj.cls, name)
        if m is None:
            raise SymRaise(mk_exc('AttributeError'), f'{obj.cls.name}.{name}')
        return self.call_function(FuncV(m, obj), args, kwargs)

    def instantiate(self, ci: ClassInfo, args, kwargs):
        ext = self.index.external_bases(ci)
        if self.index.is_enum(ci):
            # Enum(value) lookup
            if len(args) == 1:
                vals = self.ex.enum_values(ci)
                if self.index.is_flag_enum(ci) and isinstance(args[0], int) and not isinstance(args[0], bool):
                    # Flag(int) (boundary STRICT): any combination of defined bits is a (pseudo-)member
                    mask = 0
                    for v in vals:
                        mask |= v
                    if args[0] < 0:
                        raise Unsupported('Flag(negative int)')
                    if args[0] & ~mask:
                        raise SymRaise(mk_exc('ValueError'))
                    return FlagV(ci, args[0])
                for i, v in enumerate(vals):
                    r = self.equal(v, args[0])
                    if self.branch(r, f'enum-lookup=={i}'):
                        return EnumV(ci, i) if not self.index.is_flag_enum(ci) else FlagV(ci, v)
                raise SymRaise(mk_exc('ValueError'))
            raise Unsupported('enum construction')
        if any(e.split('.')[-1] in BUILTIN_EXC_BASES or e.endswith('Exception') or e.endswith('Error') for e in ext) \
                or self._is_exc_class(ci):
            names = [c.name for c in self.index.mro(ci)]
            bases = list(names[1:])
            for e in ext:
                b = e.split('.')[-1]
                bases.append(b)
                bases.extend(exc_bases(b))
            return ExcV(ci.name, tuple(bases), tuple(args))
        r = seqs.instantiate_hook(self, ci, args, kwargs)
        if r is not seqs.NOT_HANDLED:
            return r
        dc = self._dataclass_fields(ci)
        obj = SObj(ci, {})
        self.new_dict(obj.fields)
        init = self.index.find_method(ci, '__init__')
        if init is None and dc is not None:
            # dataclass: synthesize __init__
            names = [n for n, _ in dc]
            for i, a in enumerate(args):
                obj.fields[names[i]] = a
            for k, v in kwargs.items():
                obj.fields[k] = v
            for n, default in dc:
                if n not in obj.fields:
                    if default is None:
                        raise SymRaise(mk_exc('TypeError'))
                    obj.fields[n] = self.ev(default, Frame(ci.module, cls=ci))
            pi = self.index.find_method(ci, '__post_init__')
            if pi is not None:
                self.call_function(FuncV(pi, obj), [], {})
            return obj
        if init is not None:
            self.call_function(FuncV(init, obj), args, kwargs, is_init=True)
        elif args or kwargs:
            raise SymRaise(mk_exc('TypeError'))
        return obj

    def _is_exc_class(self, ci):
        for e in self.index.external_bases(ci):
            if e.split('.')[-1] in BUILTIN_EXC_BASES:
                return True
        return False

    def _dataclass_fields(self, ci: ClassInfo):
        is_dc = False
        for c in self.index.mro(ci):
            for d in c.node.decorator_list:
                nm = d.func if isinstance(d, ast.Call) else d
                if isinstance(nm, ast.Name) and nm.id == 'dataclass' or \
                        isinstance(nm, ast.Attribute) and nm.attr == 'dataclass':
                    is_dc = True
        if not is_dc:
            return None
        out = []
        for c in reversed(self.index.mro(ci)):
            for st in c.node.body:
                if isinstance(st, ast.AnnAssign) and isinstance(st.target, ast.Name):
                    ann = ast.unparse(st.annotation)
                    if ann.startswith('ClassVar'):
                        continue
                    default = st.value
                    if isinstance(default, ast.Call) and getattr(default.func, 'id', getattr(default.func, 'attr', '')) == 'field':
                        d2 = None
                        for kw in default.keywords:
                            if kw.arg == 'default':
                                d2 = kw.value
                            elif kw.arg == 'default_factory':
                                d2 = ast.Call(func=kw.value, args=[], keywords=[])
                                ast.fix_missing_locations(d2)
                        default = d2
                    out = [(n, d) for (n, d) in out if n != st.target.id]
                    out.append((st.target.id, default))
        return out

    def bind_args(self, a: ast.arguments, args, kwargs, fr: Frame, fname: str, defaults_frame=None):
        pos = list(a.posonlyargs) + list(a.args)
        kwargs = dict(kwargs)
        n = len(pos)
        defaults = [None] * (n - len(a.defaults)) + list(a.defaults)
        dfr = defaults_frame or fr
        if len(args) > n and a.vararg is None:
            raise SymRaise(mk_exc('TypeError'), f'too many args to {fname}')
        for i, p in enumerate(pos):
            if i < len(args):
                if p.arg in kwargs:
                    raise SymRaise(mk_exc('TypeError'), f'duplicate arg {p.arg}')
                fr.locals[p.arg] = args[i]
            elif p.arg in kwargs:
                fr.locals[p.arg] = kwargs.pop(p.arg)
            elif defaults[i] is not None:
                fr.locals[p.arg] = self.ev(defaults[i], dfr)
            else:
                raise SymRaise(mk_exc('TypeError'), f'missing arg {p.arg} to {fname}')
        if a.vararg is not None:
            fr.locals[a.vararg.arg] = tuple(args[n:])
        for p, d in zip(a.kwonlyargs, a.kw_defaults):
            if p.arg in kwargs:
                fr.locals[p.arg] = kwargs.pop(p.arg)
            elif d is not None:
                fr.locals[p.arg] = self.ev(d, dfr)
            else:
                raise SymRaise(mk_exc('TypeError'), f'missing kwarg {p.arg} to {fname}')
        if a.kwarg is not None:
            fr.locals[a.kwarg.arg] = kwargs
        elif kwargs:
            raise SymRaise(mk_exc('TypeError'), f'unexpected kwargs {list(kwargs)} to {fname}')

    def call_function(self, f: FuncV, args, kwargs, is_init=False, force_inline=False):
        info: FunctionInfo = f.info
        args = list(args)
        if f.self_obj is not None:
            args = [f.self_obj] + args
        if info.node.decorator_list and not force_inline:
            r = seqs.call_uf(self, f if f.self_obj is None else FuncV(info), args, kwargs)
            if r is not seqs.NOT_HANDLED:
                return r
        if not force_inline and getattr(self, 'in_global', 0):
            # a module-level constant of the repository (e.g. interpreter._PY_CTX = IEEEContext(11, 64)) is COMPUTED from
            # concrete arguments: its constructor is executed, never replaced by a contract (a fresh symbolic result
            # would make the constant's fields unknown)
            force_inline = True
        if not force_inline:
            c = self.ex.contract_for(info, self, args, kwargs)
            if c is not None and not self.ex.args_fit(c, info, args, kwargs):
                c = None      # operand kinds outside the contract's declared params: inline instead
            if c is not None:
                return self.ex.call_contract(self, c, info, args, kwargs, is_init)
            if info.cls is None and info.name in self.ex.opaque_specs and not kwargs:
                r = self.ex.call_opaque(self, info, args)
                if r is not None:
                    return r
        if not kwargs and info.node.decorator_list and not self.in_global \
                and any(isinstance(d, ast.Name) and d.id == 'opaque' for d in info.node.decorator_list) \
                and not getattr(self, '_in_opaque', False):
            return self._call_opaque(f, info, args)
        self.depth += 1
        if self.depth > self.ex.max_depth:
            raise Unsupported(f'call depth exceeded at {info.qualname}')
        try:
            if info.module.name.split('.')[0] == 'fpy2':
                self.inlined.add(info.qualname)
            fr = Frame(info.module, info, info.cls, parent=f.closure)
            self.new_dict(fr.locals)
            self.bind_args(info.node.args, args, kwargs, fr, info.qualname, Frame(info.module, cls=info.cls, parent=f.closure))
            if eagergen.is_generator(info):   # eagergen: a generator function yields a list (C19x)
                def body():
                    try:
                        self.exec_block(info.node.body, fr)
                    except _Return:
                        pass
                return eagergen.run(self, info, fr, body)
            try:
                self.exec_block(info.node.body, fr)
            except _Return as r:
                return r.value
            return None
        finally:
            self.depth -= 1

    def _call_opaque(self, f, info, args):
        """
        Spec function decorated with @opaque (speclib; natively the identity decorator), scalar arguments:
        the value is the application F(args) of a function symbol named after the spec function, together with the
        definitional fact F(args) == <body evaluated on args>.  Nothing is assumed beyond the definition; two
        applications on provably equal arguments are equal by congruence without unfolding the body.
        """
        self._in_opaque = True
        try:
            v = self.call_function(f, args[1:] if f.self_obj is not None else args, {})
        finally:
            self._in_opaque = False
        scal = lambda a: (is_boollike(a) or is_intlike(a)) and not isinstance(a, (EnumV, SObj))
        if not args or not all(scal(a) for a in args) or not any(is_z3(a) for a in args) or not is_z3(v):
            return v
        zs = [as_z3bool(a) if is_boollike(a) else as_z3int(a) for a in args]
        F = z3.Function('opq_' + info.name, *([z.sort() for z in zs] + [v.sort()]))
        app = F(*zs)
        self.assume(app == v, fact=True)
        return app

    # ------------------------------------------------------------ statements
    def exec_block(self, body, fr):
        for st in body:
            self.exec(st, fr)

    def exec(self, st, fr):
        m = getattr(self, 'ex_' + type(st).__name__, None)
        if m is None:
            raise Unsupported(f'statement {type(st).__name__} at {fr.module.name}:{st.lineno}')
        return m(st, fr)

    def ex_Expr(self, st, fr):
        if isinstance(st.value, ast.Constant):
            return
        self.ev(st.value, fr)

    def ex_Pass(self, st, fr):
        pass

    def ex_Return(self, st, fr):
        raise _Return(self.ev(st.value, fr) if st.value is not None else None)

    def ex_Break(self, st, fr):
        raise _Break()

    def ex_Continue(self, st, fr):
        raise _Continue()

    def ex_Import(self, st, fr):
        for a in st.names:
            local = a.asname or a.name.split('.')[0]
            self.write(fr.locals, local, ModV(a.name if a.asname else a.name.split('.')[0]))

    def ex_ImportFrom(self, st, fr):
        mod = fr.module._resolve_rel(st.module, st.level)
        for a in st.names:
            r = self.index.lookup(mod, a.name)
            if r is None:
                if self.index.module(f'{mod}.{a.name}') is not None:
                    v = ModV(f'{mod}.{a.name}')
                else:
                    v = ExtV(f'{mod}.{a.name}')
            else:
                v = self._resolve(r)
            self.write(fr.locals, a.asname or a.name, v)

    def ex_FunctionDef(self, st, fr):
        info = FunctionInfo(fr.module, None, st.name, st)
        self.write(fr.locals, st.name, FuncV(info, None, closure=fr))

    def ex_Assign(self, st, fr):
        v = self.ev(st.value, fr)
        if isinstance(v, (dict, set)) and not v:   # containers
            v = containers.retype_literal(self, st, v, fr)
        for t in st.targets:
            self.assign(t, v, fr)

    def ex_AnnAssign(self, st, fr):
        if st.value is not None:
            v = self.ev(st.value, fr)
            if isinstance(v, (dict, set, list)) and not v:   # absnodes: typed empty local (option local_types)
                from . import absnodes
                v = absnodes.typed_empty_local(self, st, v, fr)
            self.assign(st.target, v, fr)

    def ex_AugAssign(self, st, fr):
        t = st.target
        if isinstance(t, ast.Name):
            cur = self.lookup_name(t.id, fr)
            self.assign(t, self.binop(type(st.op), cur, self.ev(st.value, fr)), fr)
        elif isinstance(t, ast.Attribute):
            obj = self.ev(t.value, fr)
            cur = self.getattr(obj, t.attr)
            self.setattr(obj, t.attr, self.binop(type(st.op), cur, self.ev(st.value, fr)))
        elif isinstance(t, ast.Subscript):
            obj = self.ev(t.value, fr)
            k = self.ev(t.slice, fr)
            cur = self.getitem(obj, k)
            self.setitem(obj, k, self.binop(type(st.op), cur, self.ev(st.value, fr)))
        else:
            raise Unsupported('augassign target')

    def setitem(self, obj, k, v):
        if self.txns:
            raise MergeAbort()
        if isinstance(obj, ufmaps.SymRelMap):   # ufmaps
            return ufmaps.setitem(self, obj, k, v)
        if isinstance(obj, SymMap):   # containers
            return containers.map_setitem(self, obj, k, v)
        if self.loop_guard is not None:   # containers
            containers.guard_concrete(self, obj)
        if isinstance(obj, list):
            if is_z3(k):
                raise Unsupported('symbolic list store')
            try:
                obj[k] = v
            except IndexError:
                raise SymRaise(mk_exc('IndexError'))
            return
        if isinstance(obj, dict):
            obj[self.hashable(k)] = v
            return
        if isinstance(obj, SObj):
            self.call_method(obj, '__setitem__', [k, v], {})
            return
        raise Unsupported(f'setitem on {obj!r}')

    def assign(self, target, v, fr):
        if isinstance(target, ast.Name):
            self.write(fr.locals, target.id, v)
        elif isinstance(target, ast.Attribute):
            obj = self.ev(target.value, fr)
            self.setattr(obj, target.attr, v)
        elif isinstance(target, (ast.Tuple, ast.List)):
            items = self.iterate(v)
            star = [i for i, e in enumerate(target.elts) if isinstance(e, ast.Starred)]
            if star:
                i = star[0]
                after = len(target.elts) - i - 1
                if len(items) < len(target.elts) - 1:
                    raise SymRaise(mk_exc('ValueError'))
                for e, x in zip(target.elts[:i], items[:i]):
                    self.assign(e, x, fr)
                self.assign(target.elts[i].value, list(items[i:len(items) - after]), fr)
                for e, x in zip(target.elts[i + 1:], items[len(items) - after:]):
                    self.assign(e, x, fr)
                return
            if len(items) != len(target.elts):
                raise SymRaise(mk_exc('ValueError'))
            for e, x in zip(target.elts, items):
                self.assign(e, x, fr)
        elif isinstance(target, ast.Subscript):
            obj = self.ev(target.value, fr)
            k = self.ev(target.slice, fr)
            self.setitem(obj, k, v)
        else:
            raise Unsupported(f'assign target {type(target).__name__}')

    def iterate(self, v) -> list:
        if isinstance(v, (tuple, list)):
            return list(v)
        if isinstance(v, range):
            return list(v)
        if isinstance(v, dict):
            return [self.unhash(k) for k in v.keys()]
        if isinstance(v, set):
            return sorted((self.unhash(k) for k in v), key=repr)
        if isinstance(v, str):
            return list(v)
        if isinstance(v, ClassV) and self.index.is_enum(v.info):
            return [EnumV(v.info, i) for i in range(len(self.index.enum_members(v.info)))]
        if isinstance(v, seqs.KINDS):
            return seqs.iterate_hook(self, v)
        raise Unsupported(f'iteration over {v!r}')

    def unhash(self, k):
        if isinstance(k, tuple) and k and k[0] == '#enum':
            return EnumV(self.index.find_class(k[1]), k[2])
        return k

    @staticmethod
    def _simple_block(body) -> bool:
        for st in body:
            if isinstance(st, (ast.Assign, ast.AugAssign, ast.AnnAssign, ast.Pass)):
                continue
            if isinstance(st, ast.If):
                if not Path._simple_block(st.body) or not Path._simple_block(st.orelse):
                    return False
                continue
            if isinstance(st, ast.Expr) and isinstance(st.value, ast.Constant):
                continue
            return False
        return True

    def ex_If(self, st, fr):
        c = self.truthy(self.ev(st.test, fr))
        if isinstance(c, bool):
            self.exec_block(st.body if c else st.orelse, fr)
            return
        if self._simple_block(st.body) and self._simple_block(st.orelse):
            try:
                self.try_merge(c, lambda: self.exec_block(st.body, fr), lambda: self.exec_block(st.orelse, fr))
                return
            except MergeAbort:
                pass
        if self.branch(c, f'if@{fr.module.name.split(".")[-1]}:{st.lineno}'):
            self.exec_block(st.body, fr)
        else:
            self.exec_block(st.orelse, fr)

    def ex_Assert(self, st, fr):
        c = self.truthy(self.ev(st.test, fr))
        if not self.branch(c, f'assert@{st.lineno}'):
            raise SymRaise(mk_exc('AssertionError'), f'{fr.module.name}:{st.lineno}')

    def ex_Raise(self, st, fr):
        if st.exc is None:
            cur = fr.locals.get('#exc')
            if cur is None:
                raise Unsupported('bare raise outside handler')
            raise SymRaise(cur)
        e = self.ev(st.exc, fr)
        if isinstance(e, ExtV) and e.name.startswith('builtins.'):
            e = mk_exc(e.name.split('.', 1)[1])
        elif isinstance(e, ClassV):
            e = self.instantiate(e.info, [], {})
        if not isinstance(e, ExcV):
            raise Unsupported(f'raise of {e!r}')
        raise SymRaise(e, f'{fr.module.name}:{st.lineno}')

    def ex_Try(self, st, fr):
        try:
            try:
                self.exec_block(st.body, fr)
            except SymRaise as sr:
                handled = False
                for h in st.handlers:
                    if h.type is None:
                        match = True
                    else:
                        t = self.ev(h.type, fr)
                        match = self.exc_matches(sr.exc, t)
                    if match:
                        handled = True
                        if h.name:
                            self.write(fr.locals, h.name, sr.exc)
                        old = fr.locals.get('#exc')
                        fr.locals['#exc'] = sr.exc
                        try:
                            self.exec_block(h.body, fr)
                        finally:
                            fr.locals['#exc'] = old
                        break
                if not handled:
                    raise
            else:
                self.exec_block(st.orelse, fr)
        finally:
            if st.finalbody:
                self.exec_block(st.finalbody, fr)

    def exc_matches(self, e: ExcV, t) -> bool:
        if isinstance(t, tuple):
            return any(self.exc_matches(e, x) for x in t)
        if isinstance(t, ExtV):
            nm = t.name.split('.')[-1]
        elif isinstance(t, ClassV):
            nm = t.info.name
        else:
            raise Unsupported(f'except {t!r}')
        return e.name == nm or nm in e.bases

    def ex_For(self, st, fr):
        it = self.ev(st.iter, fr)
        if isinstance(it, seqs.SymSeq) or (isinstance(it, seqs.SymRange) and not isinstance(it.length(), int)):
            return seqs.loop_rule(self, st, it, fr)
        if containers.is_symbolic_iterable(it):   # containers
            return containers.loop_rule(self, st, fr, it)
        items = self.iterate(it)
        broke = False
        for item in items:
            self.assign(st.target, item, fr)
            try:
                self.exec_block(st.body, fr)
            except _Break:
                broke = True
                break
            except _Continue:
                continue
        if not broke:
            self.exec_block(st.orelse, fr)

    def ex_While(self, st, fr):
        from . import absnodes   # absnodes: while rule with heap havoc (invariant winv<k>)
        if absnodes.has_while_invariant(self, st, fr):
            return absnodes.while_rule(self, st, fr)
        if ufmaps.applies(self, st, fr):   # ufmaps: while rule with heap writes
            return ufmaps.loop_rule(self, st, fr)
        if seqs.has_invariant(self, st, fr):
            return seqs.loop_rule(self, st, None, fr)
        n = 0
        while True:
            c = self.truthy(self.ev(st.test, fr))
            if not self.branch(c, f'while@{st.lineno}'):
                break
            n += 1
            if n > self.ex.max_unroll:
                raise Unsupported(f'while loop exceeds {self.ex.max_unroll} iterations (needs an invariant)')
            try:
                self.exec_block(st.body, fr)
            except _Break:
                return
            except _Continue:
                continue
        self.exec_block(st.orelse, fr)

    def ex_Match(self, st, fr):
        subj = self.ev(st.subject, fr)
        for case in st.cases:
            binds = {}
            m = self.match_pattern(case.pattern, subj, binds, fr)
            if m is False:
                continue
            if m is not True:
                if not self.branch(m, f'case@{case.pattern.lineno}'):
                    continue
            for k, v in binds.items():
                self.write(fr.locals, k, v)
            if case.guard is not None:
                g = self.truthy(self.ev(case.guard, fr))
                if not self.branch(g, f'guard@{case.pattern.lineno}'):
                    continue
            self.exec_block(case.body, fr)
            return

    def match_pattern(self, pat, v, binds, fr):
        """Returns True/False/z3 Bool; fills binds."""
        if isinstance(pat, ast.MatchAs):
            if pat.pattern is None:
                if pat.name is not None:
                    binds[pat.name] = v
                return True
            r = self.match_pattern(pat.pattern, v, binds, fr)
            if pat.name is not None:
                binds[pat.name] = v
            return r
        if isinstance(pat, ast.MatchSingleton):
            return self.identical(v, pat.value)
        if isinstance(pat, ast.MatchValue):
            return self.equal(v, self.ev(pat.value, fr))
        if isinstance(pat, ast.MatchOr):
            rs = []
            for p in pat.patterns:
                r = self.match_pattern(p, v, binds, fr)
                if r is True:
                    return True
                if r is not False:
                    rs.append(as_z3bool(r))
            if not rs:
                return False
            return simp(z3.Or(rs))
        if isinstance(pat, ast.MatchSequence):
            if not isinstance(v, (tuple, list)):
                return False
            if any(isinstance(p, ast.MatchStar) for p in pat.patterns):
                raise Unsupported('star pattern')
            if len(v) != len(pat.patterns):
                return False
            rs = []
            for p, x in zip(pat.patterns, v):
                r = self.match_pattern(p, x, binds, fr)
                if r is False:
                    return False
                if r is not True:
                    rs.append(as_z3bool(r))
            if not rs:
                return True
            return simp(z3.And(rs))
        if isinstance(pat, ast.MatchClass):
            if isinstance(v, seqs.SymADT):
                return seqs.match_class(self, pat, v, binds, fr)
            t = self.ev(pat.cls, fr)
            isa = self.ex.intrinsics.isinstance(self, v, t)
            if isa is False:
                return False
            rs = []
            if isa is not True:   # absnodes: symbolic class of an opaque key
                if pat.patterns or pat.kwd_attrs:
                    raise Unsupported('class pattern with sub-patterns on an abstract key')
                rs.append(as_z3bool(isa))
            if pat.patterns:
                # positional sub-patterns via __match_args__
                if isinstance(v, SObj):
                    ma = self.index.find_class_attr(v.cls, '__match_args__')
                    if ma is None:
                        dc = self._dataclass_fields(v.cls)
                        if dc is None:
                            raise Unsupported('positional class pattern without __match_args__')
                        names = [n for n, _ in dc]
                    else:
                        names = self.class_attr(ma[0], '__match_args__', ma[1])
                    for p, nm in zip(pat.patterns, names):
                        r = self.match_pattern(p, self.getattr(v, nm), binds, fr)
                        if r is False:
                            return False
                        if r is not True:
                            rs.append(as_z3bool(r))
                elif len(pat.patterns) == 1:
                    r = self.match_pattern(pat.patterns[0], v, binds, fr)
                    if r is False:
                        return False
                    if r is not True:
                        rs.append(as_z3bool(r))
                else:
                    raise Unsupported('positional pattern on builtin')
            for nm, p in zip(pat.kwd_attrs, pat.kwd_patterns):
                r = self.match_pattern(p, self.getattr(v, nm), binds, fr)
                if r is False:
                    return False
                if r is not True:
                    rs.append(as_z3bool(r))
            if not rs:
                return True
            return simp(z3.And(rs))
        raise Unsupported(f'pattern {type(pat).__name__}')

    def ex_With(self, st, fr):
        # `with <model object> [as v]:` -- context managers are model objects (instances of a class of
        # /verif/spec, e.g. the gmpy2 context model); the active managers form the *ambient stack*
        # read by speclib.ambient().  Leaving the block (normally, by return or by raise) pops them.
        if self.txns:
            raise MergeAbort()
        stack = self.__dict__.setdefault('with_stack', [])
        n0 = len(stack)
        for item in st.items:
            v = self.ev(item.context_expr, fr)
            if not isinstance(v, SObj) or self.index.find_class_attr(v.cls, '__ambient__') is None:
                del stack[n0:]
                raise Unsupported('with statement on a non-model context manager')
            if item.optional_vars is not None:
                self.assign(item.optional_vars, v, fr)
            stack.append(v)
        try:
            self.exec_block(st.body, fr)
        finally:
            del stack[n0:]

    def ex_Global(self, st, fr):
        raise Unsupported('global statement')

    def ex_Delete(self, st, fr):
        for t in st.targets:
            if isinstance(t, ast.Name):
                if self.txns:
                    raise MergeAbort()
                fr.locals.pop(t.id, None)
            elif isinstance(t, ast.Subscript) and not self.txns:   # ufmaps: del m[k] on a symbolic dict
                obj = self.ev(t.value, fr)
                if not isinstance(obj, (ufmaps.SymRelMap,)):
                    raise Unsupported('del target')
                ufmaps.delitem(self, obj, self.ev(t.slice, fr))
            else:
                raise Unsupported('del target')

    # ---------------------------------------------------------- obligations
    def oblige(self, name, kind, goal, info=None):
        if self.txns:
            raise MergeAbort()
        goal = simp(goal) if is_z3(goal) else goal
        self.obligations.append(Obligation(name, kind, self.facts + self.pc, goal, info))
