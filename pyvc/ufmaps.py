"""
Engine extension for property C13 / A3 (fpy2/utils/unionfind.py):

  * key-valued symbolic maps  dict[Key[E], Key[E]]  -- `containers.SymMap` with vtyp ('key', E): the value
    closure returns a term of the key sort; reads wrap it as a SymKey  (hooks in containers.py);
  * ('relmap', E)  SymRelMap: a mutable  dict[Key[E], set[Key[E]]]  as a binary relation
        present(k) -> Bool,  member(k, e) -> Bool
    with the exact dict/set semantics of the operations the union-find uses:
        k in m,  m[k] (KeyError; a live view SymRow of the row),  m[k] = {x} / set value,  del m[k] (KeyError),
        e in m[k],  m[k].update(m[j]),  m[k].add(e);
  * a WHILE RULE WITH HEAP WRITES (`loop_rule`): `while test:` in the function under verification whose body
    assigns locals and stores into the symbolic maps listed in  options = {'loop_modifies': {k: ['self._parent']}} :
        inv-init[k.*]   inv<k> holds on entry
        havoc           the listed maps and the assigned locals (`loop_types`) get fresh content; inv<k> is assumed
        test true:      var<k> (an int, the variant) is recorded, the body runs once, then
                        inv-step[k.*] = inv<k> in the new state, var-step[k] = 0 <= var_old and var_new < var_old;
                        the path ENDS
        test false:     execution continues after the loop under inv<k>.
    inv<k> / var<k> take any of: the function's locals, `old` (entry snapshot of the inputs).
  * ghost functions with a key result: `ghost_key(name, kname, *args)`.
  * total accessors for specs (branch-free inside quantifiers): `map_at(m, k)`, `rel_in(m, k)`, `rel_has(m, k, e)`.
"""
from __future__ import annotations

import ast

import z3

from . import containers
from .containers import SymKey, SymMap, SymSet, key_sort, _b, _kterm, _mutate, _register_fresh
from .values import InterpError, Opaque, SObj, Unsupported, as_z3int, is_intlike, is_z3, simp


class SymRelMap:
    __slots__ = ('present', 'member', 'kname', 'name')

    def __init__(self, present, member, kname, name=None):
        self.present = present
        self.member = member
        self.kname = kname
        self.name = name

    def clone(self):
        return SymRelMap(self.present, self.member, self.kname, self.name)

    def __repr__(self):
        return f'<symrelmap {self.name or hex(id(self))}: {self.kname}>'


class SymRow:
    """live view of one row  m[k]  of a SymRelMap (a mutable set that aliases the map's row)"""
    __slots__ = ('rel', 'key', 'kname')

    def __init__(self, rel, key):
        self.rel = rel
        self.key = key
        self.kname = rel.kname

    def __repr__(self):
        return f'<symrow {self.rel!r}[{self.key}]>'


containers.SYM = containers.SYM + (SymRelMap, SymRow)
containers.MUTABLE = containers.MUTABLE + (SymRelMap,)


# ------------------------------------------------------------------ types / fresh values

def parse_generic(bname, elts, P):
    """dict[K, Key[E]] and dict[K, set[K]]"""
    if bname in ('dict', 'Dict', 'Mapping') and len(elts) == 2:
        kn = containers.key_name_of(P(elts[0]))
        vt = P(elts[1])
        if kn is not None and vt[0] == 'key':
            return ('map', kn, vt)
        if kn is not None and vt[0] == 'set' and vt[1] == kn:
            return ('relmap', kn)
    return None


def fresh(P, typ, name):
    s = key_sort(typ[1])
    pf = z3.Function(name + '#in', s, z3.BoolSort())
    mf = z3.Function(name + '#has', s, s, z3.BoolSort())
    return SymRelMap(lambda t: pf(t), lambda t, e: mf(t, e), typ[1], name)


def equal_content(a: SymRelMap, b: SymRelMap):
    x = z3.Const('k!frame', key_sort(a.kname))
    y = z3.Const('e!frame', key_sort(a.kname))
    return simp(z3.ForAll([x, y], z3.And(_b(a.present(x)) == _b(b.present(x)),
                                         z3.Implies(_b(a.present(x)), _b(a.member(x, y)) == _b(b.member(x, y))))))


# ------------------------------------------------------------------ operations

def contains(P, c, k):
    if isinstance(c, SymRelMap):
        return simp(_b(c.present(_kterm(c, k))))
    if isinstance(c, SymRow):
        return simp(_b(c.rel.member(c.key, _kterm(c, k))))
    raise Unsupported(f'in on {c!r}')


def getitem(P, m: SymRelMap, k):
    from .interp import SymRaise, mk_exc
    t = _kterm(m, k)
    if not P.branch(simp(_b(m.present(t))), 'key-present'):
        raise SymRaise(mk_exc('KeyError'))
    return SymRow(m, t)


def _member_fn(m, v):
    """membership closure of a set-like value at this moment"""
    if isinstance(v, SymRow):
        mem, key = v.rel.member, v.key
        return lambda e: _b(mem(key, e))
    if isinstance(v, SymSet):
        mem = v.member
        return lambda e: _b(mem(e))
    if isinstance(v, (set, frozenset, list, tuple)):
        ts = [_kterm(m, x) for x in v]
        return lambda e: z3.Or(*[e == t for t in ts]) if ts else z3.BoolVal(False)
    raise Unsupported(f'set value {v!r} stored in a dict[{m.kname}, set[{m.kname}]]')


def setitem(P, m: SymRelMap, k, v):
    _mutate(P, m)
    t = _kterm(m, k)
    row = _member_fn(m, v)
    op, om = m.present, m.member
    m.present = lambda x: z3.Or(x == t, _b(op(x)))
    m.member = lambda x, e: z3.If(x == t, row(e), _b(om(x, e)))


def delitem(P, m, k):
    from .interp import SymRaise, mk_exc
    t = _kterm(m, k)
    if not P.branch(simp(_b(m.present(t))), 'key-present'):
        raise SymRaise(mk_exc('KeyError'))
    _mutate(P, m)
    op = m.present
    m.present = lambda x: z3.And(x != t, _b(op(x)))


def call_bound(P, name, recv, args, kwargs):
    if kwargs:
        raise Unsupported(f'{name} with keyword arguments')
    if name == 'symrow.update' and len(args) == 1:
        m = recv.rel
        _mutate(P, m)
        other = _member_fn(m, args[0])
        key, om = recv.key, m.member
        m.member = lambda x, e: z3.If(x == key, z3.Or(_b(om(x, e)), other(e)), _b(om(x, e)))
        return None
    if name == 'symrow.add' and len(args) == 1:
        m = recv.rel
        _mutate(P, m)
        t = _kterm(m, args[0])
        key, om = recv.key, m.member
        m.member = lambda x, e: z3.If(x == key, z3.Or(_b(om(x, e)), e == t), _b(om(x, e)))
        return None
    raise Unsupported(f'method {name} on a symbolic container')


# ------------------------------------------------------------------ spec vocabulary

def ghost_key(P, name, kname, zs):
    s = key_sort(kname)
    f = z3.Function(f'ghost_{name}', *([z.sort() for z in zs] + [s]))
    return SymKey(f(*zs), kname)


def map_at(P, m, k):
    """total read of a symbolic map (spec side): the value term, meaningful only where `k in m`"""
    if isinstance(m, SymMap):
        v = m.value(_kterm(m, k))
        return SymKey(v, m.vtyp[1]) if m.vtyp[0] == 'key' else simp(v)
    if isinstance(m, dict):
        return m.get(k, k)
    raise Unsupported(f'map_at on {m!r}')


def rel_in(P, m, k):
    if isinstance(m, SymRelMap):
        return simp(_b(m.present(_kterm(m, k))))
    raise Unsupported(f'rel_in on {m!r}')


def rel_has(P, m, k, e):
    if isinstance(m, SymRelMap):
        return simp(z3.And(_b(m.present(_kterm(m, k))), _b(m.member(_kterm(m, k), _kterm(m, e)))))
    raise Unsupported(f'rel_has on {m!r}')


# ------------------------------------------------------------------ model values (counterexamples)

def concretize(cz, v, name=None, typ=None):
    m = cz.model
    if typ is not None:
        v = fresh(None, typ, name)
    u = containers.universe(m, v.kname)
    items = []
    for k in u:
        if z3.is_true(m.eval(_b(v.present(k)), model_completion=True)):
            items.append([str(k), [str(e) for e in u if z3.is_true(m.eval(_b(v.member(k, e)), model_completion=True))]])
    return {'$relmap': v.kname, 'items': items, 'universe': [str(k) for k in u]}


def finite_universe(c, formulas):
    """
    Counter-model search only (option  refute_universe = {'Elem': n}): every quantifier over the key sort is expanded
    over n constants u_0..u_{n-1} and every ground term of the key sort is required to equal one of them.  A model of
    the resulting ground formulas, restricted to {u_i}, is a model of the quantified ones (a counterexample over a
    small universe is a counterexample); proofs never see this.
    """
    opts = c.opts.get('refute_universe') or {}
    if not opts:
        return formulas
    consts = {}
    for kname, n in opts.items():
        srt = key_sort(kname)
        consts[srt.name()] = [z3.Const(f'u!{kname}!{i}', srt) for i in range(n)]
    import itertools

    def expand(f):
        if z3.is_quantifier(f):
            nv = f.num_vars()
            doms = []
            for i in range(nv):
                sn = f.var_sort(i).name()
                if sn not in consts:
                    return f                     # a quantifier over another sort stays
                doms.append(consts[sn])
            body = expand(f.body())
            insts = []
            for combo in itertools.product(*doms):
                # de Bruijn: variable 0 is the LAST bound variable
                insts.append(z3.substitute_vars(body, *reversed(combo)))
            return z3.And(*insts) if f.is_forall() else z3.Or(*insts)
        if z3.is_app(f) and f.num_args() > 0:
            kids = [expand(a) for a in f.children()]
            return f.decl()(*kids)
        return f

    out = [expand(as_b(f)) for f in formulas]
    seen = {}

    def collect(t):
        if t.get_id() in seen:
            return
        seen[t.get_id()] = t
        if z3.is_app(t):
            for a in t.children():
                collect(a)
    for f in out:
        collect(f)
    closure = []
    for t in list(seen.values()):
        if z3.is_app(t) and not z3.is_quantifier(t) and t.sort().name() in consts:
            us = consts[t.sort().name()]
            if not any(t.eq(u) for u in us):
                closure.append(z3.Or(*[t == u for u in us]))
    return out + closure


def as_b(f):
    return z3.BoolVal(f) if isinstance(f, bool) else f


# ------------------------------------------------------------------ while rule with heap writes

def _loop_index(info, st):
    loops = sorted([n for n in ast.walk(info.node) if isinstance(n, (ast.For, ast.While))],
                   key=lambda n: (n.lineno, n.col_offset))
    return loops.index(st)


def applies(P, st, fr) -> bool:
    c = P.ex.current
    if c is None or not c.target or fr.fn is None or P.txns:
        return False
    tinfo = P.ex.index.find_function(c.target)
    if fr.fn is not tinfo:
        return False
    k = _loop_index(tinfo, st)
    mods = c.opts.get('loop_modifies', {})
    return f'inv{k}' in c.ci.methods and (k in mods or str(k) in mods)


def _assigned_names(body):
    out = set()
    for st in body:
        for n in ast.walk(st):
            if isinstance(n, ast.Name) and isinstance(n.ctx, (ast.Store, ast.Del)):
                out.add(n.id)
            elif isinstance(n, (ast.FunctionDef, ast.Lambda, ast.Global, ast.Nonlocal, ast.Yield, ast.YieldFrom,
                                ast.Return, ast.Break, ast.Continue)):
                raise Unsupported(f'heap while rule: loop body construct {type(n).__name__}')
    return out


def loop_rule(P, st, fr):
    from .interp import MergeAbort, SymRaise
    from .values import FuncV
    from .seqs import PathEnd
    if P.txns:
        raise MergeAbort()
    ex = P.ex
    c = ex.current
    tinfo = ex.index.find_function(c.target)
    k = _loop_index(tinfo, st)
    invfn = c.ci.methods[f'inv{k}']
    varfn = c.ci.methods.get(f'var{k}')
    mods = c.opts.get('loop_modifies', {})
    paths = mods.get(k, mods.get(str(k), []))
    ltypes = (c.loop_types or {}).get(k, {})
    assigned = _assigned_names(st.body)
    missing = sorted(assigned - set(ltypes))
    if missing:
        raise Unsupported(f'loop {k} of {c.short}: loop_types[{k}] lacks the assigned variables {missing}')
    if st.orelse:
        raise Unsupported('heap while rule: else clause')
    short = c.short
    modname = tinfo.module.name

    def call_spec(fn, what):
        kw = {}
        for a in fn.node.args.args:
            n = a.arg
            if n == 'old':
                kw[n] = P.old
            elif n == 'self' and 'self' not in fr.locals:
                kw[n] = None
            else:
                try:
                    kw[n] = P.lookup_name(n, fr)
                except SymRaise:
                    raise InterpError(f'{what} of {c.name}: no variable {n} in scope at the loop')
        try:
            return P.call_function(FuncV(fn), [], kw, force_inline=True)
        except SymRaise as e:
            raise InterpError(f'{what} of {c.name} raised {e.exc.name} ({e.where})')

    def eval_inv():
        r = call_spec(invfn, f'inv{k}')
        if not isinstance(r, dict):
            raise InterpError(f'inv{k} of {c.name} must return a dict of named clauses')
        return r

    for name, cond in eval_inv().items():
        P.oblige(f'{short}#inv-init[{k}.{name}]', 'inv', P.truthy(cond))
    # havoc: listed maps (in place: aliases see the new content) and the assigned locals
    for path in paths:
        parts = path.split('.')
        v = P.lookup_name(parts[0], fr)
        for p in parts[1:]:
            v = P.getattr(v, p)
        if isinstance(v, SymMap):
            nv = containers.fresh(P, ('map', v.kname, v.vtyp), P.fresh_name(path))
            v.present, v.value = nv.present, nv.value
        elif isinstance(v, SymSet):
            nv = containers.fresh(P, ('set', v.kname), P.fresh_name(path))
            v.member = nv.member
        elif isinstance(v, SymRelMap):
            nv = fresh(P, ('relmap', v.kname), P.fresh_name(path))
            v.present, v.member = nv.present, nv.member
        else:
            raise Unsupported(f'heap while rule: loop_modifies path {path} is not a symbolic container ({v!r})')
    for n in sorted(assigned):
        t = ex.types.parse_str(ltypes[n], modname, tinfo.cls)
        P.write(fr.locals, n, P.fresh(t, P.fresh_name(n)))
    for name, cond in eval_inv().items():
        P.assume(P.truthy(cond), fact=True)
    more = P.branch(P.truthy(P.ev(st.test, fr)), f'loop{k}:test')
    if more:
        v0 = as_z3int(call_spec(varfn, f'var{k}')) if varfn is not None else None
        P.exec_block(st.body, fr)
        for name, cond in eval_inv().items():
            P.oblige(f'{short}#inv-step[{k}.{name}]', 'inv', P.truthy(cond))
        if varfn is not None:
            v1 = as_z3int(call_spec(varfn, f'var{k}'))
            P.oblige(f'{short}#var-step[{k}]', 'inv', simp(z3.And(v0 >= 0, v1 < v0)))
        raise PathEnd()
