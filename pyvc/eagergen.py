"""
Generator functions, evaluated EAGERLY (C19x: fpy2/transform/path.py walk_stmts / walk_blocks / walk_exprs).

A call of a function whose own body contains `yield` / `yield from` runs the body to completion and returns the list
of yielded values; `yield from x` appends the elements of x.  This is the value `list(gen())` has in Python.  It is
exact for generators that (a) are consumed to exhaustion by their caller and (b) have no side effect and raise
nothing between two yields that the consumer could observe interleaved with its own effects -- true of the walkers
(pure recursive traversals consumed by `for` / `yield from` / a comprehension).  `send`, `throw`, `return value` of
a generator and generators that are abandoned half-way are NOT modelled (the value sent into a `yield` expression is
None, as for plain iteration).
"""
from __future__ import annotations

import ast

_KEY = '#yields'
_CACHE: dict = {}


def is_generator(info) -> bool:
    r = _CACHE.get(id(info.node))
    if r is None:
        r = False
        stack = list(info.node.body)
        while stack:
            n = stack.pop()
            if isinstance(n, (ast.Yield, ast.YieldFrom)):
                r = True
                break
            if isinstance(n, (ast.FunctionDef, ast.AsyncFunctionDef, ast.Lambda, ast.ClassDef)):
                continue        # a nested scope: its yields are its own
            stack.extend(ast.iter_child_nodes(n))
        _CACHE[id(info.node)] = r
    return r


def run(P, info, fr, exec_body):
    out = []
    fr.locals[_KEY] = out
    exec_body()
    return out


def _collector(fr):
    f = fr
    while f is not None:
        if _KEY in f.locals:
            return f.locals[_KEY]
        f = f.parent
    from .values import Unsupported
    raise Unsupported('yield outside a generator function')


def ev_Yield(P, node, fr):
    _collector(fr).append(P.ev(node.value, fr) if node.value is not None else None)
    return None


def ev_YieldFrom(P, node, fr):
    _collector(fr).extend(P.iterate(P.ev(node.value, fr)))
    return None
