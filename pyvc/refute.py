"""
Refutation mode (DESIGN §2.5): a `sat`/`unknown` in proof mode is not a
counterexample, because pow2/bl are uninterpreted there.  Here the same query
is re-asked with pow2/bl pinned to their standard values inside a box, so every
model is standard; the model is turned into concrete inputs (JSON) which
/verif/replay.py runs against the real code under /venv/bin/python.
"""
from __future__ import annotations

from fractions import Fraction

import z3

from . import theory
from .values import (EnumV, FlagV, Lazy, Opaque, SObj, SymFloat, is_z3)


def bounded_model(formulas, B: int, timeout_ms: int = 20000, extra=()):
    s = z3.Solver()
    s.set('timeout', timeout_ms)
    for f in formulas:
        s.add(f)
    for f in extra:
        s.add(f)
    for c in theory.bounded_defs(list(formulas), B):
        s.add(c)
    r = s.check()
    if r == z3.sat:
        return 'sat', s.model()
    return str(r), None


def _ev(model, t):
    v = model.eval(t, model_completion=True)
    if z3.is_int_value(v):
        return v.as_long()
    if z3.is_true(v):
        return True
    if z3.is_false(v):
        return False
    if z3.is_rational_value(v):
        return {'$frac': [v.numerator_as_long(), v.denominator_as_long()]}
    if z3.is_bv_value(v):
        return v.as_signed_long()
    raise ValueError(f'cannot evaluate {t} -> {v}')


class Concretizer:
    def __init__(self, ex, P, model):
        self.ex = ex
        self.P = P
        self.model = model
        self.memo = {}

    def _names(self):
        if not hasattr(self, '_decls'):
            self._decls = {d.name() for d in self.model.decls()}
        return self._decls

    def entry(self, typ, name, depth=0, _noov=False):
        """value on entry of the symbolic input `name` of declared type `typ` under the model"""
        ov = self.ex.overrides.get(name)
        if ov is not None and not _noov and not (ov == ('numstr',) and typ != ('str',)):
            typ = ov
        k = typ[0]
        from . import seqs
        r = seqs.entry_hook(self, typ, name, depth)
        if r is not seqs.NOT_HANDLED:
            return r
        if k in ('key', 'map', 'set', 'kseq', 'relmap'):   # containers
            from . import containers
            return containers.concretize_entry(self, typ, name)
        alt = getattr(self.P, 'entry_exprs', {}).get(name)
        if alt is not None:
            return _ev(self.model, alt)
        if k == 'int':
            return _ev(self.model, z3.Int(name))
        if k == 'bool':
            return _ev(self.model, z3.Bool(name))
        if k == 'frac':
            return _ev(self.model, z3.Real(name))
        if k == 'float':
            return {'$float_bits': _ev(self.model, z3.Int(name + '#bits'))}
        if k == 'none':
            return None
        if k == 'fconst':
            import struct
            return {'$float_bits': int.from_bytes(struct.pack('<d', float(typ[1])), 'little')}
        if k == 'enum':
            ci = typ[1]
            members = self.ex.index.enum_members(ci)
            idx = _ev(self.model, z3.Int(name))
            idx = min(max(idx, 0), len(members) - 1)
            return {'$enum': ci.qualname, 'member': members[idx][0]}
        if k == 'union':
            alts = typ[1]
            tagname = name + '#tag'
            if tagname not in self._names():
                for a in alts:
                    if a[0] == 'none':
                        return None
                i = 0
            else:
                i = _ev(self.model, z3.Int(tagname))
                i = min(max(i, 0), len(alts) - 1)
            return self.entry(alts[i], name, depth, _noov=True)
        if k == 'tuple':
            return {'$tuple': [self.entry(t, f'{name}.{i}', depth) for i, t in enumerate(typ[1])]}
        if k == 'obj':
            ci = typ[1]
            if depth > 6:
                return None
            fields = {}
            for f, (owner, ann) in self.ex.index.fields(ci).items():
                ft = self.ex.types.parse(ann, owner.module.name, ci)
                fields[f] = self.entry(ft, f'{name}.{f}', depth + 1)
            return {'$obj': ci.qualname, 'id': name, 'fields': fields}
        if k == 'default':
            return {'$default': True}
        if k == 'numstr':
            return self.numstr(name)
        if k == 'const':
            return self.value(typ[1])
        return {'$opaque': f'{name}:{typ[1] if len(typ) > 1 else k}'}

    def numstr(self, name):
        """a symbolic numeral spelling: its decomposition under the model (replay.py rebuilds the text)"""
        for kind in ('dec', 'hex'):
            pre = f'{name}#{kind}.'
            if any(n.startswith(pre) for n in self._names()):
                iv = lambda x: _ev(self.model, z3.Int(pre + x))
                bv = lambda x: _ev(self.model, z3.Bool(pre + x))
                return {'$numstr': {'kind': kind, 'matches': bv('matches'), 'sign': iv('sign'),
                                    'has_frac': bv('has_frac'), 'has_exp': bv('has_exp'), 'esign': iv('esign'),
                                    'I': [iv('I.val'), iv('I.len')], 'F': [iv('F.val'), iv('F.len')],
                                    'E': [iv('E.val'), iv('E.len')]}}
        return {'$numstr': {'kind': 'none'}}

    def default(self, typ, depth=0):
        k = typ[0]
        if k == 'int':
            return 0
        if k == 'bool':
            return False
        if k == 'none':
            return None
        if k == 'frac':
            return {'$frac': [0, 1]}
        if k == 'float':
            return {'$float_bits': 0}
        if k == 'fconst':
            import struct
            return {'$float_bits': int.from_bytes(struct.pack('<d', float(typ[1])), 'little')}
        if k == 'enum':
            ci = typ[1]
            return {'$enum': ci.qualname, 'member': self.ex.index.enum_members(ci)[0][0]}
        if k == 'union':
            alts = typ[1]
            for a in alts:
                if a[0] == 'none':
                    return None
            return self.default(alts[0], depth)
        if k == 'tuple':
            return {'$tuple': [self.default(t, depth) for t in typ[1]]}
        if k == 'obj':
            if depth > 4:
                return None
            ci = typ[1]
            fields = {}
            for f, (owner, ann) in self.ex.index.fields(ci).items():
                ft = self.ex.types.parse(ann, owner.module.name, ci)
                fields[f] = self.default(ft, depth + 1)
            return {'$obj': ci.qualname, 'fields': fields}
        if k == 'default':
            return {'$default': True}
        return {'$opaque': str(typ)}

    def value(self, v, depth=0):
        if isinstance(v, Lazy):
            ov = self.ex.overrides.get(v.name)
            return self.default(ov if ov is not None else v.typ, depth)
        if v is None or isinstance(v, (bool, int, str)):
            return v
        if isinstance(v, Fraction):
            return {'$frac': [v.numerator, v.denominator]}
        if isinstance(v, float):
            import struct
            return {'$float_bits': int.from_bytes(struct.pack('<d', v), 'little')}
        if is_z3(v):
            return _ev(self.model, v)
        if isinstance(v, EnumV):
            idx = v.idx if isinstance(v.idx, int) else _ev(self.model, v.idx)
            return {'$enum': v.cls.qualname, 'member': self.ex.index.enum_members(v.cls)[idx][0]}
        if isinstance(v, FlagV):
            return {'$flag': v.cls.qualname, 'bits': v.bits}
        if isinstance(v, SymFloat):
            return {'$float_bits': _ev(self.model, v.bits)}
        if isinstance(v, tuple):
            return {'$tuple': [self.value(x, depth) for x in v]}
        if isinstance(v, list):
            return [self.value(x, depth) for x in v]
        if isinstance(v, SObj):
            if id(v) in self.memo:
                return {'$ref': self.memo[id(v)]}
            if v.cls is None:
                return {'$opaque': 'object'}
            self.memo[id(v)] = v.name or f'obj{len(self.memo)}'
            return {'$obj': v.cls.qualname, 'id': self.memo[id(v)],
                    'fields': {k: self.value(x, depth + 1) for k, x in v.fields.items()}}
        if isinstance(v, Opaque):
            return {'$opaque': v.tag}
        from . import seqs
        r = seqs.value_hook(self, v, depth)
        if r is not seqs.NOT_HANDLED:
            return r
        from . import containers   # containers
        if isinstance(v, (containers.SymKey,) + containers.SYM):
            return containers.concretize_value(self, v)
        return {'$opaque': repr(v)}


def _gv(v):
    """model value of a ghost argument/result: int, bool, or the name of a key-universe element"""
    if z3.is_int_value(v):
        return v.as_long()
    if z3.is_true(v):
        return True
    if z3.is_false(v):
        return False
    return str(v)


def ghost_values(model):
    """interpretations of ghost functions in the model, as {name: {args-tuple-string: value}, 'else': v}"""
    out = {}
    for d in model.decls():
        nm = d.name()
        if nm.startswith('ghost_'):
            fi = model[d]
            ent = {'table': [], 'else': None}
            if z3.is_int_value(fi):          # 0-ary ghost constant
                ent['else'] = fi.as_long()
            if isinstance(fi, z3.FuncInterp):
                for i in range(fi.num_entries()):
                    e = fi.entry(i)
                    args = [_gv(e.arg_value(j)) for j in range(e.num_args())]
                    ent['table'].append([args, _gv(e.value())])
                ev = fi.else_value()
                try:
                    ent['else'] = _gv(ev)
                except Exception:
                    ent['else'] = 0
                if isinstance(ent['else'], str):
                    ent['else'] = 0
            out[nm[len('ghost_'):]] = ent
    return out
