"""
Symbolic side of the encoder cross-check (translation validation of the
extraction): run pyvc's interpreter on concrete inputs (all constants; no
contracts, every callee inlined from source) and compare the outcome with what
CPython computed on the real code (tools/xcheck_native.py).

  python3-vt -m pyvc.xcheck <seed> <n> <contract-module> ...
Exit 0 iff no disagreement.  Prints a JSON summary.
"""
from __future__ import annotations

import json
import os
import struct
import subprocess
import sys
from fractions import Fraction

ROOT = os.path.dirname(os.path.dirname(os.path.abspath(__file__)))
REPO = os.environ.get('FPY_REPO', '/repo')


def build(ex, v, env):
    from .values import EnumV, FlagV, SObj, Opaque
    if v is None or isinstance(v, (bool, int, str)):
        return v
    if isinstance(v, list):
        return [build(ex, x, env) for x in v]
    if '$frac' in v:
        return Fraction(v['$frac'][0], v['$frac'][1])
    if '$float_bits' in v:
        return struct.unpack('<d', v['$float_bits'].to_bytes(8, 'little'))[0]
    if '$tuple' in v:
        return tuple(build(ex, x, env) for x in v['$tuple'])
    if '$enum' in v:
        ci = ex.index.find_class(v['$enum'])
        names = [n for n, _ in ex.index.enum_members(ci)]
        return EnumV(ci, names.index(v['member']))
    if '$obj' in v:
        ci = ex.index.find_class(v['$obj'])
        obj = SObj(ci, {})
        for k, x in v['fields'].items():
            obj.fields[k] = build(ex, x, env)
        return obj
    if '$opaque' in v:
        return Opaque(v['$opaque'])
    raise ValueError(f'cannot build {v}')


def encode(ex, v, depth=0):
    from .values import EnumV, FlagV, SObj, Opaque, is_z3
    if v is None or isinstance(v, (bool, int, str)):
        return v
    if isinstance(v, float):
        return {'$float_bits': int.from_bytes(struct.pack('<d', v), 'little')}
    if isinstance(v, Fraction):
        return {'$frac': [v.numerator, v.denominator]}
    if isinstance(v, EnumV):
        return {'$enum': v.cls.name, 'member': ex.index.enum_members(v.cls)[v.idx][0]}
    if isinstance(v, FlagV):
        return {'$flag': v.cls.name, 'bits': v.bits}
    if isinstance(v, tuple):
        return {'$tuple': [encode(ex, x, depth) for x in v]}
    if isinstance(v, list):
        return [encode(ex, x, depth) for x in v]
    if isinstance(v, SObj):
        if depth > 6:
            return {'$deep': v.cls.name}
        fields = {}
        for k, x in v.fields.items():
            if k in ('_ctx', 'rng'):
                fields[k] = None if x is None else {'$cls': '*'}      # identity of opaque collaborators is not compared
            else:
                fields[k] = encode(ex, x, depth + 1)
        return {'$obj': v.cls.name, 'fields': fields}
    if is_z3(v):
        return {'$symbolic': str(v)}
    return {'$other': repr(v)}


def run(seed: int, n: int, modules: list[str], only: list[str] | None = None):
    from .interp import Path, SymRaise
    from .run import make_explorer
    from .values import FuncV, SObj, Unsupported, InterpError
    env = dict(os.environ, FPY_REPO=REPO)
    if only:
        env['XCHECK_ONLY'] = ','.join(only)
    out = subprocess.run(['/venv/bin/python', os.path.join(ROOT, 'tools', 'xcheck_native.py'), str(seed), str(n)] + modules,
                         capture_output=True, text=True, env=env, timeout=1800)
    if out.returncode != 0:
        return {'error': out.stderr[-3000:]}
    native = json.loads(out.stdout)
    ex = make_explorer(modules)
    ex.by_target = {}            # no contracts: inline everything from source
    ex.draw_fn = lambda k: ((seed * 2654435761 + k * 40503) % (1 << k)) if k > 0 else 0
    summary = {'functions': 0, 'inputs': 0, 'agree': 0, 'disagreements': [], 'skipped': [], 'unsupported': [],
               'pre_witnesses': {}, 'runtime_contract_failures': []}
    for rec in native['functions']:
        if rec['skipped']:
            summary['skipped'].append({'contract': rec['contract'], 'why': rec['skipped']})
            continue
        summary['functions'] += 1
        summary['pre_witnesses'][rec['contract']] = rec['pre_ok']
        for f in rec['contract_failures']:
            summary['runtime_contract_failures'].append(dict(f, contract=rec['contract']))
        info = ex.index.find_function(rec['target'])
        for case in rec['cases']:
            summary['inputs'] += 1
            P = Path(ex, [])
            try:
                args = {k: build(ex, v, {}) for k, v in case['args'].items()}
                names = [a.arg for a in info.node.args.posonlyargs + info.node.args.args]
                if info.name == '__init__':
                    obj = SObj(info.cls, {})
                    kw = {k: v for k, v in args.items() if k != 'self'}
                    P.call_function(FuncV(info, obj), [], kw, force_inline=True)
                    res = ('return', encode(ex, obj))
                else:
                    pos = []
                    kw = dict(args)
                    if names and names[0] in ('self', 'cls') and names[0] in kw:
                        pos.append(kw.pop(names[0]))
                    r = P.call_function(FuncV(info), pos, kw, force_inline=True)
                    res = ('return', encode(ex, r))
            except SymRaise as e:
                res = ('raise', e.exc.name)
            except (Unsupported, InterpError) as e:
                summary['unsupported'].append({'contract': rec['contract'], 'what': str(e)[:200]})
                continue
            nat = tuple(case['result']) if isinstance(case['result'], list) else case['result']
            if '$symbolic' in json.dumps(res):
                # the result involves an uninterpreted model function (e.g. the stdlib hash model): not comparable
                summary['uncomparable'] = summary.get('uncomparable', 0) + 1
            elif list(res) == list(nat):
                summary['agree'] += 1
            else:
                summary['disagreements'].append({'contract': rec['contract'], 'args': case['args'],
                                                 'native': nat, 'pyvc': res})
    return summary


def main():
    seed = int(sys.argv[1])
    n = int(sys.argv[2])
    s = run(seed, n, sys.argv[3:])
    d = s.get('disagreements', [])
    s['disagreements'] = d[:10]
    print(json.dumps(s, indent=1, default=str)[:6000])
    return 0 if not d and 'error' not in s else 3


if __name__ == '__main__':
    sys.exit(main())
