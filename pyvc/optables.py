"""
P1 (C04): operator tables.  Special-purpose syntactic checker (like pyvc/consttable.py): it reads the module-level
dict literals of the CURRENT source

    fpy2/frontend/parser.py   _nullary_table _unary_table _binary_table _ternary_table _nary_table _binop_table _cmpop_table
    fpy2/interpret/byte.py    _NULLARY_TABLE _UNARY_TABLE _BINARY_TABLE _TERNARY_TABLE _NARY_TABLE  and  make_namespace()

resolves every key / value expression to a canonical dotted name (`ops.sub`, `builtins.abs`, `ast.Sub`, `Sub`,
`CompareOp.LT`, `byte._eval_sum`) by the import statements of the module (star imports: `__all__` of the imported
module; a later binding shadows an earlier one, a name bound twice at module level is an error), and compares with
the reference tables of spec/c04.py, written from the language reference.  Obligations (one per reference entry):

    <table>#entry[<key>]         the table maps <key> to the reference value (missing / different value: OPEN)
    <table>#no_extra             the table has no key outside the reference
    <table>#no_duplicate         no key is written twice in the literal (the later one would silently win)
    make_namespace#binds[<name>] the namespace built by make_namespace() binds <name> to the reference function
    make_namespace#no_extra      and binds no other `__fpy_*` name

`make_namespace` is evaluated by a tiny abstract interpreter that accepts exactly its shape: `namespace = {str: name}`,
`for K, fn in <TABLE>.items(): namespace[f'__fpy_{K.__name__}'] = fn`, `return namespace`; anything else is UNSUPPORTED.

A failing obligation is replayed natively by tools/c04_tables_native.py (real fpy2 objects under /venv/bin/python).
"""
from __future__ import annotations

import ast
import builtins
import hashlib
import importlib.util
import os
import time

ROOT = os.path.dirname(os.path.dirname(os.path.abspath(__file__)))

PARSER_TABLES = ['_nullary_table', '_unary_table', '_binary_table', '_ternary_table', '_nary_table', '_binop_table', '_cmpop_table']
BYTE_TABLES = ['_NULLARY_TABLE', '_UNARY_TABLE', '_BINARY_TABLE', '_TERNARY_TABLE', '_NARY_TABLE']


def load_reference():
    spec = importlib.util.spec_from_file_location('c04_tables_ref', os.path.join(ROOT, 'spec', 'c04_tables.py'))
    m = importlib.util.module_from_spec(spec)
    spec.loader.exec_module(m)
    return m


class Module:
    """top-level name resolution of one fpy2 module, from its source"""

    def __init__(self, repo, rel):
        self.repo = repo
        self.rel = rel
        self.path = os.path.join(repo, *rel.split('/'))
        self.tree = ast.parse(open(self.path).read())
        self.errors = []

    def exports(self):
        """names a `from <this module> import *` brings in"""
        names, explicit = [], None
        for st in self.tree.body:
            tgts = []
            if isinstance(st, ast.Assign):
                tgts = [t for t in st.targets if isinstance(t, ast.Name)]
            elif isinstance(st, ast.AnnAssign) and isinstance(st.target, ast.Name):
                tgts = [st.target]
            for t in tgts:
                if t.id == '__all__' and isinstance(st.value, (ast.List, ast.Tuple)):
                    explicit = [e.value for e in st.value.elts if isinstance(e, ast.Constant)]
                names.append(t.id)
            if isinstance(st, (ast.FunctionDef, ast.ClassDef)):
                names.append(st.name)
            if isinstance(st, ast.ImportFrom):
                for a in st.names:
                    if a.name != '*':
                        names.append(a.asname or a.name)
        if explicit is not None:
            return set(explicit)
        return {n for n in names if not n.startswith('_')}

    def defines(self, name):
        return any(isinstance(st, (ast.FunctionDef, ast.ClassDef)) and st.name == name for st in self.tree.body)

    def _target(self, st):
        """package-relative module path of a `from ... import` statement"""
        base = self.rel.split('/')[:-1]
        for _ in range(max(st.level - 1, 0)):
            base = base[:-1]
        parts = base + (st.module.split('.') if st.module else [])
        for cand in ('/'.join(parts) + '.py', '/'.join(parts) + '/__init__.py'):
            if os.path.exists(os.path.join(self.repo, cand)):
                return cand
        return None

    def bindings(self):
        """name -> canonical origin, by the module's top-level statements in order"""
        env = {}
        for st in self.tree.body:
            if isinstance(st, ast.Import):
                for a in st.names:
                    env[a.asname or a.name.split('.')[0]] = ('module', a.name)
            elif isinstance(st, ast.ImportFrom):
                tgt = self._target(st) if st.level else None
                short = (st.module or '').split('.')[-1]
                for a in st.names:
                    if a.name == '*':
                        if tgt is None:
                            self.errors.append(f'star import of {st.module} not resolved')
                            continue
                        for n in Module(self.repo, tgt).exports():
                            env[n] = ('from', tgt, n)
                    else:
                        if tgt is not None and os.path.exists(os.path.join(self.repo, os.path.dirname(tgt), a.name + '.py')) \
                                and tgt.endswith('__init__.py'):
                            env[a.asname or a.name] = ('module', os.path.dirname(tgt) + '/' + a.name + '.py')
                        else:
                            env[a.asname or a.name] = ('from', tgt or st.module, a.name)
            elif isinstance(st, (ast.FunctionDef, ast.ClassDef)):
                env[st.name] = ('local', st.name)
            elif isinstance(st, ast.Assign):
                for t in st.targets:
                    if isinstance(t, ast.Name):
                        env[t.id] = ('local', t.id)
            elif isinstance(st, ast.AnnAssign) and isinstance(st.target, ast.Name):
                env[st.target.id] = ('local', st.target.id)
        return env


def canon(mod: Module, env, node):
    """canonical name of a key / value expression, or None"""
    if isinstance(node, ast.Attribute) and isinstance(node.value, ast.Name):
        b = env.get(node.value.id)
        if b is None:
            return None
        if b[0] == 'module':
            m = b[1]
            if m == 'ast':
                return f'ast.{node.attr}'
            if m.endswith('fpy2/ops.py'):
                return f'ops.{node.attr}' if Module(mod.repo, m).defines(node.attr) else None
            return f'{m}:{node.attr}'
        if b[0] == 'from' and b[2] == 'CompareOp':
            return f'CompareOp.{node.attr}'
        return None
    if isinstance(node, ast.Name):
        b = env.get(node.id)
        if b is None:
            return f'builtins.{node.id}' if hasattr(builtins, node.id) else None
        if b[0] == 'from':
            src = b[1]
            if isinstance(src, str) and src.endswith('fpy2/ops.py'):
                return f'ops.{b[2]}' if Module(mod.repo, src).defines(b[2]) else None
            if isinstance(src, str) and src.endswith('ast/fpyast.py'):
                return b[2] if Module(mod.repo, src).defines(b[2]) else None
            if isinstance(src, str) and src.endswith('number/__init__.py'):
                return f'number.{b[2]}'
            if src == 'fractions':
                return f'fractions.{b[2]}'
            return f'{src}:{b[2]}'
        if b[0] == 'local':
            return f'{os.path.basename(mod.rel)[:-3]}.{b[1]}'
    return None


def read_table(mod: Module, env, name):
    """-> (list of (key, value, key_src, value_src), error)"""
    found = None
    count = 0
    for st in mod.tree.body:
        tgt = st.target if isinstance(st, ast.AnnAssign) else (st.targets[0] if isinstance(st, ast.Assign) and len(st.targets) == 1 else None)
        if isinstance(tgt, ast.Name) and tgt.id == name:
            count += 1
            found = st.value
    if found is None:
        return None, f'{name}: no module-level assignment'
    if count != 1:
        return None, f'{name}: assigned {count} times at module level'
    if not isinstance(found, ast.Dict):
        return None, f'{name}: not a dict literal'
    # the table must not be mutated at module level either
    for st in mod.tree.body:
        for n in ast.walk(st) if not isinstance(st, (ast.FunctionDef, ast.ClassDef)) else []:
            if isinstance(n, ast.Subscript) and isinstance(n.ctx, (ast.Store, ast.Del)) and isinstance(n.value, ast.Name) and n.value.id == name:
                return None, f'{name}: mutated at module level'
            if isinstance(n, ast.Call) and isinstance(n.func, ast.Attribute) and isinstance(n.func.value, ast.Name) \
                    and n.func.value.id == name and n.func.attr in ('update', 'pop', 'setdefault', 'clear', 'popitem', '__setitem__'):
                return None, f'{name}: mutated at module level'
    rows = []
    for k, v in zip(found.keys, found.values):
        if k is None:
            return None, f'{name}: dict unpacking in the literal'
        rows.append((canon(mod, env, k), canon(mod, env, v), ast.unparse(k), ast.unparse(v)))
    return rows, None


def eval_make_namespace(mod: Module, env, tables):
    """abstract evaluation of byte.make_namespace -> (dict name -> canonical value, error)"""
    fn = next((st for st in mod.tree.body if isinstance(st, ast.FunctionDef) and st.name == 'make_namespace'), None)
    if fn is None:
        return None, 'make_namespace not found'
    consts = {}
    for st in mod.tree.body:       # module-level string constants (CTX_NAME, REAL_NAME)
        if isinstance(st, ast.Assign) and len(st.targets) == 1 and isinstance(st.targets[0], ast.Name) \
                and isinstance(st.value, ast.Constant) and isinstance(st.value.value, str):
            consts[st.targets[0].id] = st.value.value
    ns, var = None, None
    for st in fn.body:
        if isinstance(st, ast.Expr) and isinstance(st.value, ast.Constant):
            continue
        if isinstance(st, ast.Assign) and len(st.targets) == 1 and isinstance(st.targets[0], ast.Name) and isinstance(st.value, ast.Dict) and ns is None:
            var, ns = st.targets[0].id, {}
            for k, v in zip(st.value.keys, st.value.values):
                if isinstance(k, ast.Constant) and isinstance(k.value, str):
                    key = k.value
                elif isinstance(k, ast.Name) and k.id in consts:
                    key = consts[k.id]
                else:
                    return None, f'make_namespace: key {ast.unparse(k) if k else "**"}'
                ns[key] = canon(mod, env, v) or f'?{ast.unparse(v)}'
            continue
        if isinstance(st, ast.For) and ns is not None and not st.orelse:
            it, tg = st.iter, st.target
            ok = (isinstance(it, ast.Call) and isinstance(it.func, ast.Attribute) and it.func.attr == 'items' and not it.args
                  and isinstance(it.func.value, ast.Name) and it.func.value.id in tables
                  and isinstance(tg, ast.Tuple) and len(tg.elts) == 2 and all(isinstance(e, ast.Name) for e in tg.elts)
                  and len(st.body) == 1 and isinstance(st.body[0], ast.Assign) and len(st.body[0].targets) == 1)
            if ok:
                kv, vv = tg.elts[0].id, tg.elts[1].id
                a = st.body[0]
                t = a.targets[0]
                ok = (isinstance(t, ast.Subscript) and isinstance(t.value, ast.Name) and t.value.id == var
                      and isinstance(a.value, ast.Name) and a.value.id == vv and isinstance(t.slice, ast.JoinedStr))
                if ok:
                    parts = t.slice.values
                    ok = (len(parts) == 2 and isinstance(parts[0], ast.Constant) and isinstance(parts[1], ast.FormattedValue)
                          and parts[1].conversion == -1 and parts[1].format_spec is None
                          and isinstance(parts[1].value, ast.Attribute) and parts[1].value.attr == '__name__'
                          and isinstance(parts[1].value.value, ast.Name) and parts[1].value.value.id == kv)
                if ok:
                    rows = tables[it.func.value.id]
                    if rows is None:
                        return None, f'make_namespace: table {it.func.value.id} not readable'
                    for key, val, ks, vs in rows:
                        if key is None:
                            return None, f'make_namespace: unresolved class {ks}'
                        ns[parts[0].value + key] = val or f'?{vs}'
                    continue
            return None, f'make_namespace: unsupported loop at line {st.lineno}'
        if isinstance(st, ast.Return) and isinstance(st.value, ast.Name) and st.value.id == var:
            return ns, None
        return None, f'make_namespace: unsupported statement at line {st.lineno}: {ast.unparse(st)[:60]}'
    return None, 'make_namespace: no return'


def _ob(ok, why, trace, native):
    ent = {'kind': 'syntactic', 'paths': 1, 'unsat': 1 if ok else 0, 'bounded': 0, 'open': [], 'secs': 0.0, 'backends': {'ast': 1}}
    if not ok:
        ent['open'].append({'status': 'table-mismatch', 'trace': trace, 'decisions': [], 'outcome': 'n/a', 'info': {'reason': why},
                            'smt2': None, 'cex': None, 'refute_status': None, 'native_tool': native})
    return ent


def check_table(tname, rows, ref, obl, where):
    got = {}
    dup = []
    for key, val, ks, vs in rows:
        k = key or f'?{ks}'
        if k in got:
            dup.append(k)
        got[k] = (val or f'?{vs}', ks, vs)
    for k, want in ref.items():
        if k not in got:
            ok, why = False, f'{tname} has no entry for {k} (reference: {k} -> {want})'
        else:
            ok = got[k][0] == want
            why = '' if ok else f'{tname}[{got[k][1]}] is {got[k][2]} (= {got[k][0]}), reference: {want}'
        obl[f'{tname}#entry[{k}]'] = _ob(ok, why, [f'{where}:{tname}'], {'table': tname, 'key': k, 'want': want})
    extra = sorted(k for k in got if k not in ref)
    obl[f'{tname}#no_extra'] = _ob(not extra, f'{tname} has entries outside the reference: {extra}', [f'{where}:{tname}'],
                                   {'table': tname, 'extra': extra})
    obl[f'{tname}#no_duplicate'] = _ob(not dup, f'{tname} writes the keys {dup} twice', [f'{where}:{tname}'], None)


def run(repo):
    t0 = time.time()
    ref = load_reference()
    obl, unsupported = {}, []
    shas = []
    pm = Module(repo, 'fpy2/frontend/parser.py')
    penv = pm.bindings()
    bm = Module(repo, 'fpy2/interpret/byte.py')
    benv = bm.bindings()
    unsupported += [f'parser.py: {e}' for e in pm.errors] + [f'byte.py: {e}' for e in bm.errors]
    for tname in PARSER_TABLES:
        rows, err = read_table(pm, penv, tname)
        if err:
            unsupported.append(err)
            continue
        shas.append(repr(rows))
        check_table(f'parser.{tname}', rows, ref.PARSER[tname], obl, 'fpy2/frontend/parser.py')
    btables = {}
    for tname in BYTE_TABLES:
        rows, err = read_table(bm, benv, tname)
        btables[tname] = rows
        if err:
            unsupported.append(err)
            continue
        shas.append(repr(rows))
        check_table(f'byte.{tname}', rows, ref.BYTE[tname], obl, 'fpy2/interpret/byte.py')
    ns, err = eval_make_namespace(bm, benv, btables)
    if err:
        unsupported.append(err)
    else:
        shas.append(repr(sorted(ns.items())))
        want = dict(ref.NAMESPACE_HELPERS)
        for tname in BYTE_TABLES:
            for cls, fn in ref.BYTE[tname].items():
                want['__fpy_' + cls] = fn
        for name, fn in want.items():
            ok = ns.get(name) == fn
            why = '' if ok else (f'make_namespace() binds {name} to {ns[name]}, reference: {fn}' if name in ns
                                 else f'make_namespace() does not bind {name} (reference: {fn})')
            obl[f'byte.make_namespace#binds[{name}]'] = _ob(ok, why, ['fpy2/interpret/byte.py:make_namespace'],
                                                            {'table': 'namespace', 'key': name, 'want': fn})
        extra = sorted(k for k in ns if k not in want)
        obl['byte.make_namespace#no_extra'] = _ob(not extra, f'make_namespace() binds names outside the reference: {extra}',
                                                  ['fpy2/interpret/byte.py:make_namespace'], {'table': 'namespace', 'extra': extra})
    return {'contract': 'OpTables_P1', 'target': 'fpy2.frontend.parser/_*_table + fpy2.interpret.byte/_*_TABLE + make_namespace',
            'case': '', 'kind': 'syntactic', 'sha': hashlib.sha256('\n'.join(shas).encode()).hexdigest()[:16],
            'paths': 1, 'explored': 1, 'unsupported': unsupported, 'crashes': [], 'obligations': obl,
            'inlined': [], 'modular': [], 'outcomes': {'checked': 1}, 'wall_s': round(time.time() - t0, 3), 'stats': {}}


if __name__ == '__main__':
    r = run(os.environ.get('FPY_REPO', '/repo'))
    for u in r['unsupported']:
        print('UNSUPPORTED', u)
    nopen = 0
    for k, o in r['obligations'].items():
        if o['open']:
            nopen += 1
            print('OPEN', k, '--', o['open'][0]['info']['reason'])
    print(f"{len(r['obligations'])} obligations, {nopen} open")
