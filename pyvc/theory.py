"""
Background theory for the uninterpreted functions pow2 / bl (bit_length) / ipow.

No quantifier reaches the solver: axioms are added as ground instances
triggered by the terms that occur in the query (two rounds, so that terms
introduced by the first round are closed once more).  Every schema below has a
name; `selftest_schemas()` checks each one numerically on a grid (a sanity
check of the transcription), and /verif/lean/FpyLemmas proves them.
"""
from __future__ import annotations

import itertools
import z3

I = z3.IntSort()
pow2 = z3.Function('pow2', I, I)
bl = z3.Function('bl', I, I)
ipow = z3.Function('ipow', I, I, I)

_POW2 = pow2.get_id() if hasattr(pow2, 'get_id') else None


def is_app_of(t, f) -> bool:
    return z3.is_app(t) and t.decl().eq(f)


def collect(terms):
    """Return (pow2 args, bl args, div/mod nodes, ipow apps) occurring in `terms`."""
    seen = set()
    p2, bls, dms, ipows = {}, {}, {}, {}
    stack = list(terms)
    while stack:
        t = stack.pop()
        i = t.get_id()
        if i in seen:
            continue
        seen.add(i)
        if z3.is_quantifier(t):
            stack.append(t.body())
            continue
        if z3.is_app(t):
            d = t.decl()
            if d.eq(pow2):
                p2[t.arg(0).get_id()] = t.arg(0)
            elif d.eq(bl):
                bls[t.arg(0).get_id()] = t.arg(0)
            elif d.eq(ipow):
                ipows[i] = t
            elif d.kind() in (z3.Z3_OP_IDIV, z3.Z3_OP_MOD):
                dms[i] = t
            stack.extend(t.children())
    return p2, bls, dms, ipows


def _const_val(t):
    t = z3.simplify(t)
    if z3.is_int_value(t):
        return t.as_long()
    return None


def instantiate(formulas, rounds: int = 2, heavy: bool = True):
    """Ground axiom instances for the pow2/bl terms occurring in `formulas`."""
    axioms = []
    names = []
    done_p2, done_bl, done_pair, done_dm = set(), set(), set(), set()
    work = list(formulas)

    def add(name, ax):
        axioms.append(ax)
        names.append(name)

    for rnd in range(rounds):
        p2, bls, dms, ipows = collect(work + axioms)
        last = rnd == rounds - 1
        # ---- unary pow2 ----
        for i, a in p2.items():
            if i in done_p2:
                continue
            done_p2.add(i)
            P = pow2(a)
            add('P.pos', z3.Implies(a >= 0, P >= 1))
            add('P.zero', z3.Implies(a == 0, P == 1))
            add('P.one', z3.Implies(a == 1, P == 2))
            add('P.two', z3.Implies(a == 2, P == 4))
            add('P.ge', z3.Implies(a >= 0, P > a))
            if not last:
                add('P.step', z3.Implies(a >= 1, P == 2 * pow2(a - 1)))
        # ---- unary bl ----
        for i, c in bls.items():
            if i in done_bl:
                continue
            done_bl.add(i)
            B = bl(c)
            add('B.zero', z3.Implies(c == 0, B == 0))
            add('B.nonneg', z3.Implies(c >= 0, B >= 0))
            add('B.one', z3.Implies(c == 1, B == 1))
            add('B.pos', z3.Implies(c > 0, B >= 1))
            if not last:
                add('B.bracket', z3.Implies(c > 0, z3.And(pow2(B - 1) <= c, c < pow2(B))))
                add('B.bracket2', z3.Implies(c > 0, pow2(B) == 2 * pow2(B - 1)))
            # shape schemas
            if z3.is_app(c):
                k = c.decl().kind()
                if k == z3.Z3_OP_IDIV and is_app_of(c.arg(1), pow2):
                    x, kk = c.arg(0), c.arg(1).arg(0)
                    add('S1', z3.Implies(z3.And(x >= 0, kk >= 0),
                                         B == z3.If(bl(x) - kk >= 0, bl(x) - kk, 0)))
                if k == z3.Z3_OP_MOD and is_app_of(c.arg(1), pow2):
                    x, kk = c.arg(0), c.arg(1).arg(0)
                    add('S3', z3.Implies(z3.And(kk >= 0), B <= kk))
                if k == z3.Z3_OP_MUL and c.num_args() == 2:
                    for x, pk in ((c.arg(0), c.arg(1)), (c.arg(1), c.arg(0))):
                        if is_app_of(pk, pow2):
                            kk = pk.arg(0)
                            add('S2', z3.Implies(z3.And(x > 0, kk >= 0), B == bl(x) + kk))
        # ---- pairs pow2/pow2 ----
        p2l = list(p2.items())
        for (i, a), (j, b) in itertools.combinations(p2l, 2):
            key = ('pp', min(i, j), max(i, j))
            if key in done_pair:
                continue
            done_pair.add(key)
            Pa, Pb = pow2(a), pow2(b)
            add('PP.mono', z3.Implies(z3.And(a >= 0, a <= b), Pa <= Pb))
            add('PP.mono', z3.Implies(z3.And(b >= 0, b <= a), Pb <= Pa))
            add('PP.strict', z3.Implies(z3.And(a >= 0, a < b), 2 * Pa <= Pb))
            add('PP.strict', z3.Implies(z3.And(b >= 0, b < a), 2 * Pb <= Pa))
            if heavy and not last:
                add('PP.split', z3.Implies(z3.And(a >= 0, a <= b), Pb == Pa * pow2(b - a)))
                add('PP.split', z3.Implies(z3.And(b >= 0, b <= a), Pa == Pb * pow2(a - b)))
        # ---- pairs bl/bl ----
        bll = list(bls.items())
        for (i, a), (j, b) in itertools.combinations(bll, 2):
            key = ('bb', min(i, j), max(i, j))
            if key in done_pair:
                continue
            done_pair.add(key)
            add('BB.mono', z3.Implies(z3.And(a >= 0, a <= b), bl(a) <= bl(b)))
            add('BB.mono', z3.Implies(z3.And(b >= 0, b <= a), bl(b) <= bl(a)))
            # S7 carry lemma
            add('S7', z3.Implies(z3.And(a >= 0, b == a + 1, bl(b) > bl(a)), b == pow2(bl(a))))
            add('S7', z3.Implies(z3.And(b >= 0, a == b + 1, bl(a) > bl(b)), a == pow2(bl(b))))
            add('S7b', z3.Implies(z3.And(a >= 0, b == a + 1), bl(b) <= bl(a) + 1))
            add('S7b', z3.Implies(z3.And(b >= 0, a == b + 1), bl(a) <= bl(b) + 1))
        # ---- pairs bl/pow2 ----
        for (i, x) in bll:
            for (j, k) in p2l:
                key = ('bp', i, j)
                if key in done_pair:
                    continue
                done_pair.add(key)
                add('S4', z3.Implies(z3.And(x >= 0, k >= 0), (bl(x) <= k) == (x < pow2(k))))
                add('S4b', z3.Implies(k >= 0, z3.Implies(x == pow2(k), bl(x) == k + 1)))
        # ---- div / mod by pow2 ----
        for i, t in dms.items():
            if i in done_dm:
                continue
            done_dm.add(i)
            num, den = t.arg(0), t.arg(1)
            if is_app_of(den, pow2):
                k = den.arg(0)
                q = num / den
                r = num % den
                add('DM.def', z3.Implies(k >= 0, z3.And(num == q * den + r, r >= 0, r < den)))
                add('DM.nonneg', z3.Implies(z3.And(k >= 0, num >= 0), z3.And(q >= 0, q <= num)))
                add('DM.small', z3.Implies(z3.And(k >= 0, num >= 0, num < den), z3.And(q == 0, r == num)))
                # S6: (a * pow2(j)) mod pow2(k) == 0 for k <= j
                if z3.is_app(num) and num.decl().kind() == z3.Z3_OP_MUL and num.num_args() == 2:
                    for a_, pj in ((num.arg(0), num.arg(1)), (num.arg(1), num.arg(0))):
                        if is_app_of(pj, pow2):
                            j = pj.arg(0)
                            add('S6', z3.Implies(z3.And(k >= 0, k <= j), r == 0))
                            if heavy and not last:
                                add('S6q', z3.Implies(z3.And(k >= 0, k <= j), q == a_ * pow2(j - k)))
        # ---- ipow ----
        for i, t in ipows.items():
            key = ('ip', i)
            if key in done_pair:
                continue
            done_pair.add(key)
            b_, e_ = t.arg(0), t.arg(1)
            add('IP.zero', z3.Implies(e_ == 0, t == 1))
            add('IP.one', z3.Implies(e_ == 1, t == b_))
            add('IP.pos', z3.Implies(z3.And(b_ > 0, e_ >= 0), t > 0))
            add('IP.nonneg', z3.Implies(z3.And(b_ >= 0, e_ >= 0), t >= 0))
            add('IP.zerob', z3.Implies(z3.And(b_ == 0, e_ > 0), t == 0))
            add('IP.two', z3.Implies(z3.And(b_ == 2, e_ >= 0), t == pow2(e_)))
    return axioms, names


# --------------------------------------------------------------------------
# refutation mode: interpreted pow2 / bl inside a box

def bounded_defs(formulas, B: int):
    """
    Constraints that make every pow2/bl term in `formulas` standard, assuming
    every pow2 argument lies in [0, B] (or is negative: then unconstrained)
    and every bl argument in [0, 2^B).
    Returns (constraints, box constraints).
    """
    p2, bls, dms, _ = collect(formulas)
    cons = []
    for _, a in p2.items():
        P = pow2(a)
        cons.append(a <= B)
        cons.append(z3.Implies(a >= 0, z3.Or([z3.And(a == k, P == (1 << k)) for k in range(B + 1)])))
    for _, c in bls.items():
        Bc = bl(c)
        cons.append(c < (1 << B))
        cons.append(z3.Implies(c >= 0, z3.Or(
            [z3.And(c == 0, Bc == 0)] +
            [z3.And(c >= (1 << (k - 1)), c < (1 << k), Bc == k) for k in range(1, B + 1)])))
    return cons


# --------------------------------------------------------------------------

def selftest_schemas(limit: int = 40) -> dict:
    """Numerically validate each schema on a small grid (transcription check)."""
    def P(k):
        return 1 << k
    def BL(c):
        return c.bit_length()
    bad = {}
    cnt = 0
    for x in range(0, limit):
        for k in range(0, 8):
            cnt += 1
            if BL(x // P(k)) != max(BL(x) - k, 0):
                bad['S1'] = (x, k)
            if x > 0 and BL(x * P(k)) != BL(x) + k:
                bad['S2'] = (x, k)
            if BL(x % P(k)) > k:
                bad['S3'] = (x, k)
            if (BL(x) <= k) != (x < P(k)):
                bad['S4'] = (x, k)
            if BL(P(k)) != k + 1:
                bad['S4b'] = (k,)
            if P(k) <= k:
                bad['P.ge'] = (k,)
            for j in range(k, 10):
                if (x * P(j)) % P(k) != 0:
                    bad['S6'] = (x, j, k)
                if (x * P(j)) // P(k) != x * P(j - k):
                    bad['S6q'] = (x, j, k)
        if BL(x + 1) > BL(x) and x + 1 != P(BL(x)):
            bad['S7'] = (x,)
        if BL(x + 1) > BL(x) + 1:
            bad['S7b'] = (x,)
    return {'cases': cnt, 'bad': bad}
