"""
Background theory for the uninterpreted functions pow2 / bl (bit_length) / ipow.

No quantifier reaches the solver: axioms are added as ground instances
triggered by the terms that occur in the query (two rounds, so that terms
introduced by the first round are closed once more).  Every schema below has a
name; `selftest_schemas()` checks each one numerically on a grid (a sanity
check of the transcription), and /verif/lean/FpyLemmas proves them.
"""
from __future__ import annotations

import itertools
import z3

I = z3.IntSort()
pow2 = z3.Function('pow2', I, I)
bl = z3.Function('bl', I, I)
ipow = z3.Function('ipow', I, I, I)
tz = z3.Function('tz', I, I)        # number of trailing zero bits of a positive integer (x & (x-1) == x - 2^tz(x))
_TZS = {}         # formula id -> {arg id: arg} of tz applications

_POW2 = pow2.get_id() if hasattr(pow2, 'get_id') else None


def is_app_of(t, f) -> bool:
    return z3.is_app(t) and t.decl().eq(f)


# optional schema families, switched on per contract (options = {'schemas': [...]})
EXTRA = set()

_MULS = {}
_COLLECT = {}     # formula id -> (formula, p2, bls, dms, ipows)
_AX = {}          # key -> list[(name, axiom)]
_KEEP = []


def _collect1(f):
    """(pow2 args, bl args, div/mod nodes, ipow apps) occurring in one formula; cached by AST id."""
    fid = f.get_id()
    hit = _COLLECT.get(fid)
    if hit is not None:
        return hit[1:]
    seen = set()
    p2, bls, dms, ipows = {}, {}, {}, {}
    muls = {}
    tzs = {}
    stack = [f]
    while stack:
        t = stack.pop()
        i = t.get_id()
        if i in seen:
            continue
        seen.add(i)
        if z3.is_quantifier(t):
            stack.append(t.body())
            continue
        if z3.is_app(t):
            d = t.decl()
            k = d.kind()
            if k == z3.Z3_OP_UNINTERPRETED:
                if d.eq(pow2):
                    p2[t.arg(0).get_id()] = t.arg(0)
                elif d.eq(bl):
                    bls[t.arg(0).get_id()] = t.arg(0)
                elif d.eq(ipow):
                    ipows[i] = t
                elif d.eq(tz):
                    tzs[t.arg(0).get_id()] = t.arg(0)
            elif k in (z3.Z3_OP_IDIV, z3.Z3_OP_MOD):
                dms[i] = t
            elif k == z3.Z3_OP_MUL and t.num_args() == 2 and (is_app_of(t.arg(0), pow2) or is_app_of(t.arg(1), pow2)):
                muls[i] = t
            stack.extend(t.children())
    _MULS[fid] = muls
    _TZS[fid] = tzs
    _COLLECT[fid] = (f, p2, bls, dms, ipows)
    return p2, bls, dms, ipows


def collect(terms):
    p2, bls, dms, ipows = {}, {}, {}, {}
    for f in terms:
        a, b, c, d = _collect1(f)
        p2.update(a)
        bls.update(b)
        dms.update(c)
        ipows.update(d)
    return p2, bls, dms, ipows


def _const_val(t):
    t = z3.simplify(t)
    if z3.is_int_value(t):
        return t.as_long()
    return None


def _ax_pow2(a, last):
    P = pow2(a)
    out = [('P.pos', z3.Implies(a >= 0, P >= 1)),
           ('P.zero', z3.Implies(a == 0, P == 1)),
           ('P.one', z3.Implies(a == 1, P == 2)),
           ('P.two', z3.Implies(a == 2, P == 4)),
           ('P.ge', z3.Implies(a >= 0, P > a))]
    if not last:
        out.append(('P.step', z3.Implies(a >= 1, P == 2 * pow2(a - 1))))
    return out


def _ax_bl(c, last):
    B = bl(c)
    out = [('B.zero', z3.Implies(c == 0, B == 0)),
           ('B.nonneg', z3.Implies(c >= 0, B >= 0)),
           ('B.one', z3.Implies(c == 1, B == 1)),
           ('B.pos', z3.Implies(c > 0, B >= 1))]
    if not last:
        out.append(('B.bracket', z3.Implies(c > 0, z3.And(pow2(B - 1) <= c, c < pow2(B)))))
        out.append(('B.bracket2', z3.Implies(c > 0, pow2(B) == 2 * pow2(B - 1))))
    if z3.is_app(c):
        k = c.decl().kind()
        if k == z3.Z3_OP_IDIV and is_app_of(c.arg(1), pow2):
            x, kk = c.arg(0), c.arg(1).arg(0)
            out.append(('S1', z3.Implies(z3.And(x >= 0, kk >= 0),
                                         B == z3.If(bl(x) - kk >= 0, bl(x) - kk, 0))))
        if k == z3.Z3_OP_MOD and is_app_of(c.arg(1), pow2):
            x, kk = c.arg(0), c.arg(1).arg(0)
            out.append(('S3', z3.Implies(z3.And(kk >= 0), B <= kk)))
        if k == z3.Z3_OP_MUL and c.num_args() == 2:
            for x, pk in ((c.arg(0), c.arg(1)), (c.arg(1), c.arg(0))):
                if is_app_of(pk, pow2):
                    kk = pk.arg(0)
                    out.append(('S2', z3.Implies(z3.And(x > 0, kk >= 0), B == bl(x) + kk)))
    return out


def _ax_pp(a, b, last, heavy):
    Pa, Pb = pow2(a), pow2(b)
    out = [('PP.mono', z3.Implies(z3.And(a >= 0, a <= b), Pa <= Pb)),
           ('PP.mono', z3.Implies(z3.And(b >= 0, b <= a), Pb <= Pa)),
           ('PP.strict', z3.Implies(z3.And(a >= 0, a < b), 2 * Pa <= Pb)),
           ('PP.strict', z3.Implies(z3.And(b >= 0, b < a), 2 * Pb <= Pa))]
    if heavy and not last:
        out.append(('PP.split', z3.Implies(z3.And(a >= 0, a <= b), Pb == Pa * pow2(b - a))))
        out.append(('PP.split', z3.Implies(z3.And(b >= 0, b <= a), Pa == Pb * pow2(a - b))))
    return out


def _ax_bb(a, b):
    return [('BB.mono', z3.Implies(z3.And(a >= 0, a <= b), bl(a) <= bl(b))),
            ('BB.mono', z3.Implies(z3.And(b >= 0, b <= a), bl(b) <= bl(a))),
            ('S7', z3.Implies(z3.And(a >= 0, b == a + 1, bl(b) > bl(a)), b == pow2(bl(a)))),
            ('S7', z3.Implies(z3.And(b >= 0, a == b + 1, bl(a) > bl(b)), a == pow2(bl(b)))),
            ('S7b', z3.Implies(z3.And(a >= 0, b == a + 1), bl(b) <= bl(a) + 1)),
            ('S7b', z3.Implies(z3.And(b >= 0, a == b + 1), bl(a) <= bl(b) + 1))]


def _ax_bp(x, k):
    return [('S4', z3.Implies(z3.And(x >= 0, k >= 0), (bl(x) <= k) == (x < pow2(k)))),
            ('S4b', z3.Implies(k >= 0, z3.Implies(x == pow2(k), bl(x) == k + 1)))]


def _ax_dm(t, last, heavy):
    out = []
    num, den = t.arg(0), t.arg(1)
    if is_app_of(den, pow2):
        k = den.arg(0)
        q = num / den
        r = num % den
        out.append(('DM.def', z3.Implies(k >= 0, z3.And(num == q * den + r, r >= 0, r < den))))
        out.append(('DM.nonneg', z3.Implies(z3.And(k >= 0, num >= 0), z3.And(q >= 0, q <= num))))
        out.append(('DM.small', z3.Implies(z3.And(k >= 0, num >= 0, num < den), z3.And(q == 0, r == num))))
        if 'DM1' in EXTRA:
            # DM.one (option 'DM1'): 2^k <= x < 2^(k+1)  ->  x div 2^k == 1  and  x mod 2^k == x - 2^k
            out.append(('DM.one', z3.Implies(z3.And(k >= 0, num >= den, num < 2 * den), z3.And(q == 1, r == num - den))))
        if z3.is_app(num) and num.decl().kind() == z3.Z3_OP_MUL and num.num_args() == 2:
            for a_, pj in ((num.arg(0), num.arg(1)), (num.arg(1), num.arg(0))):
                if is_app_of(pj, pow2):
                    j = pj.arg(0)
                    out.append(('S6', z3.Implies(z3.And(k >= 0, k <= j), r == 0)))
                    if heavy and not last:
                        out.append(('S6q', z3.Implies(z3.And(k >= 0, k <= j), q == a_ * pow2(j - k))))
    return out


def _ax_dd(t1, t2, last):
    """
    two floor-divisions of the same numerator by powers of two (nested-division lemma):
      a <= b  ->  x div 2^b == (x div 2^a) div 2^(b-a)   and   (x div 2^a) mod 2^(b-a) == (x mod 2^b) div 2^a
    """
    out = []
    if last:
        return out
    x = t1.arg(0)
    for (u, v) in ((t1, t2), (t2, t1)):
        a, b = u.arg(1).arg(0), v.arg(1).arg(0)
        qa = x / pow2(a)
        qb = x / pow2(b)
        out.append(('DD.nest', z3.Implies(z3.And(a >= 0, a <= b, x >= 0), qb == qa / pow2(b - a))))
        out.append(('DD.mod', z3.Implies(z3.And(a >= 0, a <= b, x >= 0),
                                         qa % pow2(b - a) == (x % pow2(b)) / pow2(a))))
        out.append(('DD.mono', z3.Implies(z3.And(a >= 0, a <= b, x >= 0), qb <= qa)))
    return out


def _ax_mods(t1, t2):
    """x mod 2^a and x mod 2^b: 0 <= a <= b and 2^b | x  ->  2^a | x;  and  x mod 2^a == (x mod 2^b) mod 2^a  is implied"""
    out = []
    for (u, v) in ((t1, t2), (t2, t1)):
        a, b = u.arg(1).arg(0), v.arg(1).arg(0)
        out.append(('MM.div', z3.Implies(z3.And(a >= 0, a <= b, v == 0), u == 0)))
        out.append(('MM.le', z3.Implies(z3.And(a >= 0, a <= b, u.arg(0) >= 0), u <= v)))
    return out


def _ax_mul(t):
    """x * pow2(k): introduce its bit length (S2) and sign facts"""
    out = []
    for x, pk in ((t.arg(0), t.arg(1)), (t.arg(1), t.arg(0))):
        if is_app_of(pk, pow2):
            k = pk.arg(0)
            out.append(('S2i', z3.Implies(z3.And(x > 0, k >= 0), bl(t) == bl(x) + k)))
            out.append(('M.sign', z3.Implies(k >= 0, z3.And((t >= 0) == (x >= 0), (t > 0) == (x > 0), (t == 0) == (x == 0)))))
            out.append(('M.ge', z3.Implies(z3.And(x >= 0, k >= 0), t >= x)))
            if 'MM' in EXTRA:
                out.append(('M.ge2', z3.Implies(z3.And(x >= 0, k >= 1), t >= 2 * x)))
            break
    return out



def _mul_parts(t):
    if not (z3.is_app(t) and t.decl().kind() == z3.Z3_OP_MUL and t.num_args() == 2):
        return None
    for x, pk in ((t.arg(0), t.arg(1)), (t.arg(1), t.arg(0))):
        if is_app_of(pk, pow2):
            return x, pk.arg(0)
    return None


def _ax_mm(t1, t2):
    """
    MM (option 'MM'): two products a*2^j, b*2^k compare like a and b*2^(k-j) when 0 <= j <= k:
      a*2^j < b*2^k  <->  a < b*2^(k-j)   (same for > and ==)
    """
    out = []
    p1, p2_ = _mul_parts(t1), _mul_parts(t2)
    if p1 is None or p2_ is None:
        return out
    for (ta, (a, j), tb, (b, k)) in ((t1, p1, t2, p2_), (t2, p2_, t1, p1)):
        d = pow2(z3.simplify(k - j))
        g = z3.And(j >= 0, j <= k)
        out.append(('MM.lt', z3.Implies(g, (ta < tb) == (a < b * d))))
        out.append(('MM.gt', z3.Implies(g, (tb < ta) == (b * d < a))))
        out.append(('MM.eq', z3.Implies(g, (ta == tb) == (a == b * d))))
    return out


def _ax_ipow(t):
    b_, e_ = t.arg(0), t.arg(1)
    return [('IP.zero', z3.Implies(e_ == 0, t == 1)),
            ('IP.one', z3.Implies(e_ == 1, t == b_)),
            ('IP.pos', z3.Implies(z3.And(b_ > 0, e_ >= 0), t > 0)),
            ('IP.nonneg', z3.Implies(z3.And(b_ >= 0, e_ >= 0), t >= 0)),
            ('IP.zerob', z3.Implies(z3.And(b_ == 0, e_ > 0), t == 0)),
            ('IP.two', z3.Implies(z3.And(b_ == 2, e_ >= 0), t == pow2(e_)))]


def _ax_tz(x):
    """trailing zeros of x > 0: x = (2q+1) * 2^tz(x); x is a power of two iff tz(x) == bl(x) - 1"""
    T = tz(x)
    return [('TZ.range', z3.Implies(x > 0, z3.And(T >= 0, T <= bl(x) - 1))),
            ('TZ.div', z3.Implies(x > 0, z3.And(x % pow2(T) == 0, (x / pow2(T)) % 2 == 1))),
            ('TZ.le', z3.Implies(x > 0, pow2(T) <= x)),
            ('TZ.pow2', z3.Implies(x > 0, (x == pow2(T)) == (T == bl(x) - 1))),
            ('TZ.pow2b', z3.Implies(x > 0, (x == pow2(bl(x) - 1)) == (T == bl(x) - 1)))]


def _cached(key, fn):
    hit = _AX.get(key)
    if hit is None:
        hit = fn()
        _AX[key] = hit
    return hit


_QUANT = None
QUANT_THRESHOLD = 10**9   # auto mode disabled: opt in per contract with options={'quant': True}


def quantified_pairwise():
    """
    The pairwise schemas (PP.mono, PP.strict, BB.mono, S7, S7b, S4, S4b) as quantified axioms with
    multi-patterns: the solver instantiates them by E-matching on the pow2/bl terms it has, instead of
    pyvc generating every pair up front (quadratic).  Same theorems (lean/FpyLemmas.lean), only the
    instantiation strategy differs; used when PYVC_QUANT=1.
    """
    global _QUANT
    if _QUANT is None:
        a, b = z3.Ints('q!a q!b')
        mp = z3.MultiPattern
        _QUANT = [
            z3.ForAll([a, b], z3.Implies(z3.And(a >= 0, a <= b), pow2(a) <= pow2(b)), patterns=[mp(pow2(a), pow2(b))]),
            z3.ForAll([a, b], z3.Implies(z3.And(a >= 0, a < b), 2 * pow2(a) <= pow2(b)), patterns=[mp(pow2(a), pow2(b))]),
            z3.ForAll([a, b], z3.Implies(z3.And(a >= 0, a <= b), bl(a) <= bl(b)), patterns=[mp(bl(a), bl(b))]),
            z3.ForAll([a, b], z3.Implies(z3.And(a >= 0, b == a + 1, bl(b) > bl(a)), b == pow2(bl(a))), patterns=[mp(bl(a), bl(b))]),
            z3.ForAll([a, b], z3.Implies(z3.And(a >= 0, b == a + 1), bl(b) <= bl(a) + 1), patterns=[mp(bl(a), bl(b))]),
            z3.ForAll([a, b], z3.Implies(z3.And(a >= 0, b >= 0), (bl(a) <= b) == (a < pow2(b))), patterns=[mp(bl(a), pow2(b))]),
            z3.ForAll([a, b], z3.Implies(z3.And(b >= 0, a == pow2(b)), bl(a) == b + 1), patterns=[mp(bl(a), pow2(b))]),
        ]
    return _QUANT


def reset_caches():
    """drop the per-term caches (they keep every z3 term alive): called between contracts to bound memory"""
    for name in ('_COLLECT', '_AX', '_MULS', '_TZS', '_KEEP'):
        c = globals().get(name)
        if isinstance(c, dict):
            c.clear()
        elif isinstance(c, list):
            del c[:]


def instantiate(formulas, rounds: int = 2, heavy: bool = True, quant=None):
    """Ground axiom instances for the pow2/bl terms occurring in `formulas` (cached per term)."""
    import os as _os
    if quant is None:
        qenv = _os.environ.get('PYVC_QUANT', 'auto')
        if qenv in ('0', '1'):
            quant = qenv == '1'
        else:
            # many pow2/bl terms (thin wrappers over big callee contracts): pairwise ground instantiation is
            # quadratic and dominates; hand the pairwise schemas to the solver's E-matching instead
            p2_, bls_, _d, _i = collect(list(formulas))
            quant = len(p2_) + len(bls_) > QUANT_THRESHOLD
    axioms = []
    names = []
    done = set()
    work = list(formulas)

    def emit(key, fn):
        if key in done:
            return
        done.add(key)
        for nm, ax in _cached(key, fn):
            axioms.append(ax)
            names.append(nm)

    for rnd in range(rounds):
        p2, bls, dms, ipows = collect(work + axioms)
        last = rnd == rounds - 1
        for i, a in p2.items():
            if ('p', i, False) in done:
                continue
            emit(('p', i, last), lambda a=a: _ax_pow2(a, last))
        for i, c in bls.items():
            if ('b', i, False) in done:
                continue
            emit(('b', i, last), lambda c=c: _ax_bl(c, last))
        p2l = sorted(p2.items())
        bll = sorted(bls.items())
        if quant:
            if heavy and not last:
                for x in range(len(p2l)):
                    for y in range(x + 1, len(p2l)):
                        (i, a), (j, b) = p2l[x], p2l[y]
                        emit(('pps', i, j), lambda a=a, b=b: [t for t in _ax_pp(a, b, False, True) if t[0] == 'PP.split'])
        else:
            for x in range(len(p2l)):
                for y in range(x + 1, len(p2l)):
                    (i, a), (j, b) = p2l[x], p2l[y]
                    if ('pp', i, j, False, heavy) in done:
                        continue
                    emit(('pp', i, j, last, heavy), lambda a=a, b=b: _ax_pp(a, b, last, heavy))
            for x in range(len(bll)):
                for y in range(x + 1, len(bll)):
                    (i, a), (j, b) = bll[x], bll[y]
                    emit(('bb', i, j), lambda a=a, b=b: _ax_bb(a, b))
            for (i, x) in bll:
                for (j, k) in p2l:
                    emit(('bp', i, j), lambda x=x, k=k: _ax_bp(x, k))
        for i, t in sorted(dms.items()):
            if ('dm', i, False, heavy, 'DM1' in EXTRA) in done:
                continue
            emit(('dm', i, last, heavy, 'DM1' in EXTRA), lambda t=t: _ax_dm(t, last, heavy))
        # pairs of divisions (by pow2) of the same numerator
        divs = [(i, t) for i, t in sorted(dms.items())
                if t.decl().kind() == z3.Z3_OP_IDIV and is_app_of(t.arg(1), pow2)]
        for x in range(len(divs)):
            for y in range(x + 1, len(divs)):
                (i, t1), (j, t2) = divs[x], divs[y]
                if t1.arg(0).get_id() != t2.arg(0).get_id():
                    continue
                if ('dd', i, j, False) in done:
                    continue
                emit(('dd', i, j, last), lambda t1=t1, t2=t2: _ax_dd(t1, t2, last))
        for i, t in sorted(ipows.items()):
            emit(('ip', i), lambda t=t: _ax_ipow(t))
        # pairs of remainders (mod pow2) of the same numerator: divisibility by the larger power gives the smaller
        mods = [(i, t) for i, t in sorted(dms.items())
                if t.decl().kind() == z3.Z3_OP_MOD and is_app_of(t.arg(1), pow2)]
        for x in range(len(mods)):
            for y in range(x + 1, len(mods)):
                (i, t1), (j, t2) = mods[x], mods[y]
                if t1.arg(0).get_id() != t2.arg(0).get_id():
                    continue
                emit(('mods', i, j), lambda t1=t1, t2=t2: _ax_mods(t1, t2))
        if not last:
            for f_ in work + axioms:
                for i, x in _TZS.get(f_.get_id(), {}).items():
                    emit(('tz', i), lambda x=x: _ax_tz(x))
        if not last:
            for f_ in work + axioms:
                for i, t in _MULS.get(f_.get_id(), {}).items():
                    emit(('mul', i, 'MM' in EXTRA), lambda t=t: _ax_mul(t))
        if 'MM' in EXTRA and not last:
            # products with a power of two: those of the query plus q*2^k of every exact-division definition
            ml = {}
            for f_ in work:
                ml.update(_MULS.get(f_.get_id(), {}))
            for i, t in sorted(dms.items()):
                if is_app_of(t.arg(1), pow2):
                    qd = (t.arg(0) / t.arg(1)) * t.arg(1)
                    _KEEP.append(qd)
                    ml[qd.get_id()] = qd
            mll = sorted(ml.items())
            for x in range(len(mll)):
                for y in range(x + 1, len(mll)):
                    (i, t1), (j, t2) = mll[x], mll[y]
                    emit(('mm', i, j), lambda t1=t1, t2=t2: _ax_mm(t1, t2))
    if quant and quant != 'skip':
        axioms = axioms + quantified_pairwise()
        names = names + ['Q'] * len(quantified_pairwise())
    return axioms, names


# --------------------------------------------------------------------------
# refutation mode: interpreted pow2 / bl inside a box

def bounded_defs(formulas, B: int):
    """
    Constraints that make every pow2/bl term in `formulas` standard, assuming
    every pow2 argument lies in [0, B] (or is negative: then unconstrained)
    and every bl argument in [0, 2^B).
    Returns (constraints, box constraints).
    """
    p2, bls, dms, _ = collect(formulas)
    cons = []
    for _, a in p2.items():
        P = pow2(a)
        cons.append(a <= B)
        cons.append(z3.Implies(a >= 0, z3.Or([z3.And(a == k, P == (1 << k)) for k in range(B + 1)])))
    for _, t in sorted(collect(formulas)[3].items()):
        # ipow(b, e): standard value for 0 <= e <= min(B, 12) (concrete base: exact constant; symbolic base: product)
        b_, e_ = t.arg(0), t.arg(1)
        K = min(B, 12)
        cons.append(e_ <= K)
        alts = []
        for k in range(K + 1):
            prod = z3.IntVal(1)
            for _i in range(k):
                prod = prod * b_
            alts.append(z3.And(e_ == k, t == z3.simplify(prod)))
        cons.append(z3.Implies(e_ >= 0, z3.Or(alts)))
    for _, c in bls.items():
        Bc = bl(c)
        cons.append(c < (1 << B))
        cons.append(z3.Implies(c >= 0, z3.Or(
            [z3.And(c == 0, Bc == 0)] +
            [z3.And(c >= (1 << (k - 1)), c < (1 << k), Bc == k) for k in range(1, B + 1)])))
    for f_ in formulas:
        _collect1(f_)
        for _, x in _TZS.get(f_.get_id(), {}).items():
            cons.append(x < (1 << B))
            cons.append(z3.Implies(x > 0, z3.Or(
                [z3.And(x % (1 << (k + 1)) == (1 << k), tz(x) == k) for k in range(B + 1)])))
    return cons


# --------------------------------------------------------------------------

def selftest_schemas(limit: int = 40) -> dict:
    """Numerically validate each schema on a small grid (transcription check)."""
    def P(k):
        return 1 << k
    def BL(c):
        return c.bit_length()
    bad = {}
    cnt = 0
    for x in range(0, limit):
        for k in range(0, 8):
            cnt += 1
            if BL(x // P(k)) != max(BL(x) - k, 0):
                bad['S1'] = (x, k)
            if x > 0 and BL(x * P(k)) != BL(x) + k:
                bad['S2'] = (x, k)
            if BL(x % P(k)) > k:
                bad['S3'] = (x, k)
            if (BL(x) <= k) != (x < P(k)):
                bad['S4'] = (x, k)
            if BL(P(k)) != k + 1:
                bad['S4b'] = (k,)
            if P(k) <= k:
                bad['P.ge'] = (k,)
            if k >= 1 and x * P(k) < 2 * x:
                bad['M.ge2'] = (x, k)
            if P(k) <= x < 2 * P(k) and (x // P(k) != 1 or x % P(k) != x - P(k)):
                bad['DM.one'] = (x, k)
            for j in range(k, 10):
                if (x * P(j)) % P(k) != 0:
                    bad['S6'] = (x, j, k)
                if (x * P(j)) // P(k) != x * P(j - k):
                    bad['S6q'] = (x, j, k)
        for a in range(0, 6):
            for b in range(a, 8):
                if x % P(b) == 0 and x % P(a) != 0:
                    bad['MM.div'] = (x, a, b)
                if x % P(a) > x % P(b):
                    bad['MM.le'] = (x, a, b)
                if x // P(b) != (x // P(a)) // P(b - a):
                    bad['DD.nest'] = (x, a, b)
                if (x // P(a)) % P(b - a) != (x % P(b)) // P(a):
                    bad['DD.mod'] = (x, a, b)
        for b in range(0, 12):
            for j in range(0, 5):
                for k in range(j, 7):
                    if ((x * P(j) < b * P(k)) != (x < b * P(k - j)) or (b * P(k) < x * P(j)) != (b * P(k - j) < x)
                            or (x * P(j) == b * P(k)) != (x == b * P(k - j))):
                        bad['MM'] = (x, j, b, k)
        if BL(x + 1) > BL(x) and x + 1 != P(BL(x)):
            bad['S7'] = (x,)
        if BL(x + 1) > BL(x) + 1:
            bad['S7b'] = (x,)
        if x > 0:
            T = (x & -x).bit_length() - 1
            if x & (x - 1) != x - P(T):
                bad['TZ.def'] = (x,)
            if not (0 <= T <= BL(x) - 1) or x % P(T) != 0 or (x // P(T)) % 2 != 1 or P(T) > x:
                bad['TZ.div'] = (x,)
            if (x == P(T)) != (T == BL(x) - 1) or (x == P(BL(x) - 1)) != (T == BL(x) - 1):
                bad['TZ.pow2'] = (x,)
    return {'cases': cnt, 'bad': bad}



def selftest_instances(n: int = 120, seed: int = 1) -> dict:
    """
    Soundness fuzz of the *generated* instances (not of a hand transcription): for random concrete values of
    x, y, a, b build a set of template terms (x%2^a, x/2^a, x*2^a, bl, tz, pairs of each), run `instantiate`
    with every optional schema switched on, pin pow2/bl/tz to their standard meaning (bounded_defs) and the
    variables to the chosen values: the conjunction must be satisfiable.  An unsatisfiable case means some
    emitted axiom instance is false (this is how a name clash between two schema generators was caught).
    """
    import random
    global EXTRA
    rnd = random.Random(seed)
    x, y, a, b = z3.Ints('t!x t!y t!a t!b')
    bad = []
    old_extra = EXTRA
    EXTRA = {'MM'}
    try:
        for i in range(n):
            vx, vy = rnd.choice([0, 1, 2, 3, 4, 5, 7, 8, 12, 16, 31, 33, 64, 100]), rnd.choice([0, 1, 2, 3, 6, 8, 15, 16, 40])
            va, vb = rnd.randint(0, 6), rnd.randint(0, 6)
            terms = [x % pow2(a), x % pow2(b), x / pow2(a), x / pow2(b), x * pow2(a), y * pow2(b), bl(x), bl(y), bl(x + 1),
                     bl(x / pow2(a)), bl(x % pow2(b)), bl(x * pow2(a)), (x * pow2(a)) % pow2(b), (x * pow2(b)) / pow2(a),
                     pow2(a), pow2(b), pow2(a + b)]
            if 'tz' in globals():
                terms.append(globals()['tz'](x))
            fs = [t >= 0 for t in terms] + [x == vx, y == vy, a == va, b == vb]
            for quant in (False,):
                ax, names = instantiate(fs, quant=quant)
                sol = z3.Solver()
                sol.set('timeout', 20000)
                for f in fs + ax + bounded_defs(fs + ax, 14):
                    sol.add(f)
                r = sol.check()
                if r != z3.sat:
                    # find a culprit
                    culprit = None
                    for nm, one in zip(names, ax):
                        s2 = z3.Solver()
                        for f in fs + [one] + bounded_defs(fs + [one], 14):
                            s2.add(f)
                        if s2.check() == z3.unsat:
                            culprit = nm
                            break
                    bad.append({'x': vx, 'y': vy, 'a': va, 'b': vb, 'result': str(r), 'culprit': culprit})
    finally:
        EXTRA = old_extra
    return {'cases': n, 'bad': bad[:5]}
