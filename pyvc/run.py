"""Driver: verify contracts, in parallel, and print/return reports."""
from __future__ import annotations

import json
import multiprocessing as mp
import os
import sys
import time
import traceback

ROOT = os.path.dirname(os.path.dirname(os.path.abspath(__file__)))
REPO = os.environ.get('FPY_REPO', '/repo')


def make_explorer(contract_modules, **kw):
    from .source import SourceIndex
    from .engine import Explorer, load_contracts
    import ast
    index = SourceIndex({'fpy2': os.path.join(REPO, 'fpy2'), 'spec': os.path.join(ROOT, 'spec'),
                         'contracts': os.path.join(ROOT, 'contracts')})
    contracts = load_contracts(index, contract_modules)
    invariants = {}
    specdir = os.path.join(ROOT, 'spec')
    for fn in sorted(os.listdir(specdir)):
        if fn.endswith('.py') and fn != '__init__.py':
            mi = index.module('spec.' + fn[:-3])
            for f in mi.functions.values():
                for d in f.node.decorator_list:
                    if isinstance(d, ast.Call) and getattr(d.func, 'id', '') == 'invariant':
                        invariants[ast.literal_eval(d.args[0])] = f
    ex = Explorer(index, contracts, invariants, **kw)
    # external models: a spec module may map dotted external names to model functions of that module
    #   EXTERNAL_MODELS = {'gmpy2.get_exp': 'gmp_get_exp', ...}
    # a call of the external is then a call of the model function (which may carry a trusted contract)
    from .values import FuncV
    for fn in sorted(os.listdir(specdir)):
        if fn.endswith('.py') and fn != '__init__.py':
            mi = index.module('spec.' + fn[:-3])
            if 'EXTERNAL_MODELS' in mi.assigns:
                for ext, fname in ast.literal_eval(mi.assigns['EXTERNAL_MODELS']).items():
                    info = mi.functions[fname]
                    ex.externals[ext] = (lambda info: lambda P, args, kwargs: P.call_function(FuncV(info), list(args), dict(kwargs)))(info)
    return ex


_EX = {}


def _job(args):
    mods, cname, case, opts = args
    key = tuple(mods)
    try:
        if key not in _EX:
            _EX[key] = make_explorer(list(mods), **{k: v for k, v in opts.items() if k != 'wall_guard_s'})
        ex = _EX[key]
        return ex.verify(cname, case)
    except Exception as e:
        return {'contract': cname, 'case': str(case), 'crash': f'{type(e).__name__}: {e}',
                'traceback': traceback.format_exc()}


def run(contract_modules, names=None, procs=None, opts=None):
    opts = opts or {}
    ex = make_explorer(contract_modules, **{k: v for k, v in opts.items() if k != 'wall_guard_s'})
    jobs = []
    for cname, c in ex.contracts.items():
        if names and cname not in names and c.short not in names:
            continue
        if c.trusted:
            continue
        info = ex.index.find_function(c.target) if c.target else None
        for case in ex.cases(c, info):
            jobs.append((tuple(contract_modules), cname, case, opts))
    # scheduling hint only: measured costs of earlier runs, longest first (no long tail in the pool)
    try:
        import json as _json
        from .engine import _case_str
        _costs = _json.load(open(os.path.join(os.path.dirname(os.path.dirname(os.path.abspath(__file__))), 'costs.json')))
        jobs.sort(key=lambda j: -_costs.get(f'{j[1]}[{_case_str(j[2])}]', 5.0))
    except Exception:
        pass
    procs = procs or min(16, max(1, len(jobs)))
    if procs == 1 or len(jobs) == 1:
        return [_job(j) for j in jobs], ex
    # a worker that dies or hangs must not hang the check: per-job results with an overall deadline
    budget = float(os.environ.get('PYVC_MAX_SECONDS', '1800'))
    deadline = time.time() + budget * max(1, -(-len(jobs) // procs)) + 600
    pool = mp.get_context('spawn').Pool(procs, maxtasksperchild=8)
    reports = []
    # quick-tier wall guard (safety net): what has not finished by then is reported as not run, never as a verdict
    guard = opts.get('wall_guard_s')
    guard_at = (time.time() + guard) if guard else None
    try:
        asyncs = [(j, pool.apply_async(_job, (j,))) for j in jobs]
        for j, a in asyncs:
            try:
                if guard_at is not None:
                    try:
                        reports.append(a.get(timeout=max(0.05, guard_at - time.time())))
                    except mp.TimeoutError:
                        reports.append({'contract': j[1], 'case': str(j[2]), 'skipped': f'not finished within the quick-tier wall guard ({guard} s)'})
                    continue
                reports.append(a.get(timeout=max(1.0, deadline - time.time())))
            except mp.TimeoutError:
                reports.append({'contract': j[1], 'case': str(j[2]), 'crash': 'worker timed out / died (no result before the deadline)',
                                'traceback': ''})
            except Exception as e:
                reports.append({'contract': j[1], 'case': str(j[2]), 'crash': f'{type(e).__name__}: {e}', 'traceback': ''})
    finally:
        pool.terminate()
    return reports, ex


def summarize(reports, verbose=False):
    ok = True
    for r in reports:
        if 'crash' in r:
            print(f"CRASH {r['contract']} {r['case']}: {r['crash']}")
            if verbose:
                print(r['traceback'])
            ok = False
            continue
        nob = len(r['obligations'])
        nopen = sum(1 for o in r['obligations'].values() if o['open'])
        line = f"{r['contract']}[{r['case']}] paths={r['paths']} obligations={nob} open={nopen} {r['wall_s']}s"
        if r['unsupported']:
            line += f" UNSUPPORTED={r['unsupported'][:2]}"
            ok = False
        print(line)
        for k, o in r['obligations'].items():
            if o['open']:
                ok = False
                print(f"   OPEN {k}: {len(o['open'])}/{o['paths']} paths; first: {o['open'][0]['status']} trace={o['open'][0]['trace']} outcome={o['open'][0]['outcome']} info={o['open'][0]['info']}")
            elif verbose:
                print(f"   ok   {k}: {o['paths']} paths {o['secs']}s {o['backends']}")
    return ok


if __name__ == '__main__':
    import argparse
    ap = argparse.ArgumentParser()
    ap.add_argument('modules')
    ap.add_argument('names', nargs='*')
    ap.add_argument('-v', action='store_true')
    ap.add_argument('-j', type=int, default=None)
    a = ap.parse_args()
    reports, ex = run(a.modules.split(','), a.names or None, procs=a.j)
    ok = summarize(reports, a.v)
    sys.exit(0 if ok else 2)
