"""
./check <PROPERTY> [--tier quick|thorough] [--replay FILE] [--update-baseline] [--only NAME ...]

Verifies every contract tagged with the property against /repo's current
working tree, replays counterexamples natively, classifies, writes
/verif/evidence/<ID>.json.

Exit codes: 0 held; 1 violation (VIOLATION line printed); 2 undecided;
3 checker crash / extraction error.  2 and 3 never print VIOLATION.
"""
from __future__ import annotations

import argparse
import glob
import hashlib
import json
import os
import re
import subprocess
import sys
import time
import traceback

ROOT = os.path.dirname(os.path.dirname(os.path.abspath(__file__)))
REPO = os.environ.get('FPY_REPO', '/repo')
VENV_PY = '/venv/bin/python'

sys.path.insert(0, ROOT)


def contract_modules():
    mods = []
    for f in sorted(os.listdir(os.path.join(ROOT, 'contracts'))):
        if f.endswith('.py') and f != '__init__.py':
            mods.append('contracts.' + f[:-3])
    return mods


def load_json(path, default):
    try:
        with open(path) as f:
            return json.load(f)
    except FileNotFoundError:
        return default


def native_replay(path):
    try:
        doc0 = load_json(path, {})
        if doc0.get('const_search'):
            # T4 (C03): replay = re-run the native (p, rm) search of tools/const_search.py
            cs = doc0['const_search']
            out = subprocess.run([VENV_PY, os.path.join(ROOT, 'tools', 'const_search.py'), cs['constant'], cs['ops'], str(cs.get('max_p', 64))],
                                 capture_output=True, text=True, timeout=170, env=dict(os.environ, FPY_REPO=REPO))
            rdoc = json.loads(out.stdout.strip().split('\n')[-1])
            rdoc['verdict'] = 'contract-violated' if rdoc.get('reproduced') else 'holds'
            rdoc['failed'] = [doc0.get('obligation')] if rdoc.get('reproduced') else []
            rdoc['inputs'] = rdoc.get('first')
            rdoc['outcome'] = rdoc.get('repro')
            return (1 if rdoc.get('reproduced') else 0), rdoc
        if doc0.get('native_tool'):
            # P1 (C04): replay = look the table entry up in the real fpy2 objects (tools/c04_tables_native.py)
            out = subprocess.run([VENV_PY, os.path.join(ROOT, 'tools', 'c04_tables_native.py'), json.dumps(doc0['native_tool'])],
                                 capture_output=True, text=True, timeout=120, env=dict(os.environ, FPY_REPO=REPO))
            rdoc = json.loads(out.stdout.strip().split('\n')[-1])
            rdoc['verdict'] = 'contract-violated' if rdoc.get('reproduced') else 'holds'
            rdoc['failed'] = [doc0.get('obligation')] if rdoc.get('reproduced') else []
            rdoc['inputs'] = rdoc.get('first')
            rdoc['outcome'] = rdoc.get('program_result') or rdoc.get('repro')
            return (1 if rdoc.get('reproduced') else 0), rdoc
        out = subprocess.run([VENV_PY, os.path.join(ROOT, 'replay.py'), path], capture_output=True, text=True,
                             timeout=120, env=dict(os.environ, FPY_REPO=REPO))
        try:
            doc = json.loads(out.stdout)
        except Exception:
            doc = {'verdict': 'harness-error', 'stdout': out.stdout[-2000:], 'stderr': out.stderr[-2000:]}
        return out.returncode, doc
    except subprocess.TimeoutExpired:
        return 3, {'verdict': 'harness-timeout'}


def ast_literal(node):
    import ast as _ast
    try:
        return _ast.literal_eval(node) if node is not None else None
    except Exception:
        return None


_RECHECK = {}


def recheck(ex, mods, o, tier_opts):
    """re-verify one (contract, case) alone with a 6x solver budget; True iff the obligation is discharged now"""
    key = (o['contract'], o['case'])
    if key not in _RECHECK:
        try:
            from pyvc.run import make_explorer
            from pyvc.engine import _case_str
            ex2 = make_explorer(mods, timeout_ms=6 * tier_opts.get('timeout_ms', 10000), strict=False)
            c = ex2.contracts[o['contract']]
            info = ex2.index.find_function(c.target) if c.target else None
            case = next((cs for cs in ex2.cases(c, info) if _case_str(cs) == o['case']), None)
            _RECHECK[key] = ex2.verify(o['contract'], case) if case is not None else None
        except Exception:
            _RECHECK[key] = None
    r = _RECHECK[key]
    if not r or r.get('unsupported') or r.get('crashes'):
        return False
    ob = r['obligations'].get(o['name'])
    return ob is not None and not ob['open']


def safe_name(s):
    return re.sub(r'[^A-Za-z0-9_.-]+', '_', s)[:150]


def known_matches(kf, prop, obligation, replay_doc, args_path):
    """Does a known-finding entry cover this failing input? Evaluated natively on the rebuilt inputs."""
    for ent in kf:
        if ent.get('status') != 'known' or ent.get('property') != prop:
            continue
        if ent.get('obligation') != obligation:
            continue
        when = ent.get('when')
        if not when:
            return ent
        code = (
            "import json,sys,os\n"
            f"sys.path.insert(0,{ROOT!r}); sys.path.insert(0,{REPO!r})\n"
            "import replay\n"
            f"doc=json.load(open({args_path!r}))\n"
            "g=replay.make_ghost(doc.get('ghost'))\n"
            "args={k:replay.build(v,{},g) for k,v in doc['args'].items()}\n"
            f"print('MATCH' if eval({when!r}, {{}}, args) else 'NOMATCH')\n")
        try:
            out = subprocess.run([VENV_PY, '-c', code], capture_output=True, text=True, timeout=60,
                                 env=dict(os.environ, FPY_REPO=REPO))
            if 'MATCH' in out.stdout and 'NOMATCH' not in out.stdout:
                return ent
        except Exception:
            pass
    return None


def main(argv=None):
    ap = argparse.ArgumentParser()
    ap.add_argument('prop')
    ap.add_argument('--tier', default=os.environ.get('VERIF_TIER', 'quick'))
    ap.add_argument('--replay')
    ap.add_argument('--update-baseline', action='store_true')
    ap.add_argument('--shrink-baseline', action='store_true', help='like --update-baseline, but only removes entries (ledger := ledger & discharged now)')
    ap.add_argument('--only', nargs='*')
    ap.add_argument('-j', type=int, default=16)
    ap.add_argument('-v', action='store_true')
    a = ap.parse_args(argv)
    if a.shrink_baseline:
        a.update_baseline = True
    prop = a.prop
    seed = int(os.environ.get('VERIF_SEED', '0') or 0)
    t0 = time.time()

    if a.replay:
        code, doc = native_replay(a.replay)
        print(json.dumps(doc, indent=1))
        if code == 1:
            print(f'VIOLATION property={prop} replay={a.replay}')
        return code

    try:
        from pyvc.run import make_explorer, run
        from pyvc.source import ExtractionError
        mods = contract_modules()
        ex0 = make_explorer(mods)
        names = [n for n, c in ex0.contracts.items() if prop in c.props]
        if a.only:
            names = [n for n in names if n in a.only or ex0.contracts[n].short in a.only]
        if not names and not (prop == 'C03' and a.only and 'ConstTable_T4' in a.only) \
                and not (prop == 'C04' and a.only and 'OpTables_P1' in a.only):
            print(f'no contracts for {prop}')
            return 3
        tier_opts = {'timeout_ms': 10000 if a.tier == 'quick' else 60000}
        if a.update_baseline:
            # the ledger only records what is discharged with a *third* of the normal solver budget, so that the
            # normal run has a 3x margin (obligations that need more stay outside the ledger: if they do not
            # discharge in a later run they are listed as undecided, never reported as violations)
            tier_opts['timeout_ms'] = 3500
            tier_opts['strict'] = True
        os.environ['VERIF_TIER'] = a.tier
        if a.tier == 'quick' and not a.update_baseline:
            g = float(os.environ.get('VERIF_QUICK_WALL', '660') or 0)
            if g > 0:
                tier_opts['wall_guard_s'] = g
        sym_names = [n for n in names if not (a.tier == 'quick' and ex0.contracts[n].opts.get('symbolic_tier') == 'thorough')]
        reports, ex = run(mods, sym_names, procs=a.j, opts=tier_opts) if sym_names else ([], ex0)
        if prop == 'C03' and (not a.only or 'ConstTable_T4' in a.only):
            # T4: syntactic obligations on gmp._constant_exprs (special-purpose checker, own obligations)
            from pyvc import consttable
            reports.append(consttable.run(REPO, search=False))
        if prop == 'C04' and (not a.only or 'OpTables_P1' in a.only):
            # P1: operator tables against the reference tables of spec/c04_tables.py (special-purpose checker)
            from pyvc import optables
            reports.append(optables.run(REPO))
    except Exception as e:
        print(f'CHECKER-CRASH {type(e).__name__}: {e}')
        traceback.print_exc()
        return 3

    ledger_all = load_json(os.path.join(ROOT, 'baseline_obligations.json'), {})
    ledger = set(ledger_all.get(prop, []))
    kf = load_json(os.path.join(ROOT, 'known_findings.json'), [])
    rdir = os.path.join(ROOT, 'replays', prop)
    os.makedirs(rdir, exist_ok=True)

    crashes, unsupported, incomplete_optional = [], [], []
    obligations = {}        # full name -> record
    functions = []
    inlined, modular = set(), set()
    solver_secs = 0.0
    backends = {}
    not_run = []
    for r in reports:
        if 'skipped' in r:
            not_run.append({'contract': r['contract'], 'case': r['case'], 'why': r['skipped']})
            continue
        if 'crash' in r:
            crashes.append({'contract': r['contract'], 'case': r['case'], 'error': r['crash'],
                            'traceback': r.get('traceback', '')[-1500:]})
            continue
        functions.append({'contract': r['contract'], 'target': r['target'], 'case': r['case'], 'sha': r['sha'],
                          'paths': r['paths'], 'obligations': len(r['obligations']), 'wall_s': r['wall_s']})
        inlined |= set(r['inlined'])
        modular |= set(r['modular'])
        for u in r['unsupported']:
            _o = ex.contracts[r['contract']].opts
            if (_o.get('optional_symbolic') or _o.get('symbolic_tier') == 'thorough') and 'budget' in u:
                incomplete_optional.append({'contract': r['contract'], 'case': r['case'], 'what': u})
            else:
                unsupported.append({'contract': r['contract'], 'case': r['case'], 'what': u})
        if r['paths'] == 0 and not r['unsupported']:
            crashes.append({'contract': r['contract'], 'case': r['case'], 'error': 'zero feasible paths (vacuous)'})
        for k, o in r['obligations'].items():
            full = f"{k}@{r['contract']}" + (f"[{r['case']}]" if r['case'] else '')
            obligations[full] = dict(o, contract=r['contract'], case=r['case'], name=k)
            solver_secs += o['secs']
            for b, n in o['backends'].items():
                backends[b] = backends.get(b, 0) + n

    trusted = [{'contract': n, 'target': c.target, 'note': c.note} for n, c in ex.contracts.items()
               if c.trusted and (prop in c.props)]

    # ---- classify
    discharged, open_, violations, known_reported, undecided, bounded = [], [], [], [], [], []
    rechecked = []
    soft = set()      # proved this run, but the contract allows a bounded fallback: not part of the hard ledger
    for full, o in sorted(obligations.items()):
        if not o['open']:
            copts = ex.contracts[o['contract']].opts if o['contract'] in ex.contracts else {}
            if o.get('bounded') or copts.get('bounded'):
                bounded.append({'obligation': full, 'bounded_path_queries': o.get('bounded', 0), 'path_queries': o['paths'],
                                'bound': (copts.get('bounded') or copts.get('bounded_fallback')),
                                'tool': 'z3, pow2/bit_length interpreted, all exponents and widths inside the box'})
            else:
                discharged.append(full)
                if copts.get('bounded_fallback'):
                    soft.add(full)
            continue
        open_.append(full)
        confirmed = []
        for i, ent in enumerate(o['open']):
            if ent.get('status') == 'table-mismatch':
                path = os.path.join(rdir, safe_name(full) + f'.{i}.json')
                with open(path, 'w') as f:
                    json.dump({'property': prop, 'obligation': o['name'], 'reason': ent['info'], 'where': ent['trace'],
                               'native_tool': ent.get('native_tool')}, f, indent=1)
                code, rdoc = native_replay(path) if ent.get('native_tool') else (0, {})
                ent['replay'] = {'file': path, 'exit': code, 'verdict': rdoc.get('verdict'), 'failed': rdoc.get('failed'),
                                 'outcome': rdoc.get('outcome'), 'inputs': rdoc.get('inputs'), 'result': rdoc.get('repro')}
                if code == 1:
                    confirmed.append((path, rdoc))
                continue
            if ent.get('status') == 'syntactic-fail':
                # T4: the failing input is searched natively, (precision, rounding mode) of the public const_* function
                from pyvc import consttable
                cname = o['name'].split('[')[1].split(':')[0]
                path = os.path.join(rdir, safe_name(full) + f'.{i}.json')
                with open(path, 'w') as f:
                    json.dump({'property': prop, 'obligation': o['name'], 'reason': ent['info'], 'expression': ent['trace'],
                               'const_search': {'constant': cname, 'ops': consttable.OPS_NAME.get(cname), 'max_p': 64}}, f, indent=1)
                code, rdoc = native_replay(path)
                ent['replay'] = {'file': path, 'exit': code, 'verdict': rdoc.get('verdict'), 'failed': rdoc.get('failed'),
                                 'outcome': rdoc.get('outcome'), 'inputs': rdoc.get('inputs'), 'result': rdoc.get('first')}
                if code == 1:
                    confirmed.append((path, rdoc))
                continue
            if ent.get('cex'):
                doc = {'property': prop, 'obligation': o['name'], 'contract': o['contract'],
                       'contract_module': ex.contracts[o['contract']].ci.module.name,
                       'case': o['case'], 'args': ent['cex']['args'], 'ghost': ent['cex']['ghost'],
                       'trace': ent['trace'], 'solver_status': ent['status'], 'box': ent['cex']['bound']}
                path = os.path.join(rdir, safe_name(full) + f'.{i}.json')
                with open(path, 'w') as f:
                    json.dump(doc, f, indent=1)
                code, rdoc = native_replay(path)
                ent['replay'] = {'file': path, 'exit': code, 'verdict': rdoc.get('verdict'), 'failed': rdoc.get('failed'),
                                 'outcome': rdoc.get('outcome'), 'inputs': rdoc.get('inputs'), 'result': rdoc.get('result')}
                if code == 1:
                    confirmed.append((path, rdoc))
        if confirmed:
            for path, rdoc in confirmed:
                m = known_matches(kf, prop, o['name'], rdoc, path)
                if m is not None:
                    known_reported.append({'obligation': full, 'finding': m.get('id'), 'what': m.get('what'), 'replay': path})
                else:
                    violations.append({'obligation': full, 'replay': path, 'failed': rdoc.get('failed'),
                                       'inputs': rdoc.get('inputs'), 'outcome': rdoc.get('outcome'), 'result': rdoc.get('result')})
        elif full in ledger:
            # discharged on the unchanged tree, not now, and no failing input found.  Before this is reported,
            # the (contract, case) is verified once more, alone and with a 6x solver budget: a verdict must not
            # flip because all cores were busy.
            if not a.update_baseline and recheck(ex, mods, o, tier_opts):
                discharged.append(full)
                rechecked.append(full)
                open_.remove(full)
                continue
            path = os.path.join(rdir, safe_name(full) + '.noinput.json')
            with open(path, 'w') as f:
                json.dump({'property': prop, 'obligation': full, 'note': 'obligation was discharged on the baseline tree and is not discharged now; no failing input found',
                           'open_paths': [{k: v for k, v in e.items() if k != 'cex'} for e in o['open']]}, f, indent=1)
            violations.append({'obligation': full, 'replay': path, 'no_input': True})
        else:
            undecided.append(full)

    # ---- bounded stand-ins by exhaustive native enumeration (contracts that define native_grid)
    native_bounded = []
    for n in names:
        c = ex.contracts[n]
        if 'native_grid' not in c.ci.methods:
            continue
        nsh = a.j
        procs = [subprocess.Popen([VENV_PY, os.path.join(ROOT, 'tools', 'native_bounded.py'), c.ci.module.name, n, str(i), str(nsh)],
                                  stdout=subprocess.PIPE, stderr=subprocess.PIPE, text=True,
                                  env=dict(os.environ, FPY_REPO=REPO, VERIF_TIER=a.tier)) for i in range(nsh)]
        tot = {'function': c.target, 'contract': n, 'cases': 0, 'pre_ok': 0, 'failures': 0, 'tool': 'exhaustive native enumeration of the runtime contract on the real code',
               'bound': ast_literal(c.ci.class_attrs.get('native_bound_note'))}
        fails = []
        for pr in procs:
            so, se = pr.communicate(timeout=3000)
            try:
                d = json.loads(so.strip().split('\n')[-1])
            except Exception:
                crashes.append({'contract': n, 'case': 'native-bounded', 'error': (se or so)[-800:]})
                continue
            tot['cases'] += d['cases']
            tot['pre_ok'] += d['pre_ok']
            tot['failures'] += len(d['failures']) + d.get('more_failures', 0)
            fails += d['failures']
        native_bounded.append(tot)
        for i, f in enumerate(fails[:8]):
            doc = {'property': prop, 'obligation': f"{c.short}#{f['failed'][0]}", 'contract': n,
                   'contract_module': c.ci.module.name, 'args': f['args'], 'ghost': f.get('ghost', {}),
                   'note': 'found by the bounded native enumeration (stand-in)'}
            path = os.path.join(rdir, safe_name(f'bounded_{n}.{i}') + '.json')
            with open(path, 'w') as fh:
                json.dump(doc, fh, indent=1)
            code, rdoc = native_replay(path)
            if code == 1:
                oname = f"{c.short}#{(rdoc.get('failed') or ['?'])[0]}"
                m = known_matches(kf, prop, oname, rdoc, path)
                if m is not None:
                    known_reported.append({'obligation': oname, 'finding': m.get('id'), 'what': m.get('what'), 'replay': path})
                else:
                    violations.append({'obligation': oname + ' (bounded native enumeration)', 'replay': path, 'failed': rdoc.get('failed'),
                                       'inputs': rdoc.get('inputs'), 'outcome': rdoc.get('outcome'), 'result': rdoc.get('result')})

    # ---- known findings that have only a native reproduction (no obligation of a contract): the script is run on the
    # current tree; the finding is reported while the script still demonstrates it (exit 1, or an UNSOUND line)
    for kfe in kf:
        ob = kfe.get('obligation', '')
        if kfe.get('status') == 'known' and kfe.get('property') == prop and ob.startswith('(native reproduction only)') and not a.only:
            script = os.path.join(ROOT, ob.split(')', 1)[1].strip())
            try:
                pr = subprocess.run([VENV_PY, script], capture_output=True, text=True, timeout=600, cwd=REPO,
                                    env=dict(os.environ, PYTHONPATH=REPO, FPY_REPO=REPO))
                present = pr.returncode == 1 or 'UNSOUND' in pr.stdout
            except Exception:
                present = False
            if present:
                known_reported.append({'obligation': ob, 'finding': kfe.get('id'), 'what': kfe.get('what'), 'replay': script})

    # ---- encoder cross-check (CPython vs pyvc's interpreter on concrete inputs) + runtime contracts
    xc = {}
    try:
        from pyvc.xcheck import run as xrun
        nper = 8 if a.tier == 'quick' else 200
        xmods = sorted({ex.contracts[n].ci.module.name for n in names})
        xc = xrun(seed + 1, nper, xmods, only=names)
    except Exception as e:
        xc = {'error': f'{type(e).__name__}: {e}'}
    if xc.get('error'):
        crashes.append({'contract': 'xcheck', 'case': '', 'error': 'encoder cross-check failed to run: ' + str(xc['error'])[-500:]})
    for d in xc.get('disagreements', [])[:5]:
        crashes.append({'contract': d['contract'], 'case': 'xcheck', 'error': f"pyvc interpreter disagrees with CPython: native={json.dumps(d['native'])[:200]} pyvc={json.dumps(d['pyvc'])[:200]}"})
    for i, f in enumerate(xc.get('runtime_contract_failures', [])):
        # a sampled concrete input on which the real code violates the contract
        cn = f['contract']
        doc = {'property': prop, 'obligation': f"{ex.contracts[cn].short}#{f['failed'][0] if f.get('failed') else '?'}", 'contract': cn,
               'contract_module': ex.contracts[cn].ci.module.name, 'args': f['args'], 'ghost': {},
               'note': 'found by runtime contract checking on sampled inputs (seeded); scripted draw = xcheck draw function'}
        path = os.path.join(rdir, safe_name(f'runtime_{cn}.{i}') + '.json')
        with open(path, 'w') as fh:
            json.dump(doc, fh, indent=1)
        code, rdoc = native_replay(path)
        if code == 1:
            oname = f"{ex.contracts[cn].short}#{(rdoc.get('failed') or ['?'])[0]}"
            m = known_matches(kf, prop, oname, rdoc, path)
            if m is not None:
                known_reported.append({'obligation': oname, 'finding': m.get('id'), 'what': m.get('what'), 'replay': path})
            else:
                violations.append({'obligation': oname + ' (runtime sample)', 'replay': path, 'failed': rdoc.get('failed'),
                                   'inputs': rdoc.get('inputs'), 'outcome': rdoc.get('outcome'), 'result': rdoc.get('result')})

    # ---- thorough tier: must-fail mutants (in-memory) and the Lean re-check of the schemas
    selftest = None
    lean = None
    stamp = os.path.join(ROOT, 'build', 'lean.stamp')
    if os.path.exists(stamp):
        lean = {'stamp': open(stamp).read().strip()}
    if a.tier == 'thorough' and not a.only:
        try:
            from pyvc.selftest import run as mrun
            res = mrun(prop, None, min(a.j, 8))
            selftest = {'mutants': len(res), 'killed': sum(1 for r in res if r['killed']),
                        'survivors': [{'id': r['id'], 'what': r['what'], 'error': r.get('error')} for r in res if not r['killed']]}
            for r in res:
                if not r['killed']:
                    print(f"SELFTEST-SURVIVOR {r['id']} ({r['what']}) {r.get('error', '')}")
        except Exception as e:
            selftest = {'error': f'{type(e).__name__}: {e}'}
        try:
            out = subprocess.run(['bash', os.path.join(ROOT, 'lean', 'check.sh')], capture_output=True, text=True, timeout=3000)
            lean = {'rechecked': out.returncode == 0, 'tail': (out.stdout + out.stderr).strip().split('\n')[-1][-300:]}
        except Exception as e:
            lean = {'rechecked': False, 'error': str(e)}

    if a.update_baseline:
        new_hard = set(d for d in discharged if d not in soft)
        new_soft = set([b['obligation'] for b in bounded] + list(soft))
        if a.shrink_baseline:
            old_hard, old_soft = set(ledger_all.get(prop, [])), set(ledger_all.get(prop + ':bounded', []))
            new_hard, new_soft = new_hard & old_hard, new_soft & (old_soft | old_hard)
        ledger_all = load_json(os.path.join(ROOT, 'baseline_obligations.json'), {})    # re-read: other properties may have been recorded meanwhile
        ledger_all[prop] = sorted(new_hard)
        ledger_all[prop + ':bounded'] = sorted(new_soft)
        with open(os.path.join(ROOT, 'baseline_obligations.json'), 'w') as f:
            json.dump(ledger_all, f, indent=1, sort_keys=True)
        print(f'baseline for {prop}: {len(new_hard)} obligations')
        ledger = set(new_hard)

    bledger = set(ledger_all.get(prop + ':bounded', []))
    for full in list(undecided):
        if full in bledger:
            # was bounded-checked on the baseline tree, now open without a failing input
            path = os.path.join(rdir, safe_name(full) + '.noinput.json')
            with open(path, 'w') as f:
                json.dump({'property': prop, 'obligation': full, 'note': 'bounded stand-in passed on the baseline tree and does not pass now; no failing input replayed',
                           'open_paths': [{k: v for k, v in e.items() if k != 'cex'} for e in obligations[full]['open']]}, f, indent=1)
            violations.append({'obligation': full, 'replay': path, 'no_input': True})
            undecided.remove(full)
    skipped_cc = {(n['contract'], n['case']) for n in not_run}
    skipped_c = {n['contract'] for n in not_run} | (set(names) - set(sym_names))     # not finished / thorough-tier contracts in a quick run

    def _not_run(l):
        # '<name>@<contract>[<case>]'
        tail = l.rsplit('@', 1)[-1]
        cn = tail.split('[', 1)[0]
        return cn in skipped_c
    missing = sorted(l for l in (ledger | bledger) if l not in obligations and not _not_run(l))
    # obligations that vanished (a function lost its paths / contract clause renamed) are undecided, not passes

    # ---- evidence
    n_obl = len([o for o in obligations if o in ledger]) if ledger else len(discharged)
    n_dis = len([o for o in discharged if o in ledger]) if ledger else len(discharged)
    samples = []
    for full in (discharged[:3] + open_[:2]):
        o = obligations[full]
        samples.append({'obligation': full, 'kind': o['kind'], 'paths': o['paths'], 'secs': o['secs'], 'backends': o['backends'],
                        'status': 'discharged' if not o['open'] else 'open'})
    evidence = {
        'property_id': prop, 'tier': a.tier, 'seed': seed, 'level': 'proof',
        'coverage': {
            'obligations': max(n_obl, 0), 'discharged': n_dis,
            'checker_cmd': f'./check {prop} --tier {a.tier}',
            'trusted_base': [
                'pyvc (ast -> VC generator of /verif/pyvc; mitigated by CPython cross-check and must-fail mutants)',
                'z3 5.1.0 / cvc5 1.0.3 answers of unsat',
                'CPython semantics of the verified subset; int unbounded; Fraction exact',
                'pow2/bit_length axiom schemas of pyvc/theory.py (numerically self-tested; Lean proofs in /verif/lean where present)',
                'value semantics of records; constructors return fresh objects',
            ] + [f"trusted contract: {t['target']} ({t['note']})" for t in trusted],
            'samples': samples,
            'functions_under_contract': functions,
            'inlined_not_under_contract': sorted(inlined),
            'modular_callees': sorted(modular),
            'by_backend': backends, 'solver_seconds': round(solver_secs, 2),
            'obligations_total_generated': len(obligations),
            'path_queries': sum(o['paths'] for o in obligations.values()),
            'undischarged_not_in_baseline': undecided,
            'discharged_on_recheck_with_6x_budget': rechecked,
            'bounded_standins': bounded + native_bounded,
            'missing_from_run': missing,
            'not_run_quick_wall_guard': not_run,
            'unsupported': unsupported, 'crashes': crashes,
            'symbolic_attempt_incomplete': incomplete_optional,
            'known_findings_reported': known_reported,
            'selftest_must_fail_mutants': selftest,
            'lean_schemas': lean,
            'crosscheck': {'functions': xc.get('functions'), 'inputs': xc.get('inputs'), 'agree': xc.get('agree'),
                           'disagreements': len(xc.get('disagreements', [])), 'skipped': xc.get('skipped'),
                           'unsupported': xc.get('unsupported', [])[:10],
                           'runtime_contract_failures': len(xc.get('runtime_contract_failures', []))},
            'vacuity': {'precondition_witnesses_sampled': xc.get('pre_witnesses')},
            'violations': violations,
        },
        'assumptions': [t['note'] for t in trusted if t['note']] + [
            'class invariants (spec/*.py @invariant) hold for every object reaching a verified function',
            'exception messages, f-strings, repr and logging are not modelled',
        ],
        'wall_s': round(time.time() - t0, 2),
        'violations': len(violations),
    }
    os.makedirs(os.path.join(ROOT, 'evidence'), exist_ok=True)
    with open(os.path.join(ROOT, 'evidence', f'{prop}.json'), 'w') as f:
        json.dump(evidence, f, indent=1, default=str)

    # ---- report
    print(f'{prop}: {len(functions)} function-cases, {len(obligations)} obligations, {len(discharged)} discharged, {len(bounded)} bounded-only, '
          f'{len(open_)} open ({len(undecided)} undecided, not in baseline), {len(violations)} violations, '
          f'{len(known_reported)} known findings, solver {solver_secs:.1f}s, wall {time.time() - t0:.1f}s')
    if a.v:
        for full in open_:
            o = obligations[full]
            print(f'  OPEN {full}: {len(o["open"])}/{o["paths"]} paths; ' +
                  '; '.join(f"{e['status']}/{e.get('refute_status')}/{(e.get('replay') or {}).get('verdict')}" for e in o['open'][:4]))
    for n in not_run:
        print(f"NOT-RUN {n['contract']}[{n['case']}]: {n['why']}")
    for k in known_reported:
        print(f"KNOWN-FINDING: property={prop} {k['finding']}: {k['what']} [{k['obligation']}]")
    for u in unsupported:
        print(f"UNSUPPORTED {u['contract']}[{u['case']}]: {u['what']}")
    for c in crashes:
        print(f"CRASH {c['contract']}[{c['case']}]: {c['error']}")
        if a.v and c.get('traceback'):
            print(c['traceback'])
    for v in violations:
        tail = ' no-failing-input-found' if v.get('no_input') else ''
        print(f"VIOLATION property={prop} replay={v['replay']}{tail}")
        if not v.get('no_input'):
            print(f"   obligation={v['obligation']} failed={v['failed']} inputs={v['inputs']} outcome={v['outcome']} result={v.get('result')}")
    if violations:
        return 1
    if crashes:
        return 3
    if missing and ledger:
        print(f'UNDECIDED: {len(missing)} baseline obligations were not generated by this run: {missing[:5]}')
        return 2
    if unsupported:
        return 2
    return 0


if __name__ == '__main__':
    sys.exit(main())
