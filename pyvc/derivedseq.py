"""
Derived symbolic sequences (C04 runtime helpers).

  SliceSeq     `s[lo:hi]` of a symbolic-length sequence `s` (step 1) with the exact CPython slice
               semantics: negative bounds wrap once, both bounds are clamped into [0, len(s)],
               the length is max(hi' - lo', 0).  Element k of the view IS element lo' + k of `s`
               (same object: the view delegates to the base sequence).
  same_elem    speclib.same_elem(a, i, b, j): `a[i] is b[j]` -- decided on the (root sequence, index term)
               pair, so a slice view shares its elements with the sequence it was cut from.
"""
from __future__ import annotations

import z3

from . import seqs
from .seqs import SymSeq
from .values import Unsupported, as_int, as_z3int, is_intlike, is_z3, simp


class SliceSeq(SymSeq):
    __slots__ = ('base', 'off')

    def __init__(self, base, off, length):
        SymSeq.__init__(self, f'{base.name}[{off}:+{length}]', length, base.elem, base.kind)
        self.base = base
        self.off = off

    def at(self, P, idx):
        return self.base.at(P, simp(as_z3int(self.off) + as_z3int(idx)))


class PrefixSeq(SymSeq):
    """`[x0, .., x(n-1)] + s` for a concrete list prefix and a symbolic-length list `s`: length n + len(s);
    element k is x_k for a concrete k < n and s[k - n] for an index that is provably >= n (syntactically:
    a concrete k >= n, or `n + j`); any other symbolic index is unsupported"""
    __slots__ = ('prefix', 'base')

    def __init__(self, prefix, base):
        SymSeq.__init__(self, f'{len(prefix)}+{base.name}', simp(len(prefix) + as_z3int(base.length)), base.elem, base.kind)
        self.prefix = prefix
        self.base = base

    def at(self, P, idx):
        n = len(self.prefix)
        idx = simp(as_z3int(idx)) if is_z3(idx) else idx
        if isinstance(idx, int):
            return self.prefix[idx] if idx < n else self.base.at(P, idx - n)
        raise Unsupported(f'symbolic index {idx} into a list with a concrete prefix')


def _norm(bound, n, default):
    """CPython PySlice_AdjustIndices for step 1"""
    if bound is None:
        return default
    b = as_z3int(as_int(bound))
    return z3.If(b < 0, z3.If(b + n < 0, z3.IntVal(0), b + n), z3.If(b > n, n, b))


def slice_of(P, v, lo, hi, st):
    """v[lo:hi:st] for a symbolic sequence v"""
    if st is not None:
        raise Unsupported('slice of a symbolic sequence with a step')
    for b in (lo, hi):
        if b is not None and not is_intlike(b):
            raise Unsupported(f'slice bound {b!r} of a symbolic sequence')
    n = as_z3int(v.length)
    lo_ = simp(_norm(lo, n, z3.IntVal(0)))
    hi_ = simp(_norm(hi, n, n))
    length = simp(z3.If(hi_ - lo_ < 0, z3.IntVal(0), hi_ - lo_))
    root, off = (v.base, simp(as_z3int(v.off) + lo_)) if isinstance(v, SliceSeq) else (v, lo_)
    return SliceSeq(root, off, length)


def root_index(P, s, i):
    """(root sequence, index term) of element i of s"""
    zi = as_z3int(as_int(i))
    if isinstance(s, SliceSeq):
        return s.base, simp(as_z3int(s.off) + zi)
    return s, simp(zi)


def same_elem(P, a, i, b, j):
    """a[i] is b[j] (both indices in range: the spec's duty)"""
    if isinstance(a, SymSeq) and isinstance(b, SymSeq):
        ra, ia = root_index(P, a, i)
        rb, ib = root_index(P, b, j)
        if ra is not rb:
            return False
        return simp(ia == ib)
    if isinstance(a, (list, tuple)) and isinstance(b, (list, tuple)) and isinstance(i, int) and isinstance(j, int):
        return P.identical(a[i], b[j])
    raise Unsupported(f'same_elem({a!r}, {i!r}, {b!r}, {j!r})')


def elem_is(P, x, s, j):
    """x is s[j] for an object x obtained from a symbolic sequence (speclib.elem_is)"""
    if isinstance(x, seqs.SeqElem) and isinstance(s, SymSeq):
        rs, js = root_index(P, s, j)
        if x.seq is not rs:
            return False
        return simp(as_z3int(x.idx) == js)
    if isinstance(s, (list, tuple)) and isinstance(j, int):
        return P.identical(x, s[j])
    raise Unsupported(f'elem_is({x!r}, {s!r}, {j!r})')


SPEC = {'same_elem': same_elem, 'elem_is': elem_is}


# ---------------------------------------------------------------------------
# f-strings that build NAMES (C04 / P2): f'__fpy_{type(e).__name__}' is evaluated exactly when every interpolated part
# is `<expr>.__name__` of a class (a concrete str); every other f-string stays opaque (error messages)

def try_fstring(P, node, fr):
    import ast as _ast
    parts = []
    for v in node.values:
        if isinstance(v, _ast.Constant) and isinstance(v.value, str):
            parts.append(v.value)
            continue
        if not (isinstance(v, _ast.FormattedValue) and v.conversion == -1 and v.format_spec is None
                and isinstance(v.value, _ast.Attribute) and v.value.attr == '__name__'):
            return None
        inner = v.value.value
        # only `type(<name>).__name__` or `<name>.__name__`: no calls with effects
        if isinstance(inner, _ast.Call) and isinstance(inner.func, _ast.Name) and inner.func.id == 'type' \
                and len(inner.args) == 1 and isinstance(inner.args[0], _ast.Name) and not inner.keywords:
            pass
        elif isinstance(inner, _ast.Name):
            pass
        else:
            return None
        try:
            s = P.ev(v.value, fr)
        except Unsupported:
            return None
        if not isinstance(s, str):
            return None
        parts.append(s)
    return ''.join(parts)
