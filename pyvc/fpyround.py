"""
Rounding modes of the BOUNDED FPy dialect (C20x; extends pyvc/fpydialect.py).

rnd(v) at p significant binary digits with an unbounded exponent range, for each of the
eight fpy2 rounding modes (fpy2/number/round.py: RoundingMode):

  RNE  nearest, ties to even          RNA  nearest, ties away from zero
  RTP  toward +infinity               RTN  toward -infinity
  RTZ  toward zero                    RAZ  away from zero
  RTO  to odd  (an inexact value goes to the neighbour with an odd last digit)
  RTE  to even (an inexact value goes to the neighbour with an even last digit)

Two realisations with the same definition: `rnd_fix` on fixed-point bit-vectors (symbolic),
`rnd_frac` on Fractions (concrete values met while executing, and the native cross-check
tools/c20x_rounding_native.py compares it with fpy2's MPFloatContext on every mode).

With magnitude a = |v| (an integer at the vector's scale), L = bit_length(a), sh = max(L - p, 0):
q = a >> sh (the p leading digits), rem = a - (q << sh), half = 2^(sh-1); the result is
(q + up) << sh with the sign of v, where `up` is the mode's decision below.
"""
from __future__ import annotations

from fractions import Fraction

MODES = ('RNE', 'RNA', 'RTP', 'RTN', 'RTZ', 'RAZ', 'RTO', 'RTE')
NEAREST = ('RNE', 'RNA')


def mode_name(m) -> str:
    s = str(m).upper()
    if s not in MODES:
        raise ValueError(f'unknown rounding mode {m!r}')
    return s


def rnd_fix(v, p: int, mode: str):
    """v: fpydialect.FixV; returns FixV = v rounded to p digits under `mode`"""
    import z3
    from .fpydialect import FixV, _bvc
    mode = mode_name(mode)
    x = v.bv
    neg = x < 0
    a = z3.If(neg, -x, x)
    L = _bvc(0)
    for k in range(1, v.bits + 2):
        L = z3.If(z3.UGE(a, _bvc(1 << (k - 1))), _bvc(k), L)
    sh = z3.If(L > _bvc(p), L - _bvc(p), _bvc(0))
    q = z3.LShR(a, sh)
    rem = a - (q << sh)
    half = z3.If(sh == 0, _bvc(0), _bvc(1) << (sh - 1))
    inexact = rem != 0
    odd = z3.Extract(0, 0, q) == 1
    if mode == 'RNE':
        up = z3.And(sh != 0, z3.Or(z3.UGT(rem, half), z3.And(rem == half, odd)))
    elif mode == 'RNA':
        up = z3.And(sh != 0, z3.UGE(rem, half))
    elif mode == 'RTZ':
        up = z3.BoolVal(False)
    elif mode == 'RAZ':
        up = inexact
    elif mode == 'RTP':
        up = z3.And(inexact, z3.Not(neg))
    elif mode == 'RTN':
        up = z3.And(inexact, neg)
    elif mode == 'RTO':
        up = z3.And(inexact, z3.Not(odd))
    else:  # RTE
        up = z3.And(inexact, odd)
    r = (q + z3.If(up, _bvc(1), _bvc(0))) << sh
    # static magnitude bound, read NON-strictly (|bv| <= 2^bits; every rule of fpydialect.FixV is valid under this
    # reading): every mode is monotone and 2^bits is representable at any precision, so |v| <= 2^bits gives
    # |rnd(v)| <= 2^bits -- rounding does not cost a bit (fpydialect.rne_fix adds one, which is merely pessimistic)
    return FixV(z3.If(neg, -r, r), v.scale, v.bits)


def rnd_frac(q: Fraction, p: int, mode: str) -> Fraction:
    mode = mode_name(mode)
    q = Fraction(q)
    if q == 0:
        return q
    neg = q < 0
    a = abs(q)
    e = a.numerator.bit_length() - a.denominator.bit_length()
    if Fraction(2) ** e > a:
        e -= 1
    u = Fraction(2) ** (e - p + 1)          # unit of the last kept digit
    t = a / u
    f = t.numerator // t.denominator        # p leading digits
    d = t - f                               # discarded fraction in [0, 1)
    inexact = d != 0
    odd = f % 2 == 1
    if mode == 'RNE':
        up = d > Fraction(1, 2) or (d == Fraction(1, 2) and odd)
    elif mode == 'RNA':
        up = d >= Fraction(1, 2)
    elif mode == 'RTZ':
        up = False
    elif mode == 'RAZ':
        up = inexact
    elif mode == 'RTP':
        up = inexact and not neg
    elif mode == 'RTN':
        up = inexact and neg
    elif mode == 'RTO':
        up = inexact and not odd
    else:
        up = inexact and odd
    if up:
        f += 1
    r = f * u
    return -r if neg else r
