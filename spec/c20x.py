"""
Spec functions for C20x (extension of spec/c20.py).
"""
from speclib import *
from spec.real import *
from spec.floats import *
from spec.c20 import *
