"""
Spec functions for C20x (extension of spec/c20.py).
"""
from speclib import *
from spec.real import *
from spec.floats import *
from spec.c20 import *


def fl_int_value(n):
    """integer value of an integral finite Float n: the closed form that Float.__int__ / RealFloat.__int__ return
    (contracts/c05_floats.py: Float___int__#post[closed_form]; spec/c05.py: t_int_value) -- the same term, so that
    a caller's `int(n)` and the specification's value of n are identified without any pow2 reasoning"""
    r = n._real
    sc = ite(r._s, -r._c, r._c)
    return (sc * pow2(r._exp)) if r._exp >= 0 else ite(r._s, -fdiv(r._c, pow2(-r._exp)), fdiv(r._c, pow2(-r._exp)))
