"""
NATIVE reference implementation of the ghosts of spec/c15x.py (free uses of an expression, comprehension scoping,
names of tuple bindings and arguments) over real fpy2 AST nodes; written from the language guide / the module text of
spec/c15x.py, NOT from fpy2/analysis/syntax_check.py.  Only imported by replay.py.
"""
from spec.c15_ref import names_of


def free_uses(e, strict):
    """set of names with a free use in expression e (strict: called function names count)"""
    if e is None:
        return set()
    n = type(e).__name__
    mro = [c.__name__ for c in type(e).__mro__]
    if n == 'Var':
        return {e.name} if type(e.name).__name__ in ('NamedId', 'SourceId') else set()
    if n == 'Call':
        out = set()
        f = e.func
        if type(f).__name__ == 'Var':
            if strict and type(f.name).__name__ in ('NamedId', 'SourceId'):
                out.add(f.name)
        elif f is not None:
            out |= free_uses(f, strict)
        for a in e.args:
            out |= free_uses(a, strict)
        for _, a in e.kwargs:
            out |= free_uses(a, strict)
        return out
    if n == 'ListComp':
        out, bound = set(), set()
        for t, it in zip(e.targets, e.iterables):
            out |= free_uses(it, strict) - bound
            bound |= names_of(t)
        return out | (free_uses(e.elt, strict) - bound)
    if 'NaryExpr' in mro or n == 'Compare':
        out = set()
        for a in getattr(e, 'args', ()):
            out |= free_uses(a, strict)
        return out
    if n in ('TupleExpr', 'ListExpr'):
        out = set()
        for a in e.elts:
            out |= free_uses(a, strict)
        return out
    if n == 'ListRef':
        return free_uses(e.value, strict) | free_uses(e.index, strict)
    if n == 'ListSlice':
        return free_uses(e.value, strict) | free_uses(e.start, strict) | free_uses(e.stop, strict)
    if n == 'IfExpr':
        return free_uses(e.cond, strict) | free_uses(e.ift, strict) | free_uses(e.iff, strict)
    if n == 'Attribute':
        return free_uses(e.value, strict)
    return set()            # constants


def _prefix(seq, i):
    return list(seq)[:max(int(i), 0)]


def _uses_prefix(items, i, k, strict):
    return any(k in free_uses(x, strict) for x in _prefix(items, i))


def _lc_bound(e, i):
    out = set()
    for t in _prefix(e.targets, i):
        out |= names_of(t)
    return out


def _lc_uses(e, i, strict):
    out, bound = set(), set()
    for t, it in _prefix(list(zip(e.targets, e.iterables)), i):
        out |= free_uses(it, strict) - bound
        bound |= names_of(t)
    return out


def _binds_prefix(pat, i, k):
    return any(k in names_of(x) for x in _prefix(pat.elts, i))


GHOSTS = {
    'uses': lambda e, k, strict: k in free_uses(e, bool(strict)),
    'uses_args_prefix': lambda e, i, k, strict: _uses_prefix(e.args, i, k, bool(strict)),
    'uses_kwargs_prefix': lambda e, i, k, strict: _uses_prefix([a for _, a in e.kwargs], i, k, bool(strict)),
    'uses_elts_prefix': lambda e, i, k, strict: _uses_prefix(e.elts, i, k, bool(strict)),
    'lc_bound_prefix': lambda e, i, k: k in _lc_bound(e, i),
    'lc_uses_prefix': lambda e, i, k, strict: k in _lc_uses(e, i, bool(strict)),
    'binds_prefix': _binds_prefix,
    'arg_prefix': lambda f, i, k: any(a.name == k for a in _prefix(f.args, i)),
    'uses_unknown_class': lambda e, k, strict: k in free_uses(e, bool(strict)),
}
