"""
Spec functions for C20 (library decompositions are exact).

Part 1: an *arbitrary* rounding context.  `Context.round` is abstract in
fpy2; its behaviour on every concrete family is C01's subject.  Here it is
described by abstract predicates (uninterpreted symbolically, decided on the
real context natively):

  round_ok(ctx, x, exact)   ctx.round(x, exact=exact) returns (does not raise ValueError)
  ctx_keeps(ctx, kind)      kind 0: NaN rounds to NaN; 1: +-inf rounds to +-inf; 2: -0 rounds to -0

Part 2: the FPy dialect (values are exact reals, rnd is uninterpreted).
"""
from speclib import *
from spec.real import *
from spec.floats import *


# ---------------------------------------------------------------------------
# operands of Context.round as scalars: (isnan, isinf, s, exp, c)

def op_isnan(x):
    return x._isnan if cls_name(x) == 'Float' else False


def op_isinf(x):
    return (x._isinf and not x._isnan) if cls_name(x) == 'Float' else False


def op_s(x):
    return (x._real._s if cls_name(x) == 'Float' else (x._s if cls_name(x) == 'RealFloat' else x < 0))


def op_exp(x):
    return (x._real._exp if cls_name(x) == 'Float' else (x._exp if cls_name(x) == 'RealFloat' else 0))


def op_c(x):
    return (x._real._c if cls_name(x) == 'Float' else (x._c if cls_name(x) == 'RealFloat' else ite(x < 0, -x, x)))


def _native_round_ok(ctx, isnan, isinf, s, exp, c, exact):
    from fpy2.number import Float
    if isnan:
        v = Float(isnan=True, s=s)
    elif isinf:
        v = Float(isinf=True, s=s)
    else:
        v = Float(s=s, exp=exp, c=c)
    try:
        ctx.round(v, exact=exact)
        return True
    except ValueError:
        return False


def _native_ctx_keeps(ctx, kind):
    from fpy2.number import Float
    try:
        if kind == 0:
            return ctx.round(Float(isnan=True), exact=True).isnan
        if kind == 1:
            r = ctx.round(Float(isinf=True, s=True), exact=True)
            q = ctx.round(Float(isinf=True, s=False), exact=True)
            return r.isinf and r.s and q.isinf and not q.s
        r = ctx.round(Float(s=True, exp=0, c=0), exact=True)
        return r.is_zero() and r.s
    except ValueError:
        return False


def round_ok(ctx, x, exact):
    return abstract('round_ok', _native_round_ok, ctx, op_isnan(x), op_isinf(x), op_s(x), op_exp(x), op_c(x), exact)


def round_ok_sc(ctx, isnan, isinf, s, exp, c, exact):
    return abstract('round_ok', _native_round_ok, ctx, isnan, isinf, s, exp, c, exact)


def _native_norm_c(ctx, s, exp, c):
    from fpy2.number import Float
    return ctx.normalize(Float(s=s, exp=exp, c=c, ctx=ctx)).c


def norm_c(ctx, s, exp, c):
    """significand of the canonical form of (s, exp, c) under ctx (abstract: C16 describes it per format)"""
    return abstract_int('norm_c', _native_norm_c, ctx, s, exp, c)


def ctx_keeps(ctx, kind):
    return abstract('ctx_keeps', _native_ctx_keeps, ctx, kind)


# ---------------------------------------------------------------------------
# values of (s, exp, c) triples given as scalars

def sc_eq(s1, e1, c1, s2, e2, c2):
    """(-1)^s1 c1 2^e1 == (-1)^s2 c2 2^e2, zero signs ignored (alignment at the smaller exponent).
    Python `if`s on purpose: one alignment per path keeps the number of pow2 terms per query small."""
    if c1 == 0:
        return c2 == 0
    if c2 == 0:
        return False
    if e1 <= e2:
        return s1 == s2 and c1 == c2 * pow2(e2 - e1)
    return s1 == s2 and c1 * pow2(e1 - e2) == c2


def sgn(s):
    return ite(s, -1, 1)


def min3(a, b, c):
    return ite(a <= b, ite(a <= c, a, c), ite(b <= c, b, c))


def tri_eq(a, b):
    """two RealFloat-like triples denote the same real (zero signs ignored)"""
    return sc_eq(a._s, a._exp, a._c, b._s, b._exp, b._c)


def sum2_eq(h, l, x):
    """h + l == x for three RealFloat-like triples (aligned at the smallest exponent of the nonzero ones)"""
    if h._c == 0:
        return tri_eq(l, x)
    if l._c == 0:
        return tri_eq(h, x)
    hc = sgn(h._s) * h._c
    lc = sgn(l._s) * l._c
    xc = sgn(x._s) * x._c
    if h._exp <= l._exp and h._exp <= x._exp:
        return hc + lc * pow2(l._exp - h._exp) == xc * pow2(x._exp - h._exp)
    if l._exp <= x._exp:
        return hc * pow2(h._exp - l._exp) + lc == xc * pow2(x._exp - l._exp)
    return hc * pow2(h._exp - x._exp) + lc * pow2(l._exp - x._exp) == xc


# ---------------------------------------------------------------------------
# RealFloat.split as a function of (exp, c, n): the four shapes of its contract;
# returns (hi_exp, hi_c, lo_exp, lo_c).  Python `if`s: one shape per path.

def split_parts(exp, c, n):
    if c == 0:
        return (n + 1, 0, n, 0)
    if n >= exp + bl(c) - 1:
        return (n + 1, 0, exp, c)
    if n < exp:
        return (exp, c, n, 0)
    sh = n + 1 - exp
    return (n + 1, fdiv(c, pow2(sh)), exp, fmod(c, pow2(sh)))


def rf_is_integer(r):
    """the triple denotes an integer"""
    return r._c == 0 or r._exp >= 0 or fmod(r._c, pow2(ite(r._exp < 0, -r._exp, 0))) == 0


def rf_int_value(r):
    """integer value of an integral triple (floor of the magnitude otherwise)"""
    if r._c == 0:
        return 0
    if r._exp >= 0:
        return sgn(r._s) * (r._c * pow2(r._exp))
    return sgn(r._s) * fdiv(r._c, pow2(-r._exp))


def fl_is_integer(x):
    return fl_finite(x) and rf_is_integer(x._real)
