"""
Spec functions for C14 part (3): AbstractFormat.from_format / AbstractFormat.format / round_is_identity.

Representation-independent membership of a Float in an AbstractFormat (`rmem`): a finite non-zero value
v = (-1)^s c 2^e is a member of A iff it is a multiple of the quantum 2^A.exp (`mult_of`), its significant digits
fit A.prec (`fits_p`: c = m 2^t with bl(m) <= prec) and neg_bound <= v <= pos_bound (compared on the ghost grid
2^g, g below every exponent involved).  The witness-style `mem_fin` of spec/c14.py (the given (e, c) has e >= A.exp
and bl(c) <= A.prec) implies it (lemma C14x_mem_fin_rmem); conversely every `rmem` value has such a witness
(lemma C14x_rmem_witness: shift out t = max(A.exp - e, bl(c) - A.prec, 0) trailing zeros).

The value sets of the format families are the C16 predicates of spec/c16.py (`fx_inF`, `mps_inF`, `mpbfx_inF`) and, for
MPFloatFormat / MPBFloatFormat, the characterisations below (same shape as the C01/C16 `representable_in` contracts).
"""
from speclib import *
from spec.real import *
from spec.floats import *
from spec.c14 import *
from spec.c16 import *


# ---------------------------------------------------------------------------
# representation-independent membership

def quantum_ok(r, A):
    """r (RealFloat) is an integer multiple of 2^A.exp"""
    return True if is_fl(A.exp) else mult_of(r, A.exp)


def digits_ok(c, A):
    """the significant digits of c fit A.prec"""
    return True if is_fl(A.prec) else fits_p(c, A.prec)


def rmem_fin(v, A, g):
    """finite non-zero Float v is a member of A (any representation of v)"""
    r = v._real
    return (quantum_ok(r, A) and digits_ok(r._c, A)
            and le_pos(r._s, r._exp, r._c, A, g) and ge_neg(r._s, r._exp, r._c, A, g))


def rmem(v, A, g):
    """Float v is a member of A"""
    r = v._real
    return ite(v._isnan, A.has_nan,
           ite(v._isinf, ite(r._s, A.has_neg_inf, A.has_pos_inf),
           ite(r._c == 0, (not r._s) or A.has_neg_zero, rmem_fin(v, A, g))))


def imax3(a, b, c):
    return ite(a >= b, ite(a >= c, a, c), ite(b >= c, b, c))


def wit_shift(r, A):
    """number of trailing zeros to shift out of r._c to obtain the witness representation"""
    t1 = 0 if is_fl(A.exp) else A.exp - r._exp
    t2 = 0 if is_fl(A.prec) else bl(r._c) - A.prec
    return imax3(t1, t2, 0)


# ---------------------------------------------------------------------------
# value sets of the families that have no predicate in spec/c16.py

def real_inF(fmt, v):
    """RealFormat: every real number, NaN and both infinities, both zeros"""
    return True


def mpf_fin_member(fmt, xr):
    return xr._c == 0 or fits_p(xr._c, fmt.pmax)


def mpf_inF(fmt, x):
    """MPFloatFormat(pmax, enable_nan, enable_inf): zero or at most pmax significant digits (no exponent bound)"""
    return ite(x_isnan(x), fmt.enable_nan, ite(x_isinf(x), fmt.enable_inf, mpf_fin_member(fmt, real_of(x))))


def shape(A, prec_fl, exp_fl, pos_fl, neg_fl):
    return (is_fl(A.prec) == prec_fl and is_fl(A.exp) == exp_fl
            and is_fl(A.pos_bound) == pos_fl and is_fl(A.neg_bound) == neg_fl)


def specials_eq(A, nan, pinf, ninf, nzero, tag):
    return {tag + '_nan': A.has_nan == nan, tag + '_pos_inf': A.has_pos_inf == pinf,
            tag + '_neg_inf': A.has_neg_inf == ninf, tag + '_neg_zero': A.has_neg_zero == nzero}
