"""
Spec for C13y (two analysis drivers of C13):

(2) `_ArraySizeInferInstance._seed_from_assert` (fpy2/analysis/array_size.py): which pairs of a comparison chain an
    unconditional `assert` relates.  The receiver is the recording probe `SeedProbe`: `_relate_sizes(a, b)` appends
    the pair it is handed to `log` instead of merging / pinning, and `_len_size(e)` answers with `e` itself (the
    identity is injective, so the log names exactly WHICH operand of the chain reached each side; what size an operand
    stands for is `_len_size`'s own business, not the chain walk's).  `_seed_from_assert` is the inherited, unmodified
    method.

(1) `_ValueClassInstance._fixpoint` (fpy2/analysis/value_class.py): see the second half of this file.
"""
from speclib import *
from fpy2.analysis.array_size import _ArraySizeInferInstance
from fpy2.analysis.value_class import _ValueClassInstance


# ----------------------------------------------------------------- (2) the recording probe for _seed_from_assert

class SeedProbe(_ArraySizeInferInstance):
    """records the pairs handed to `_relate_sizes`, in order; operands are named by themselves"""
    log: 'list[tuple[object, object]]'

    def _relate_sizes(self, a, b):
        self.log.append((a, b))

    def _len_size(self, e):
        return e


def chain_links(ops, args):
    """the reference: link i of the chain `a0 op1 a1 op2 a2 ...` relates ITS OWN neighbours (a_i, a_{i+1}), and only if
    it is `==`.  `ops`, `args` have concrete length here; an operator is a symbolic enum member (forks per link)."""
    want = []
    for i in range(len(ops)):
        if ops[i].name == 'EQ':
            want.append((args[i], args[i + 1]))
    return want


def log_is(log, want):
    """the log is `want`, entry by entry (object identity), nothing more and nothing less"""
    out = {'count': len(log) == len(want)}
    for i in range(len(want)):
        out['link_' + str(i) + '_lhs'] = same_obj(log[i][0], want[i][0]) if i < len(log) else False
        out['link_' + str(i) + '_rhs'] = same_obj(log[i][1], want[i][1]) if i < len(log) else False
    return out


# ----------------------------------------------------------------- (1) stand-ins for _ValueClassInstance._fixpoint
#
# `_fixpoint(stmt, run_body)` only JOINS (`|`) and COMPARES (`==`) classes and never looks inside one, so it is run over
# the one-atom lattice {False (bottom), True (the atom)}: `|` on bools is the join and `_TOP` is stored as True.  The
# 16-element ValueClass lattice is the 4-fold product of this one with pointwise join and equality.  The body walk is
# abstract: one call of `run_body` sets the class of every loop-carried (rhs) definition to an UNINTERPRETED function
# `c13y_body(i, <classes of all phis at the call>)` -- deterministic, and it reads nothing but the phi classes (what
# is defined before the loop does not change during the fixpoint) -- and remembers in `phi.before` what it saw.

class DefStub:
    """a definition; its class is kept in the object (`by_def[d]` is `d.cls`)"""
    cls: bool


class PhiStub(DefStub):
    """a loop phi: `lhs` the definition reaching the loop from before it, `rhs` the loop-carried one (the code's
    `def_use.defs[phi.lhs]` is the identity table here)"""
    lhs: DefStub
    rhs: DefStub
    before: bool          # ghost: the class this phi had when the body walk last started


class LoopStub:
    """the loop statement: stands for its row of phis"""
    row: 'tuple[PhiStub, ...]'


class PhiTable:
    def __getitem__(self, stmt):
        return stmt.row


class DefTable:
    def __getitem__(self, d):
        return d


class ClsTable:
    def __getitem__(self, d):
        return d.cls


class DUStub:
    phis: PhiTable
    defs: DefTable


def body_out(i, row):
    """class the abstract body walk computes for the loop-carried definition of phi i from the classes of ALL phis"""
    if len(row) == 1:
        return ghost_pred('c13y_body1', i, row[0].cls)
    if len(row) == 2:
        return ghost_pred('c13y_body2', i, row[0].cls, row[1].cls)
    return ghost_pred('c13y_body3', i, row[0].cls, row[1].cls, row[2].cls)


class BodyStub:
    """the `run_body` closure: it captures the loop statement (`loop` IS the `stmt` argument: contract `aliases`)"""
    loop: LoopStub
    calls: int

    def __call__(self):
        row = self.loop.row
        outs = [body_out(i, row) for i in range(len(row))]
        for i in range(len(row)):
            row[i].before = row[i].cls
        for i in range(len(row)):
            row[i].rhs.cls = outs[i]
        self.calls = self.calls + 1


class FixProbe(_ValueClassInstance):
    """`_fixpoint` is the inherited, unmodified method; classes live in the definition stubs"""
    du: DUStub
    by_def: ClsTable

    @property
    def def_use(self):              # the base class has a property of this name (type_info.def_use)
        return self.du

    def _set_def(self, d, cls):
        d.cls = cls if isinstance(cls, bool) else True        # `_TOP` of the one-atom lattice

    def _def_class(self, d):
        return d.cls


def fix_post(row, run_body, n):
    out = {}
    for i in range(n):
        p = row[i]
        # THE property: one more round changes nothing, for EVERY phi --
        #   the loop-carried class is what the body walk yields from the final phi classes ...
        out['fixed_point_' + str(i)] = p.rhs.cls == body_out(i, row)
        #   ... and the phi already covers both incoming edges (so the merge after that walk leaves it as it is)
        out['covers_' + str(i)] = implies(p.lhs.cls or p.rhs.cls, p.cls)
        # the last body walk started from the returned phi classes (no phi moved in the last round)
        out['unchanged_last_round_' + str(i)] = p.cls == p.before
        # a phi is exactly the join of its edges, unless the round budget ran out (then it is the top class)
        out['join_or_top_' + str(i)] = (p.cls == (p.lhs.cls or p.rhs.cls)) or (run_body.calls == 4 * n + 2 and p.cls)
    out['rounds'] = 1 <= run_body.calls and run_body.calls <= 4 * n + 2
    return out


def body2_monotone():
    """the body walk of a 2-phi loop is monotone in the phi classes (what the transfer functions of value_class.py are
    meant to be): a definitional assumption about the ghost `c13y_body2`, spelled out over the 4 x 4 pairs of states"""
    out = {}
    B = (False, True)
    for i in (0, 1):
        for a0 in B:
            for a1 in B:
                for b0 in B:
                    for b1 in B:
                        if (b0 or not a0) and (b1 or not a1):
                            out['mono_%d_%d%d_%d%d' % (i, a0, a1, b0, b1)] = implies(
                                ghost_pred('c13y_body2', i, a0, a1), ghost_pred('c13y_body2', i, b0, b1))
    return out


class AssertProbe(SeedProbe):
    """SeedProbe that does not descend into the test expression (`_visit_expr` only fills `by_expr`, which the
    identity `_len_size` of the probe does not read): `_visit_assert` is the inherited, unmodified method"""

    def _visit_expr(self, expr, ctx):
        return None
