"""
Spec for C13y (two analysis drivers of C13):

(2) `_ArraySizeInferInstance._seed_from_assert` (fpy2/analysis/array_size.py): which pairs of a comparison chain an
    unconditional `assert` relates.  The receiver is the recording probe `SeedProbe`: `_relate_sizes(a, b)` appends
    the pair it is handed to `log` instead of merging / pinning, and `_len_size(e)` answers with `e` itself (the
    identity is injective, so the log names exactly WHICH operand of the chain reached each side; what size an operand
    stands for is `_len_size`'s own business, not the chain walk's).  `_seed_from_assert` is the inherited, unmodified
    method.

(1) `_ValueClassInstance._fixpoint` (fpy2/analysis/value_class.py): see the second half of this file.
"""
from speclib import *
from fpy2.analysis.array_size import _ArraySizeInferInstance
from fpy2.analysis.value_class import _ValueClassInstance


# ----------------------------------------------------------------- (2) the recording probe for _seed_from_assert

class SeedProbe(_ArraySizeInferInstance):
    """records the pairs handed to `_relate_sizes`, in order; operands are named by themselves"""
    log: 'list[tuple[object, object]]'

    def _relate_sizes(self, a, b):
        self.log.append((a, b))

    def _len_size(self, e):
        return e


def chain_links(ops, args):
    """the reference: link i of the chain `a0 op1 a1 op2 a2 ...` relates ITS OWN neighbours (a_i, a_{i+1}), and only if
    it is `==`.  `ops`, `args` have concrete length here; an operator is a symbolic enum member (forks per link)."""
    want = []
    for i in range(len(ops)):
        if ops[i].name == 'EQ':
            want.append((args[i], args[i + 1]))
    return want


def log_is(log, want):
    """the log is `want`, entry by entry (object identity), nothing more and nothing less"""
    out = {'count': len(log) == len(want)}
    for i in range(len(want)):
        out['link_' + str(i) + '_lhs'] = same_obj(log[i][0], want[i][0]) if i < len(log) else False
        out['link_' + str(i) + '_rhs'] = same_obj(log[i][1], want[i][1]) if i < len(log) else False
    return out
