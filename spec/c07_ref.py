"""
NATIVE side of the C07 specification (only imported by replay.py, never interpreted by pyvc):

  * the ghosts of spec/c07.py read off the real analyses (reaching definitions are the ABSTRACT
    interface the contracts are stated over, so `reach_use` / `reach_site` are ReachingDefs.reach);
  * candidate programs: a counterexample of a C07 contract is an abstract def-use structure; replay
    searches this small family of real FPy programs for one that realises the violation
    (same idea as replay.candidate_contexts for an abstract rounding context);
  * `demo_*`: run the original and the transformed program on sample inputs (the whole-program
    statement of C07, shown for the record in the replay verdict).
"""
from fractions import Fraction

import fpy2 as fp
from fpy2.analysis import DefineUse
from fpy2.ast import fpyast as A
from fpy2.utils import NamedId

from spec.c07 import FuncDefM


# ------------------------------------------------------------------ programs

def _src_copy_redef(y: fp.Real):
    x = y
    y = y + 1
    return x


def _src_copy_ok(y: fp.Real):
    x = y
    z = x + y
    return z


def _src_copy_branch(y: fp.Real, c: bool):
    x = y
    if c:
        y = y * 2
    return x + y


def _src_copy_loop(y: fp.Real):
    x = y
    for i in range(3):
        y = y + x
    return y


def _src_dead_phi(a: fp.Real, c: bool):
    x = a
    y = x + 1
    if c:
        x = 2
    return y


def _src_dead_plain(a: fp.Real):
    x = a + 1
    y = a * 2
    return y


def _src_dead_impure(a: fp.Real, xs: list[fp.Real]):
    t = xs[3]
    return a


def as_model(fn):
    """the FuncDef of an @fpy function as the stand-in subclass, with the ghost field def_use attached"""
    a = fp.fpy(fn).ast
    m = FuncDefM(a.name, a.args, a.body, a.meta, loc=a.loc)
    m.def_use = DefineUse.analyze(m)
    return m


COPY_PROGRAMS = [_src_copy_redef, _src_copy_ok, _src_copy_branch, _src_copy_loop]
DEAD_PROGRAMS = [_src_dead_phi, _src_dead_plain, _src_dead_impure]


def copyprop_candidates(doc):
    out = []
    for fn in COPY_PROGRAMS:
        out.append({'func': as_model(fn), 'names': None})
    m = as_model(_src_copy_redef)
    out.append({'func': m, 'names': {NamedId('x')}})
    return out


def deadcode_candidates(doc):
    from fpy2.transform.dead_code import _DeadCodeEliminate
    out = []
    for fn in DEAD_PROGRAMS:
        m = as_model(fn)
        out.append({'self': _DeadCodeEliminate(m, m.def_use)})
    return out


def stub_analyze(orig):
    """native realisation of the trusted contract DefineUse_analyze: the ghost field IS the analysis"""
    def analyze(ast):
        du = getattr(ast, 'def_use', None)
        return du if du is not None else orig(ast)
    return analyze


# -------------------------------------------------------------------- ghosts

def _children(node):
    slots = []
    for c in type(node).__mro__:
        slots += list(getattr(c, '__slots__', ()))
    vals = [getattr(node, s, None) for s in slots] + list(getattr(node, '__dict__', {}).values())
    for v in vals:
        if isinstance(v, (list, tuple)):
            for x in v:
                yield x
        else:
            yield v


def _contains_expr(e, u):
    if e is u:
        return True
    if not isinstance(e, A.Expr):
        return False
    return any(_contains_expr(c, u) for c in _children(e))


def _stmts(block):
    for s in block.stmts:
        yield s
        for c in _children(s):
            if isinstance(c, A.StmtBlock):
                yield from _stmts(c)


def stmt_of_use(f, u):
    """the statement whose own expressions contain the use site u"""
    if isinstance(u, A.Stmt):
        return u
    for s in _stmts(f.body):
        if any(_contains_expr(c, u) for c in _children(s)):
            return s
    return None


def _idx(du, ctx, y):
    d = ctx.get(y) if ctx is not None else None
    return du.def_to_idx[d] if d is not None else -1


def reach_use(du, u, y):
    if u is None or y is None or du is None:
        return -1
    f = CURRENT['func']
    s = stmt_of_use(f, u)
    if s is None:
        return -2
    if isinstance(s, A.WhileStmt) and _contains_expr(s.cond, u):
        return _idx(du, du.in_defs.get(s.body), y)     # the condition is re-evaluated under the loop-header phis
    return _idx(du, du.reach.get(s), y)


def reach_site(du, s, y):
    if s is None or y is None or du is None or not isinstance(s, A.Stmt):
        return -1
    return _idx(du, du.reach.get(s), y)


CURRENT = {'du': None, 'func': None}


def pure_expr(e):
    from fpy2.analysis import Purity
    if e is None or not isinstance(e, A.Expr):
        return False
    return Purity.analyze_expr(e, CURRENT['du'])


GHOSTS = {
    'reach_use': reach_use,
    'reach_site': reach_site,
    'pure_expr': pure_expr,
}


def key_universe(args):
    """every definition and every use site of the candidate program (range of forall_keys)"""
    out = []
    f = args.get('func')
    du = getattr(f, 'def_use', None)
    if du is None:
        du = getattr(args.get('self'), 'def_use', None)
    CURRENT['du'] = du
    CURRENT['func'] = f if f is not None else getattr(args.get('self'), 'func', None)
    if du is not None:
        out += list(du.defs)
        for us in du.uses.values():
            out += list(us)
        for s in list(du.reach):
            out.append(s)
    return out


# --------------------------------------------------------------------- demos

SAMPLES = {'y': [1.0, -0.0, 2.5], 'a': [1.0, -0.0], 'c': [False, True], 'xs': [[1.0, 2.0]]}


def _run(ast, vals):
    from fpy2.function import Function
    try:
        return ('value', str(Function(ast)(*vals)))
    except Exception as e:
        return ('raise', type(e).__name__)


def demo(args, result):
    """original vs transformed program on sample inputs (whole-program C07, for the record)"""
    import itertools
    f = args.get('func') or getattr(args.get('self'), 'func', None)
    g = result[0] if isinstance(result, tuple) else result
    if not isinstance(f, A.FuncDef) or not isinstance(g, A.FuncDef):
        return None
    plain = A.FuncDef(f.name, f.args, f.body, f.meta, loc=f.loc)
    rows = []
    names = [str(a.name) for a in f.args]
    for vals in itertools.product(*[SAMPLES.get(n, [1.0]) for n in names]):
        r1, r2 = _run(plain, vals), _run(g, vals)
        if r1 != r2:
            rows.append({'inputs': dict(zip(names, map(repr, vals))), 'original': r1, 'transformed': r2})
    return {'transformed': g.format(), 'differences': rows}
