"""
Spec functions for the C02 extension (contracts/c02x_*.py): round-to-integer family, python modulus, fdim,
exact-rational engine paths, ops._normalize flag rules and the ops wrappers.
"""
from speclib import *
from spec.real import *
from spec.floats import *
from spec.c02 import *
from fpy2.number.context.context import Context


# ---------------------------------------------------------------------------
# rounding a rational number to an integer

def q_abs_num(x):
    """|numerator| of a rational"""
    return ite(frac_num(x) < 0, -frac_num(x), frac_num(x))


def rint_q(x, rm):
    """
    TEXTBOOK definition.  x = n/d rational, |n| = q*d + rho with 0 <= rho < d: the neighbours of |x| among the
    integers are q and q+1, and `incr` (spec.real: the definition of the rounding modes on a grid of spacing d in
    units of 1/d) picks one.  Returns (integer magnitude, inexact).
    """
    N = q_abs_num(x)
    d = frac_den(x)
    q = fdiv(N, d)
    rho = fmod(N, d)
    return (q + b2i(incr(rm, x < 0, q, rho, d)), rho != 0)


def half_dig(x):
    """floor(2*|x|): the integer part of |x| followed by its first fractional digit"""
    return fdiv(2 * q_abs_num(x), frac_den(x))


def half_stk(x):
    """2*|x| is not an integer: some digit of x below the first fractional one is nonzero"""
    return fmod(2 * q_abs_num(x), frac_den(x)) != 0


def rint_fine(x, rm):
    """
    x rounded to an integer through its fine representation at scale -1 (spec.c02 item 3): the integer
    w = 2*floor(2|x|) + sticky at exponent -2 rounds at position n = -1 (grid spacing 4 units) exactly as x does:
    remainder 0 = exact, 1 = below half, 2 = half, 3 = above half.  Returns (exp, c, inexact, carry) as rnd_at.
    """
    return rnd_grid(x < 0, fine_c(half_dig(x), half_stk(x)), 4, None, -1, rm)


def qvid_id(fid, x):
    """identity of the exact value sem(fid)(x) for a rational operand x"""
    return app_id(fid, (x,))


def rint_clauses(x, rm, r):
    """postcondition of rounding the engine argument x to an integer in mode rm (result r: a Float under REAL)"""
    out = {
        'float': cls_name(r) == 'Float',
    }
    if cls_name(x) == 'Float':
        fin = fl_finite(x)
        R = rnd_at(x._real, None, -1, rm)
        out.update({
            # IEEE 754 5.9: roundToIntegral of NaN is NaN, of an infinity that infinity, zeros keep their sign
            'nan': implies(x._isnan, r._isnan and not r._isinf),
            'inf': implies(x._isinf, r._isinf and not r._isnan and r._real._s == x._real._s),
            'finite': implies(fin, fl_finite(r)),
            'sign': implies(fin, r._real._s == x._real._s),
            # the operand rounded at position -1 (spec.real.rnd_at, the C01 definition)
            'exp': implies(fin, r._real._exp == R[0]),
            'c': implies(fin, r._real._c == R[1]),
            'integer': implies(fin, r._real._exp >= 0),
            'inexact_iff_changed': implies(fin, r._real._flags.inexact == R[2]),
            'unchanged_if_integer': implies(fin and x._real._exp >= 0,
                                            r._real._exp == x._real._exp and r._real._c == x._real._c),
        })
        return out
    # Fraction operand
    T = rint_q(x, rm)
    out.update({
        'finite': fl_finite(r),
        # IEEE 754 5.9 / 6.3: the sign of the operand is kept, also when the result is zero
        'sign': r._real._s == (x < 0),
        # the integer nearest to x in the sense of rm (textbook definition on the grid of the denominator)
        'exp': r._real._exp == 0 or (x == 0 and r._real._c == 0),
        'c': r._real._c == T[0],
        'inexact_iff_changed': r._real._flags.inexact == T[1],
    })
    return out


def floor_int3(s, exp, c):
    """floor((-1)^s * c * 2^exp) as an integer"""
    return ((ite(s, -c, c) * pow2(exp)) if exp >= 0 else
            ite(s, -(fdiv(c, pow2(-exp)) + b2i(fmod(c, pow2(-exp)) != 0)), fdiv(c, pow2(-exp))))


def iabs(v):
    return ite(v >= 0, v, -v)


def floor_mag_rto(D, S, E, neg):
    """
    |floor(v)| for v = (-1)^neg * rto_c(D, S) * 2^E with E < 0: the integer part of |v|, plus one when v is
    negative and not an integer (RealFloat.__floor__: fixed-point rounding at n = -1 toward minus infinity)
    """
    c1 = rto_c(D, S)
    return fdiv(c1, pow2(-E)) + b2i(neg and fmod(c1, pow2(-E)) != 0)


# ---------------------------------------------------------------------------
# an arbitrary rounding context (other than the REAL singleton) and the abstract result of its `round`

class AbsContext(Context):
    """stand-in for an arbitrary concrete rounding context: `round` is the trusted interface contract AbsContext_round"""


def rnd_b(name, ctx, x):
    """boolean attribute `name` of ctx.round(x): an uninterpreted function of the context and the operand's fields"""
    if cls_name(x) == 'Float':
        return ghost('rnd_f_' + name, obj_id(ctx), b2i(x._isnan), b2i(x._isinf), b2i(x._real._s), x._real._exp, x._real._c,
                     x._real._flags._flags) != 0
    return ghost('rnd_q_' + name, obj_id(ctx), x) != 0


def rnd_i(name, ctx, x):
    """integer attribute `name` of ctx.round(x)"""
    if cls_name(x) == 'Float':
        return ghost('rnd_f_' + name, obj_id(ctx), b2i(x._isnan), b2i(x._isinf), b2i(x._real._s), x._real._exp, x._real._c,
                     x._real._flags._flags)
    return ghost('rnd_q_' + name, obj_id(ctx), x)


def rounded_as(ctx, x, r):
    """r has the class, sign and digits of ctx.round(x)"""
    return (r._isnan == rnd_b('nan', ctx, x) and r._isinf == rnd_b('inf', ctx, x) and r._real._s == rnd_b('s', ctx, x)
            and r._real._exp == rnd_i('exp', ctx, x) and r._real._c == rnd_i('c', ctx, x))


def op_is_nan(a):
    return cls_name(a) == 'Float' and a._isnan


def op_is_nar(a):
    return cls_name(a) == 'Float' and (a._isnan or a._isinf)


def any_nan(args):
    n = len(args)
    return ((op_is_nan(args[0]) if n > 0 else False) or (op_is_nan(args[1]) if n > 1 else False)
            or (op_is_nan(args[2]) if n > 2 else False))


def any_nar(args):
    n = len(args)
    return ((op_is_nar(args[0]) if n > 0 else False) or (op_is_nar(args[1]) if n > 1 else False)
            or (op_is_nar(args[2]) if n > 2 else False))


# ---------------------------------------------------------------------------
# external models

def math_floor_model(v):
    """math.floor(v) for a non-float object is type(v).__floor__(v) (Python data model)"""
    return v.__floor__()


EXTERNAL_MODELS = {
    'math.floor': 'math_floor_model',
}
