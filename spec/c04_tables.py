"""
C04 / P1: REFERENCE operator tables, written from the language reference, not from the code:

  * docs/source/ops.rst ("Builtin functions are re-exported from the fpy2 module", automodule fpy2.ops): every public
    function `fp.<f>` of fpy2.ops used inside an FPy function denotes the operation of the same name;
  * docs/source/dev/ast.rst / derived-semantics.rst: the FPy AST node of each operation (class `X` for `ops.x`);
  * Python operator syntax: `+ - * / % **` and the six comparisons.

Chain:  surface syntax (Python callable or `ast` operator)  ->  FPy AST node class  ->  runtime function.
Names are canonical dotted names: `ops.<f>` = fpy2.ops.<f>, `builtins.<f>`, `ast.<Op>` = Python's ast module,
bare `X` = class fpy2.ast.fpyast.X, `byte.<f>` = helper in fpy2/interpret/byte.py.
"""

# ---------------------------------------------------------------- surface syntax -> node class (fpy2/frontend/parser.py)

_NULLARY = {
    'ops.nan': 'ConstNan', 'ops.inf': 'ConstInf', 'ops.const_pi': 'ConstPi', 'ops.const_e': 'ConstE',
    'ops.const_log2e': 'ConstLog2E', 'ops.const_log10e': 'ConstLog10E', 'ops.const_ln2': 'ConstLn2',
    'ops.const_pi_2': 'ConstPi_2', 'ops.const_pi_4': 'ConstPi_4', 'ops.const_1_pi': 'Const1_Pi',
    'ops.const_2_pi': 'Const2_Pi', 'ops.const_2_sqrt_pi': 'Const2_SqrtPi', 'ops.const_sqrt2': 'ConstSqrt2',
    'ops.const_sqrt1_2': 'ConstSqrt1_2',
}

_UNARY = {
    # Python's abs() and fp.fabs are the same operation
    'builtins.abs': 'Abs', 'ops.fabs': 'Abs',
    'ops.neg': 'Neg',
    'ops.sqrt': 'Sqrt', 'ops.cbrt': 'Cbrt',
    'ops.ceil': 'Ceil', 'ops.floor': 'Floor', 'ops.nearbyint': 'NearbyInt', 'ops.roundint': 'RoundInt', 'ops.trunc': 'Trunc',
    'ops.acos': 'Acos', 'ops.asin': 'Asin', 'ops.atan': 'Atan', 'ops.cos': 'Cos', 'ops.sin': 'Sin', 'ops.tan': 'Tan',
    'ops.acosh': 'Acosh', 'ops.asinh': 'Asinh', 'ops.atanh': 'Atanh', 'ops.cosh': 'Cosh', 'ops.sinh': 'Sinh', 'ops.tanh': 'Tanh',
    'ops.exp': 'Exp', 'ops.exp2': 'Exp2', 'ops.expm1': 'Expm1',
    'ops.log': 'Log', 'ops.log10': 'Log10', 'ops.log1p': 'Log1p', 'ops.log2': 'Log2',
    'ops.erf': 'Erf', 'ops.erfc': 'Erfc', 'ops.lgamma': 'Lgamma', 'ops.tgamma': 'Tgamma',
    'ops.isfinite': 'IsFinite', 'ops.isinf': 'IsInf', 'ops.isnan': 'IsNan', 'ops.isnormal': 'IsNormal', 'ops.signbit': 'Signbit',
    'ops.round': 'Round', 'ops.round_exact': 'Cast', 'ops.cast': 'Cast',
    'ops.logb': 'Logb',
    # structured
    'builtins.len': 'Len', 'ops.dim': 'Dim', 'ops.fst': 'Fst', 'ops.snd': 'Snd',
    'builtins.enumerate': 'Enumerate', 'builtins.sum': 'Sum', 'builtins.any': 'AnyOf', 'builtins.all': 'AllOf',
}

_BINARY = {
    'ops.add': 'Add', 'ops.sub': 'Sub', 'ops.mul': 'Mul', 'ops.div': 'Div',
    'ops.copysign': 'Copysign', 'ops.fdim': 'Fdim', 'ops.mod': 'Mod', 'ops.fmod': 'Fmod', 'ops.remainder': 'Remainder',
    'ops.hypot': 'Hypot', 'ops.atan2': 'Atan2', 'ops.pow': 'Pow', 'ops.round_at': 'RoundAt',
    'ops.size': 'Size',
}

_TERNARY = {'ops.fma': 'Fma'}

_NARY = {
    'builtins.zip': 'Zip', 'builtins.max': 'Max', 'builtins.min': 'Min', 'ops.fmin': 'Min', 'ops.fmax': 'Max',
    'ops.empty': 'Empty',
}

_BINOP = {'ast.Add': 'Add', 'ast.Sub': 'Sub', 'ast.Mult': 'Mul', 'ast.Div': 'Div', 'ast.Mod': 'Mod', 'ast.Pow': 'Pow'}

_CMPOP = {'ast.Lt': 'CompareOp.LT', 'ast.LtE': 'CompareOp.LE', 'ast.Gt': 'CompareOp.GT', 'ast.GtE': 'CompareOp.GE',
          'ast.Eq': 'CompareOp.EQ', 'ast.NotEq': 'CompareOp.NE'}

PARSER = {'_nullary_table': _NULLARY, '_unary_table': _UNARY, '_binary_table': _BINARY, '_ternary_table': _TERNARY,
          '_nary_table': _NARY, '_binop_table': _BINOP, '_cmpop_table': _CMPOP}

# ---------------------------------------------------------------- node class -> runtime function (fpy2/interpret/byte.py)
# every rounded operation `X` is fpy2.ops.<x>; the node of a surface function is the function itself
# (the two spellings of one node, abs/fabs and round_exact/cast, share the canonical one)

_CANON = {'Abs': 'ops.fabs', 'Cast': 'ops.cast'}


def _invert(table, skip=()):
    out = {}
    for fn, cls in table.items():
        if cls in skip or not fn.startswith('ops.'):
            continue
        out[cls] = _CANON.get(cls, fn)
    return out


B_NULLARY = _invert(_NULLARY)
B_UNARY = _invert(_UNARY)
B_UNARY.update({'Enumerate': 'byte._eval_enumerate', 'Sum': 'byte._eval_sum'})      # list helpers of the runtime
B_BINARY = _invert(_BINARY)
B_TERNARY = _invert(_TERNARY)
B_NARY = {'Empty': 'ops.empty'}          # Min / Max / Zip / And / Or are not rounded: emitted as helpers, not table entries

BYTE = {'_NULLARY_TABLE': B_NULLARY, '_UNARY_TABLE': B_UNARY, '_BINARY_TABLE': B_BINARY, '_TERNARY_TABLE': B_TERNARY,
        '_NARY_TABLE': B_NARY}

# special symbols of the generated code (byte.make_namespace)
NAMESPACE_HELPERS = {
    '__fpy_call': 'byte._eval_call', '__fpy_fraction': 'fractions.Fraction', '__fpy_negzero': 'byte._neg_zero',
    '__fpy_index': 'byte._cvt_index', '__fpy_list_set': 'byte._eval_list_set', '__fpy_list_slice': 'byte._eval_list_slice',
    '__fpy_range': 'byte._eval_range', '__fpy_min': 'byte._eval_min', '__fpy_max': 'byte._eval_max',
    '__fpy_len': 'byte._eval_len', '__fpy_any': 'byte._eval_any', '__fpy_all': 'byte._eval_all', '__fpy_eq': 'byte._eval_eq',
    '__fpy_attribute': 'byte._eval_attribute', '__fpy_ordered': 'byte._eval_ordered', '__fpy_real': 'number.REAL',
}
