"""
Spec functions for RealFloat: x = (s, exp, c), c >= 0, denotes (-1)^s * c * 2^exp.

Everything is stated by exponent alignment over integers (never 2**exp as a
real), so verification conditions stay in integer arithmetic.
"""
from speclib import *


@invariant('fpy2.number.number.reals:RealFloat')
def inv_RealFloat(x):
    return x._c >= 0


@invariant('fpy2.number.number.flags:Flags')
def inv_Flags(f):
    return 0 <= f._flags and f._flags < 128


def e_of(x):
    """normalized exponent: exp + bit_length(c) - 1 (exp - 1 for zero)"""
    return x._exp + bl(x._c) - 1


# ---------------------------------------------------------------------------
# rounding modes: names are used so the spec is independent of enum order

def rm_name(rm):
    return rm.name


def is_nearest(rm):
    return rm.name == 'RNE' or rm.name == 'RNA'


def away(rm, s, q):
    """Directed / parity modes: does an inexact value with truncated significand q round away from zero?"""
    nm = rm.name
    return ite(nm == 'RTZ', False,
           ite(nm == 'RAZ', True,
           ite(nm == 'RTP', not s,
           ite(nm == 'RTN', s,
           ite(nm == 'RTO', fmod(q, 2) == 0,
           ite(nm == 'RTE', fmod(q, 2) == 1,
               False))))))


def incr(rm, s, q, rho, P):
    """
    Rounding to the grid with spacing P (in units of the operand's lsb):
    |x| = q*P + rho, 0 <= rho < P.  Returns whether the result is (q+1)*P
    rather than q*P.  This is the definition of the eight rounding modes.
    """
    nm = rm.name
    return ite(rho == 0, False,
           ite(nm == 'RNE', 2 * rho > P or (2 * rho == P and fmod(q, 2) == 1),
           ite(nm == 'RNA', 2 * rho >= P,
               away(rm, s, q))))


def b2i(b):
    return ite(b, 1, 0)


# ---------------------------------------------------------------------------
# dyadic comparisons by alignment

def dy_eq(x, y):
    """value equality of two (s, exp, c) triples, zero signs ignored"""
    return ite(x._c == 0 or y._c == 0, x._c == 0 and y._c == 0,
               x._s == y._s and
               ite(x._exp >= y._exp,
                   x._c * pow2(x._exp - y._exp) == y._c,
                   y._c * pow2(y._exp - x._exp) == x._c))


# ---------------------------------------------------------------------------
# the rounding spec (DESIGN §5 C01 "core contract", floor/remainder form)

def flag(x, name):
    """flag bit of a RealFloat by name (independent of the bit layout in flags.py)"""
    return ite(name == 'invalid', x._flags.invalid,
           ite(name == 'divzero', x._flags.divzero,
           ite(name == 'overflow', x._flags.overflow,
           ite(name == 'tiny_pre', x._flags.tiny_pre,
           ite(name == 'tiny_post', x._flags.tiny_post,
           ite(name == 'inexact', x._flags.inexact,
               x._flags.carry))))))


def round_nstar(x, max_p, min_n):
    """the rounding position n* of RealFloat.round: no digit at or below n* survives"""
    if max_p is None:
        return min_n
    if min_n is None:
        return e_of(x) - max_p
    return ite(min_n >= e_of(x) - max_p, min_n, e_of(x) - max_p)


def rnd_at(x, p, n, rm):
    """
    Correct rounding of x = (s, exp, c) at absolute position n (no digit at or
    below n survives), then renormalisation to at most p digits if p is given.
    Returns (r_exp, r_c, inexact, carry).

    With sh = n+1-exp > 0, P = 2^sh: |x| = (q*P + rho) * 2^exp, so the two
    neighbours on the grid 2^(n+1) Z are q and q+1 (in units of 2^(n+1)) and
    `incr` picks one by the definition of the rounding mode.
    """
    c = x._c
    exp = x._exp
    sh = n + 1 - exp
    return ((exp, c, False, False) if sh <= 0 else _rnd_grid(x._s, c, pow2(sh), p, n, rm))


def _rnd_grid(s, c, P, p, n, rm):
    q = fdiv(c, P)
    rho = fmod(c, P)
    m = q + b2i(incr(rm, s, q, rho, P))
    carry = rho != 0 and p is not None and bl(m) > p
    return (ite(carry, n + 2, n + 1), ite(carry, fdiv(m, 2), m), rho != 0, carry)


def tiny_pre_spec(x, emin):
    return emin is not None and (x._c == 0 or e_of(x) < emin)


def tiny_post_spec(x, n, emin, rm):
    """
    Tininess after rounding (IEEE 754 §7.5): the result of rounding x as though
    the exponent range were unbounded, at the format's precision pf = emin - n,
    is below 2^emin in magnitude.  For e(x) < emin that rounding stays below
    2^emin unless it carries into the binade of 2^emin.
    """
    if emin is None:
        return False
    pf = emin - n
    e = e_of(x)
    R = rnd_at(x, pf, e - pf, rm)
    return tiny_pre_spec(x, emin) and (x._c == 0 or not (e == emin - 1 and R[3]))


# ---------------------------------------------------------------------------
# stochastic rounding (C17)

def on_grid(x, n):
    """x has no nonzero digit at or below position n"""
    sh = n + 1 - x._exp
    return True if sh <= 0 else fmod(x._c, pow2(sh)) == 0


def sr_L(x, n, k, rm):
    """
    For x not on the grid at n: the numerator L of the round-away probability
    L / 2^k, i.e. the distance of x past its lower neighbour in units of 2^-k of
    the gap, rounded to an integer as mode rm says (rounding x at position n-k).
    """
    c = x._c
    sh = n + 1 - x._exp
    q = fdiv(c, pow2(sh))
    sh2 = sh - k
    return ((fmod(c, pow2(sh)) * pow2(k - sh)) if sh2 <= 0 else
            (fdiv(c, pow2(sh2)) + b2i(incr(rm, x._s, fdiv(c, pow2(sh2)), fmod(c, pow2(sh2)), pow2(sh2)))
             - q * pow2(k)))


def sr_away(x, n, k, rm, r):
    """does draw r in [0, 2^k) round x (not on the grid) away from zero?"""
    return r + sr_L(x, n, k, rm) >= pow2(k)


# ---------------------------------------------------------------------------
# order of dyadic values (by alignment at the smaller exponent)

def mag_lt(x, y):
    """|x| < |y| by alignment at the smaller exponent"""
    e0 = ite(x._exp <= y._exp, x._exp, y._exp)
    return x._c * pow2(x._exp - e0) < y._c * pow2(y._exp - e0)


def mag_eq(x, y):
    e0 = ite(x._exp <= y._exp, x._exp, y._exp)
    return x._c * pow2(x._exp - e0) == y._c * pow2(y._exp - e0)


def dy_lt(x, y):
    """x < y as real numbers (the two zeros are equal)"""
    return ite(x._s == y._s,
               ite(x._s, mag_lt(y, x), mag_lt(x, y)),
               ite(x._s, x._c > 0 or y._c > 0, False))


def dy_eqv(x, y):
    """x == y as real numbers (the two zeros are equal)"""
    return ite(x._s == y._s, mag_eq(x, y), x._c == 0 and y._c == 0)
