"""
Spec functions for RealFloat: x = (s, exp, c), c >= 0, denotes (-1)^s * c * 2^exp.

Everything is stated by exponent alignment over integers (never 2**exp as a
real), so verification conditions stay in integer arithmetic.
"""
from speclib import *


@invariant('fpy2.number.number.reals:RealFloat')
def inv_RealFloat(x):
    return x._c >= 0


@invariant('fpy2.number.number.flags:Flags')
def inv_Flags(f):
    return 0 <= f._flags and f._flags < 128


def e_of(x):
    """normalized exponent: exp + bit_length(c) - 1 (exp - 1 for zero)"""
    return x._exp + bl(x._c) - 1


# ---------------------------------------------------------------------------
# rounding modes: names are used so the spec is independent of enum order

def rm_name(rm):
    return rm.name


def is_nearest(rm):
    return rm.name == 'RNE' or rm.name == 'RNA'


def away(rm, s, q):
    """Directed / parity modes: does an inexact value with truncated significand q round away from zero?"""
    nm = rm.name
    return ite(nm == 'RTZ', False,
           ite(nm == 'RAZ', True,
           ite(nm == 'RTP', not s,
           ite(nm == 'RTN', s,
           ite(nm == 'RTO', fmod(q, 2) == 0,
           ite(nm == 'RTE', fmod(q, 2) == 1,
               False))))))


def incr(rm, s, q, rho, P):
    """
    Rounding to the grid with spacing P (in units of the operand's lsb):
    |x| = q*P + rho, 0 <= rho < P.  Returns whether the result is (q+1)*P
    rather than q*P.  This is the definition of the eight rounding modes.
    """
    nm = rm.name
    return ite(rho == 0, False,
           ite(nm == 'RNE', 2 * rho > P or (2 * rho == P and fmod(q, 2) == 1),
           ite(nm == 'RNA', 2 * rho >= P,
               away(rm, s, q))))


def b2i(b):
    return ite(b, 1, 0)


# ---------------------------------------------------------------------------
# dyadic comparisons by alignment

def dy_eq(x, y):
    """value equality of two (s, exp, c) triples, zero signs ignored"""
    return ite(x._c == 0 or y._c == 0, x._c == 0 and y._c == 0,
               x._s == y._s and
               ite(x._exp >= y._exp,
                   x._c * pow2(x._exp - y._exp) == y._c,
                   y._c * pow2(y._exp - x._exp) == x._c))


# ---------------------------------------------------------------------------
# the rounding spec (DESIGN §5 C01 "core contract", floor/remainder form)

def flag(x, name):
    """flag bit of a RealFloat by name (independent of the bit layout in flags.py)"""
    return ite(name == 'invalid', x._flags.invalid,
           ite(name == 'divzero', x._flags.divzero,
           ite(name == 'overflow', x._flags.overflow,
           ite(name == 'tiny_pre', x._flags.tiny_pre,
           ite(name == 'tiny_post', x._flags.tiny_post,
           ite(name == 'inexact', x._flags.inexact,
               x._flags.carry))))))


def round_nstar(x, max_p, min_n):
    """the rounding position n* of RealFloat.round: no digit at or below n* survives"""
    if max_p is None:
        return min_n
    if min_n is None:
        return e_of(x) - max_p
    return ite(min_n >= e_of(x) - max_p, min_n, e_of(x) - max_p)
