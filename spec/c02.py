"""
Spec functions and models for C02 / C03 (arithmetic and elementary functions
round the exact result exactly once).

Three layers:

1. A *model of gmpy2 values* (`MPFR`, `GmpContext`, `GmpFn`): plain classes whose
   methods mirror the gmpy2 methods the repository calls (`is_nan`, `as_mantissa_exp`,
   `rc`, ...).  pyvc executes the repository code against these model objects.  The one
   place where MPFR *computes* something is the model function `gmp_eval`, which carries
   the TRUSTED MPFR contract (contracts/c02_mpfr.py: GmpEval): under precision P and
   round-toward-zero a primitive returns RTZ_P of the exact real result together with a
   ternary value that is nonzero iff the result is inexact.

2. The *exact real result* y of a primitive is never computed.  It is described by
   uninterpreted ("ghost") functions of an identity `y`:
       y_nan, y_inf, y_zero, y_neg      special-value class and sign
       y_e(y)                           normalized exponent: 2^e <= |y| < 2^(e+1)
       y_dig(y, k) = floor(|y| / 2^k)   the digits of |y| above position k
       y_stk(y, k) = |y| mod 2^k != 0   the sticky bit below position k
   The proofs never need their values.

3. *Rounding a real number*: for a real y and a scale k no higher than the rounding
   position, the integer `2*y_dig(y,k) + y_stk(y,k)` at exponent k-1 rounds (at every
   position n >= k, under every mode) exactly as y does: grid spacing is at least 2 units
   of 2^k, so replacing the tail t in (0,1) by 1/2 changes no comparison (`fine_repr`).
   Round-to-odd at P digits is `rto_c(y_dig(y,E), y_stk(y,E))` at exponent E.  Lemma L5
   (contracts/c02_mpfr.py) proves that re-rounding it at any position that drops at
   least two of its digits equals rounding `fine_repr`.
"""
from speclib import *
from spec.real import *
from spec.floats import *


# ---------------------------------------------------------------------------
# model of gmpy2 values

class MPFR:
    """a gmpy2.mpfr: NaN | +-inf | +-0 | +-m * 2^e with m of exactly `_prec` bits; `rc` is the ternary value"""
    _nan: bool
    _inf: bool
    _s: bool
    _m: int
    _e: int
    _prec: int
    rc: int
    _vid: int      # ghost: identity of the value (equal ids => equal values); only used to name real results

    def is_nan(self):
        return self._nan

    def is_infinite(self):
        return self._inf

    def is_zero(self):
        return (not self._nan) and (not self._inf) and self._m == 0

    def is_signed(self):
        return self._s

    def as_mantissa_exp(self):
        return ((-self._m) if self._s else self._m, self._e)

    @property
    def precision(self):
        return self._prec

    # operators of gmpy2.mpfr evaluate in the ambient context like the named primitives
    def __neg__(self):
        return gmp_apply(FID['neg'], (self,))

    def __abs__(self):
        return gmp_apply(FID['abs'], (self,))

    def __pow__(self, other):
        return gmp_apply(FID['gmpy2.pow'], (self, other))


@invariant('spec.c02:MPFR')
def inv_MPFR(x):
    return (x._m >= 0 and x._prec >= 1 and not (x._nan and x._inf)
            and (x._nan or x._inf or x._m == 0 or bl(x._m) == x._prec))


class GmpContext:
    """a gmpy2 context used as `with gmp.context(...)`: only precision and rounding mode matter"""
    __ambient__ = True
    precision: int
    rtz: bool

    def __init__(self, precision, rtz):
        self.precision = precision
        self.rtz = rtz


class GmpFn:
    """an arbitrary MPFR primitive (callable), identified by `_id`; calling it evaluates in the ambient context"""
    _id: int

    def __call__(self, *args):
        return gmp_apply(self._id, args)


def gmp_apply(fid, args):
    ctx = ambient()
    # outside any `with gmp.context(...)` gmpy2 uses its default context: 53 digits, round to nearest
    prec = 53 if ctx is None else ctx.precision
    rtz = False if ctx is None else ctx.rtz
    return gmp_eval(fid, args, prec, rtz)


def gmp_eval(fid, args, prec, rtz):
    """MPFR evaluates primitive `fid` on `args` at precision `prec`; behaviour = trusted contract GmpEval"""
    raise NotImplementedError('model function: only its contract is used')


def gmp_context(precision=53, emin=None, emax=None, trap_underflow=False, trap_overflow=False,
                trap_inexact=False, trap_divzero=False, round=None):
    return GmpContext(precision, callable_name(round) == 'gmpy2.RoundToZero')


def gmp_get_exp(x):
    # MPFR exponent convention: 1/2 <= |x| / 2^exp < 1
    return x._e + x._prec


def gmp_get_emin_min():
    return -4611686018427387903


def gmp_get_emax_max():
    return 4611686018427387903


EXTERNAL_MODELS = {
    'gmpy2.context': 'gmp_context',
    'gmpy2.get_exp': 'gmp_get_exp',
    'gmpy2.get_emin_min': 'gmp_get_emin_min',
    'gmpy2.get_emax_max': 'gmp_get_emax_max',
}

# identities of the primitives (the op -> primitive table of E2 refers to these names)
FID = {
    'neg': 1, 'abs': 2, 'gmpy2.pow': 3, 'gmpy2.lgamma': 4,
    'fpy2.number.engine.gmp:_gmp_neg': 1, 'fpy2.number.engine.gmp:_gmp_abs': 2,
    'fpy2.number.engine.gmp:_gmp_pow': 3, 'fpy2.number.engine.gmp:_gmp_lgamma': 4,
    'gmpy2.add': 10, 'gmpy2.sub': 11, 'gmpy2.mul': 12, 'gmpy2.div': 13, 'gmpy2.fma': 14,
    'gmpy2.sqrt': 15, 'gmpy2.cbrt': 16, 'gmpy2.hypot': 17, 'gmpy2.fmod': 18, 'gmpy2.remainder': 19,
    'gmpy2.copy_sign': 20, 'gmpy2.maxnum': 21, 'gmpy2.minnum': 22, 'gmpy2.mpfr': 23,
    'gmpy2.acos': 30, 'gmpy2.acosh': 31, 'gmpy2.asin': 32, 'gmpy2.asinh': 33, 'gmpy2.atan': 34,
    'gmpy2.atanh': 35, 'gmpy2.cos': 36, 'gmpy2.cosh': 37, 'gmpy2.erf': 38, 'gmpy2.erfc': 39,
    'gmpy2.exp': 40, 'gmpy2.exp2': 41, 'gmpy2.exp10': 42, 'gmpy2.expm1': 43, 'gmpy2.log': 44,
    'gmpy2.log10': 45, 'gmpy2.log1p': 46, 'gmpy2.log2': 47, 'gmpy2.sin': 48, 'gmpy2.sinh': 49,
    'gmpy2.tan': 50, 'gmpy2.tanh': 51, 'gmpy2.gamma': 52, 'gmpy2.atan2': 53,
    'gmpy2.const_pi': 60, 'gmpy2.const_log2': 61,
}


def fn_id(fn):
    # a primitive outside the table has the identity 0: no table entry prescribes it, so every clause that
    # names the prescribed primitive fails (instead of the lookup crashing the checker)
    return fn._id if cls_name(fn) == 'GmpFn' else FID.get(callable_name(fn), 0)


# ---------------------------------------------------------------------------
# the exact real result of a primitive (uninterpreted)

def arg_vid(a):
    return a._vid if cls_name(a) == 'MPFR' else ghost('ivid', a)


def app_id(fid, args):
    """identity of the exact real value  sem(fid)(args)"""
    n = len(args)
    return ghost('app', fid, n,
                 arg_vid(args[0]) if n > 0 else 0,
                 arg_vid(args[1]) if n > 1 else 0,
                 arg_vid(args[2]) if n > 2 else 0)


def y_nan(y):
    return ghost('y_nan', y) != 0


def y_inf(y):
    return ghost('y_inf', y) != 0


def y_zero(y):
    return ghost('y_zero', y) != 0


def y_neg(y):
    return ghost('y_neg', y) != 0


def y_e(y):
    return ghost('y_e', y)


def y_dig(y, k):
    return ghost('y_dig', y, k)


def y_stk(y, k):
    return ghost('y_stk', y, k) != 0


def y_fnz(y):
    """finite and nonzero"""
    return not y_nan(y) and not y_inf(y) and not y_zero(y)


# ---------------------------------------------------------------------------
# round to odd, and the fine representation that defines rounding of a real

def rto_c(m, inexact):
    """round-to-odd fix-up of a truncated significand: the last digit is forced to 1 iff inexact"""
    return ite(inexact and fmod(m, 2) == 0, m + 1, m)


def fine_c(dig, stk):
    """sticky bit appended below the truncated digits"""
    return 2 * dig + b2i(stk)


def rto_exp(ye, prec, n):
    """
    position of the last digit kept by mpfr_call for a result in binade `ye`:
    prec given -> prec + 2 digits; else digits down to n - 1, but never fewer than two
    """
    if prec is not None:
        return ye - (prec + 2) + 1
    return ite(ye <= n, ye - 1, n - 1)


def rnd_grid_eq(A, B):
    """componentwise equality of two rnd_at results (exp, c, inexact, carry)"""
    return A[0] == B[0] and A[1] == B[1] and A[2] == B[2] and A[3] == B[3]


def rnd_grid(s, c, P, p, n, rm):
    """
    spec.real.rnd_at for a positive shift, with the grid spacing P (in units of the operand's last digit) as a
    parameter: |x| = q*P + rho; returns (exp, c, inexact, carry).  rnd_at(x, p, n, rm) is rnd_grid with
    P = pow2(n + 1 - x.exp)  (lemma L5_inst).
    """
    q = fdiv(c, P)
    rho = fmod(c, P)
    m = q + b2i(incr(rm, s, q, rho, P))
    carry = rho != 0 and p is not None and bl(m) > p
    return (ite(carry, n + 2, n + 1), ite(carry, fdiv(m, 2), m), rho != 0, carry)


# ---------------------------------------------------------------------------
# exact arithmetic on dyadic triples (s, exp, c), by alignment over integers

def sv(x):
    """signed significand"""
    return ite(x._s, -x._c, x._c)


def dy_add_eq(x, y, r):
    """value(r) == value(x) + value(y), aligned at the smallest of the three exponents"""
    e0 = ite(x._exp <= y._exp, x._exp, y._exp)
    e1 = ite(e0 <= r._exp, e0, r._exp)
    return sv(x) * pow2(x._exp - e1) + sv(y) * pow2(y._exp - e1) == sv(r) * pow2(r._exp - e1)


def dy_sub_eq(x, y, r):
    """value(r) == value(x) - value(y), aligned at the smallest of the three exponents"""
    e0 = ite(x._exp <= y._exp, x._exp, y._exp)
    e1 = ite(e0 <= r._exp, e0, r._exp)
    return sv(x) * pow2(x._exp - e1) - sv(y) * pow2(y._exp - e1) == sv(r) * pow2(r._exp - e1)


def dy_mul_eq(x, y, r):
    """|value(r)| == |value(x)| * |value(y)|, aligned at the smaller of r.exp and x.exp + y.exp"""
    ep = x._exp + y._exp
    e1 = ite(ep <= r._exp, ep, r._exp)
    return x._c * y._c * pow2(ep - e1) == r._c * pow2(r._exp - e1)


def fl_val(x):
    """exact rational value of a finite dyadic triple"""
    pe = ite(x._exp >= 0, x._exp, 0)
    ne = ite(x._exp < 0, -x._exp, 0)
    return rdiv(sv(x) * pow2(pe), pow2(ne))


def arg_nan(x):
    return cls_name(x) == 'Float' and x._isnan


def arg_inf(x):
    return cls_name(x) == 'Float' and x._isinf and not x._isnan


def arg_neg(x):
    """sign bit of an engine argument (a Fraction has no negative zero)"""
    return x._real._s if cls_name(x) == 'Float' else x < 0


def arg_zero(x):
    return (not x._isnan and not x._isinf and x._real._c == 0) if cls_name(x) == 'Float' else x == 0


def arg_val(x):
    """exact rational value of a finite engine argument"""
    return fl_val(x._real) if cls_name(x) == 'Float' else x


def is_float(x):
    return cls_name(x) == 'Float'


def res_nan(r):
    return cls_name(r) == 'Float' and r._isnan and not r._isinf


def res_inf(r, s):
    return cls_name(r) == 'Float' and r._isinf and not r._isnan and r._real._s == s


def res_zero(r, s):
    """a zero of sign s (only a Float can carry a negative zero)"""
    return (fl_finite(r) and r._real._c == 0 and r._real._s == s) if cls_name(r) == 'Float' else (r == 0 and not s)


# ---------------------------------------------------------------------------
# the abstract interface Context.round_params(): (max precision | None, min position | None), a function of the context

def rp_prec_none(ctx):
    return ghost('rp_prec_none', obj_id(ctx)) != 0


def rp_n_none(ctx):
    return ghost('rp_n_none', obj_id(ctx)) != 0


def rp_prec(ctx):
    return ghost('rp_prec', obj_id(ctx))


def rp_n(ctx):
    return ghost('rp_n', obj_id(ctx))


def float_vid(x):
    """value identity of the mpfr that float_to_mpfr(x) returns (see trusted contract FloatToMpfr)"""
    nan = x._isnan
    inf = x._isinf and not x._isnan
    return ghost('fvid', b2i(nan), b2i(inf), b2i(x._real._s), x._real._exp, x._real._c)


def app_id_floats(fid, xs):
    """identity of sem(fid)(xs) for Float operands converted by float_to_mpfr"""
    n = len(xs)
    return ghost('app', fid, n,
                 float_vid(xs[0]) if n > 0 else 0,
                 float_vid(xs[1]) if n > 1 else 0,
                 float_vid(xs[2]) if n > 2 else 0)


def rto_of(y, r, prec, n):
    """r is the round-to-odd intermediate of the exact value y that mpfr_call(prec, n) returns (contract MpfrCall)"""
    E = rto_exp(y_e(y), prec, n)
    fnz = y_fnz(y)
    return (implies(y_nan(y), r._isnan and not r._isinf)
            and implies(y_inf(y), r._isinf and not r._isnan and r._real._s == y_neg(y))
            and implies(y_zero(y), fl_finite(r) and r._real._c == 0 and r._real._s == y_neg(y))
            and implies(fnz, fl_finite(r) and r._real._s == y_neg(y) and r._real._exp == E
                        and r._real._c == rto_c(y_dig(y, E), y_stk(y, E)) and flags_clear(r._real)))
