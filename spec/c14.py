"""
Spec functions for C14 (abstract arithmetic of format inference): the meaning of an
`AbstractFormat` as a set of Float values, written from the documentation of its fields.

    prec       maximum precision                       int >= 1, or float('inf')  = unbounded
    exp        minimum unnormalized exponent           int,      or float('-inf') = unbounded
    pos_bound  largest positive finite member          RealFloat >= 0, or float('inf')
    neg_bound  largest-magnitude negative finite member RealFloat <= 0, or float('-inf')
    has_pos_inf / has_neg_inf / has_nan / has_neg_zero   membership of the special values

`float` alternatives: the documentation only ever uses the sentinels above; `wf` states exactly
that (precondition of every lemma), and every operator is shown to preserve it (`*_wf` clauses).

Values are Float-like: (isnan, isinf, s, exp, c) with c >= 0 denoting (-1)^s * c * 2^exp.
A finite value is a member when *some* representation (m, q) of it has q >= A.exp and
bl(m) <= A.prec, and neg_bound <= v <= pos_bound.  In a precondition the given representation
(exp, c) is required to be such a witness itself (every member value has one, and the exact
result of an operation does not depend on the representation of the operands); in a
postcondition a witness for the result is exhibited (`mem_fin` of a particular representation).

Order is decided on a common grid 2^g (g a ghost integer, g <= every exponent involved): the
signed integer Z_g(x) = (-1)^s * c * 2^(exp - g).  Never by real-valued 2**exp.
"""
from speclib import *
from spec.real import *
from spec.floats import *

PINF = float('inf')
NINF = float('-inf')


def is_fl(x):
    return cls_name(x) == 'float'


# ---------------------------------------------------------------------------
# well-formedness (documented shape)

def prec_ok(A):
    return (A.prec == PINF) if is_fl(A.prec) else (A.prec >= 1)


def exp_ok(A):
    return (A.exp == NINF) if is_fl(A.exp) else True


def pos_ok(A):
    return (A.pos_bound == PINF) if is_fl(A.pos_bound) else (A.pos_bound._c == 0 or not A.pos_bound._s)


def neg_ok(A):
    return (A.neg_bound == NINF) if is_fl(A.neg_bound) else (A.neg_bound._c == 0 or A.neg_bound._s)


def wf(A):
    return prec_ok(A) and exp_ok(A) and pos_ok(A) and neg_ok(A)


def wf_clauses(A, tag):
    return {tag + '_prec': prec_ok(A), tag + '_exp': exp_ok(A), tag + '_pos': pos_ok(A), tag + '_neg': neg_ok(A)}


# ---------------------------------------------------------------------------
# grid arithmetic

def GRID():
    """the ghost grid exponent (any integer below every exponent involved; see the `grid` preconditions)"""
    return ghost('grid', 0)


def Z(s, e, c, g):
    """signed integer of (-1)^s c 2^e on the grid 2^g (needs g <= e)"""
    return ite(s, -c, c) * pow2(e - g)


def Zr(x, g):
    return Z(x._s, x._exp, x._c, g)


def grid_ok_fmt(A, g):
    """g is below the exponents of the bounds of A (and of A.exp)"""
    return ((True if is_fl(A.pos_bound) else g <= A.pos_bound._exp)
            and (True if is_fl(A.neg_bound) else g <= A.neg_bound._exp)
            and (True if is_fl(A.exp) else g <= A.exp))


# ---------------------------------------------------------------------------
# membership

def le_pos(s, e, c, A, g):
    """v <= A.pos_bound"""
    return True if is_fl(A.pos_bound) else Z(s, e, c, g) <= Zr(A.pos_bound, g)


def ge_neg(s, e, c, A, g):
    """A.neg_bound <= v"""
    return True if is_fl(A.neg_bound) else Zr(A.neg_bound, g) <= Z(s, e, c, g)


def exp_fits(e, A):
    return True if is_fl(A.exp) else e >= A.exp


def prec_fits(c, A):
    return True if is_fl(A.prec) else bl(c) <= A.prec


def mem_fin(s, e, c, A, g):
    """finite (s, e, c) is a member of A, with (c, e) itself as the witness; zeros by sign"""
    return ite(c == 0, (not s) or A.has_neg_zero,
               exp_fits(e, A) and prec_fits(c, A) and le_pos(s, e, c, A, g) and ge_neg(s, e, c, A, g))


def mem_sp(nan, inf, s, c, A):
    """the special-value part of membership: NaN, infinities and the sign of zero (no bounds involved)"""
    return ite(nan, A.has_nan,
           ite(inf, ite(s, A.has_neg_inf, A.has_pos_inf),
               implies(c == 0, (not s) or A.has_neg_zero)))


def mem_sp_v(v, A):
    return mem_sp(v._isnan, v._isinf, v._real._s, v._real._c, A)


def nz(v):
    """finite and nonzero"""
    return not v._isnan and not v._isinf and v._real._c != 0


def mem_nz_clauses(v, A, g, tag):
    """membership of a finite nonzero Float, one hypothesis per constraint (the given (c, exp) is the witness)"""
    r = v._real
    return {tag + '_nz': nz(v), tag + '_exp': exp_fits(r._exp, A), tag + '_prec': prec_fits(r._c, A),
            tag + '_le_pos': le_pos(r._s, r._exp, r._c, A, g), tag + '_ge_neg': ge_neg(r._s, r._exp, r._c, A, g)}


def mem_val(nan, inf, s, e, c, A, g):
    return ite(nan, A.has_nan,
           ite(inf, ite(s, A.has_neg_inf, A.has_pos_inf),
               mem_fin(s, e, c, A, g)))


def mem(v, A, g):
    """Float v is a member of A"""
    return mem_val(v._isnan, v._isinf, v._real._s, v._real._exp, v._real._c, A, g)


def fin(v):
    return not v._isnan and not v._isinf


# ---------------------------------------------------------------------------
# exact results (IEEE 754 semantics of the exact operation on Float values), as value tuples
# (nan, inf, s, e, c)

def v_neg(v):
    r = v._real
    return (v._isnan, v._isinf and not v._isnan, not r._s, r._exp, r._c)


def v_abs(v):
    r = v._real
    return (v._isnan, v._isinf and not v._isnan, False, r._exp, r._c)


def v_pos(v):
    r = v._real
    return (v._isnan, v._isinf and not v._isnan, r._s, r._exp, r._c)


def imin(a, b):
    return ite(a <= b, a, b)


def v_add_parts(a, b, negate_b):
    """
    exact a + b (or a - b): NaN if either is NaN or inf + (-inf); inf if either is inf;
    otherwise the sum aligned at the smaller exponent; a zero sum is -0 only when both addends are -0.
    """
    ra = a._real
    rb = b._real
    sb = (not rb._s) if negate_b else rb._s
    nan = a._isnan or b._isnan or (a._isinf and b._isinf and ra._s != sb)
    inf = not nan and (a._isinf or b._isinf)
    s_inf = ite(a._isinf, ra._s, sb)
    e = imin(ra._exp, rb._exp)
    m = ite(ra._s, -ra._c, ra._c) * pow2(ra._exp - e) + ite(sb, -rb._c, rb._c) * pow2(rb._exp - e)
    s_fin = m < 0 or (ra._c == 0 and rb._c == 0 and ra._s and sb)
    return (nan, inf, ite(inf, s_inf, s_fin), e, ite(m < 0, -m, m))


def v_mul(a, b):
    """exact a * b: NaN if either is NaN or inf * 0; inf if either is inf; sign is the XOR of the signs"""
    ra = a._real
    rb = b._real
    s = ra._s != rb._s
    a_zero = fin(a) and ra._c == 0
    b_zero = fin(b) and rb._c == 0
    nan = a._isnan or b._isnan or (a._isinf and b_zero) or (b._isinf and a_zero)
    inf = not nan and (a._isinf or b._isinf)
    return (nan, inf, s, ra._exp + rb._exp, ra._c * rb._c)


# ---------------------------------------------------------------------------
# sums and differences

def bounds_rep(A):
    """
    The finite bounds are multiples of the quantum 2^exp ("largest representable number"), given by a
    representation whose own exponent is not below exp.  (Needed so that __add__/__sub__ can renormalise the
    bound at the quantum without `normalize` raising.)
    """
    return True if is_fl(A.exp) else (
        (True if is_fl(A.pos_bound) else A.pos_bound._exp >= A.exp)
        and (True if is_fl(A.neg_bound) else A.neg_bound._exp >= A.exp))


def fin_member_clauses(v, A, g, tag):
    """finite member (zero allowed) whose given representation is the witness"""
    r = v._real
    return {tag + '_fin': fin(v), tag + '_grid': g <= r._exp, tag + '_exp': exp_fits(r._exp, A),
            tag + '_prec': prec_fits(r._c, A),
            tag + '_le_pos': le_pos(r._s, r._exp, r._c, A, g), tag + '_ge_neg': ge_neg(r._s, r._exp, r._c, A, g)}


def add_nan(a, b, negate_b):
    sb = (not b._real._s) if negate_b else b._real._s
    return a._isnan or b._isnan or (a._isinf and b._isinf and a._real._s != sb)


def add_inf(a, b, negate_b):
    return not add_nan(a, b, negate_b) and (a._isinf or b._isinf)


def add_inf_sign(a, b, negate_b):
    sb = (not b._real._s) if negate_b else b._real._s
    return ite(a._isinf, a._real._s, sb)


def add_neg_zero(a, b, negate_b):
    """IEEE 754 6.3: a zero sum is -0 only when both addends are -0 (an exact cancellation x + (-x) is +0)"""
    sb = (not b._real._s) if negate_b else b._real._s
    return fin(a) and fin(b) and a._real._c == 0 and b._real._c == 0 and a._real._s and sb


# ---------------------------------------------------------------------------
# products

FLOAT_CONV = 2 ** 1000


def small(A):
    """int fields small enough to be mixed with the float sentinels (`int + float('-inf')` converts the int
    to a double first and raises OverflowError beyond ~2^1024)"""
    return ((True if is_fl(A.exp) else (-FLOAT_CONV < A.exp and A.exp < FLOAT_CONV))
            and (True if is_fl(A.prec) else A.prec < FLOAT_CONV)
            and (True if is_fl(A.pos_bound) else _small_bound(A.pos_bound, A))
            and (True if is_fl(A.neg_bound) else _small_bound(A.neg_bound, A)))


def _small_bound(x, A):
    return bl(x._c) < FLOAT_CONV and (True if is_fl(A.exp) else x._exp - A.exp < FLOAT_CONV)


def quantum_if_bounded(A):
    """effective_prec() asserts that a format with a finite magnitude bound and unbounded precision has a
    finite quantum (`assert not isinstance(self.exp, float)`)"""
    return True if (is_fl(A.pos_bound) and is_fl(A.neg_bound)) or not is_fl(A.prec) else not is_fl(A.exp)


def mul_nan(a, b):
    a_zero = fin(a) and a._real._c == 0
    b_zero = fin(b) and b._real._c == 0
    return a._isnan or b._isnan or (a._isinf and b_zero) or (b._isinf and a_zero)


def mul_inf(a, b):
    return not mul_nan(a, b) and (a._isinf or b._isinf)


def mul_sign(a, b):
    return a._real._s != b._real._s


def mul_neg_zero(a, b):
    """IEEE 754 6.3: the sign of a product is the XOR of the signs, also for a zero product"""
    return fin(a) and fin(b) and (a._real._c == 0 or b._real._c == 0) and mul_sign(a, b)
