"""
Spec for C19x: the LISTING order (fpy2/transform/path.py: sub_exprs, sub_blocks, walk_*) agrees with the
AIMING order (the order in which a rewriting visitor reaches the children of a node).

VISIT_ORDER is the reference: for every node class that has a visit method, the children that
`DefaultTransformVisitor._visit_<class>` (fpy2/ast/visitor.py) hands to `_visit_expr` / `_visit_block`, in the order
it does so, read off the visitor source.  (`DefaultVisitor` visits in the same order; `SiteRewriter` overrides only
`_visit_block`, which hands the statements of a block to `_visit_statement` in index order.)

An entry is (kind, field):
    'expr'    the expression `node.<field>`
    'opt'     the expression `node.<field>`, skipped when it is None
    'exprs'   every element of the sequence `node.<field>`, in index order
    'kwvals'  the second component of every pair of the sequence `node.<field>`, in index order
    'block'   the statement block `node.<field>`
Bindings (`target`, `targets`) are visited through `_visit_binding`; they hold no expression and no block.

Both sides are proved against this table: contracts/c19x_listing.py (path.py) and contracts/c19x_visitor.py
(visitor.py, by a recording probe), so a reordering on either side fails an obligation.
"""
from speclib import *
from fpy2.ast.fpyast import (
    Assign, IndexedAssign, If1Stmt, IfStmt, WhileStmt, ForStmt, ContextStmt, AssertStmt, EffectStmt, ReturnStmt,
    PassStmt, Call, NullaryOp, UnaryOp, BinaryOp, TernaryOp, NaryOp, Compare, TupleExpr, ListExpr, ListComp,
    ListRef, ListSlice, IfExpr, Attribute, Var, BoolVal, ForeignVal, Decnum, Hexnum, Integer, Rational, Digits,
)
from fpy2.ast.visitor import DefaultTransformVisitor, DefaultVisitor

VISIT_ORDER = {
    # ---- statements                                          DefaultTransformVisitor method
    'Assign':        (('expr', 'expr'),),                                        # _visit_assign (binding first: no expression)
    'IndexedAssign': (('exprs', 'indices'), ('expr', 'expr')),                   # _visit_indexed_assign: indices BEFORE the assigned expression
    'If1Stmt':       (('expr', 'cond'), ('block', 'body')),                      # _visit_if1
    'IfStmt':        (('expr', 'cond'), ('block', 'ift'), ('block', 'iff')),     # _visit_if: cond, then-branch, else-branch
    'WhileStmt':     (('expr', 'cond'), ('block', 'body')),                      # _visit_while
    'ForStmt':       (('expr', 'iterable'), ('block', 'body')),                  # _visit_for: (binding,) iterable, body
    'ContextStmt':   (('expr', 'ctx'), ('block', 'body')),                       # _visit_context
    'AssertStmt':    (('expr', 'test'), ('opt', 'msg')),                         # _visit_assert
    'EffectStmt':    (('expr', 'expr'),),                                        # _visit_effect
    'ReturnStmt':    (('expr', 'expr'),),                                        # _visit_return
    'PassStmt':      (),                                                         # _visit_pass
    # ---- expressions
    'Call':          (('exprs', 'args'), ('kwvals', 'kwargs')),                  # _visit_call: positional, then keyword values
    'NullaryOp':     (),                                                         # _visit_nullaryop
    'UnaryOp':       (('exprs', 'args'),),                                       # _visit_unaryop: arg  (= args[0])
    'BinaryOp':      (('exprs', 'args'),),                                       # _visit_binaryop: first, second (= args[0], args[1])
    'TernaryOp':     (('exprs', 'args'),),                                       # _visit_ternaryop: first, second, third
    'NaryOp':        (('exprs', 'args'),),                                       # _visit_naryop
    'Compare':       (('exprs', 'args'),),                                       # _visit_compare
    'TupleExpr':     (('exprs', 'elts'),),                                       # _visit_tuple_expr
    'ListExpr':      (('exprs', 'elts'),),                                       # _visit_list_expr
    'ListComp':      (('exprs', 'iterables'), ('expr', 'elt')),                  # _visit_list_comp: (bindings,) iterables, elt
    'ListRef':       (('expr', 'value'), ('expr', 'index')),                     # _visit_list_ref
    'ListSlice':     (('expr', 'value'), ('opt', 'start'), ('opt', 'stop')),     # _visit_list_slice
    'IfExpr':        (('expr', 'cond'), ('expr', 'ift'), ('expr', 'iff')),       # _visit_if_expr
    'Attribute':     (('expr', 'value'),),                                       # _visit_attribute
    # ---- leaves
    'Var': (), 'BoolVal': (), 'ForeignVal': (), 'Decnum': (), 'Hexnum': (), 'Integer': (), 'Rational': (), 'Digits': (),
}

KIND_CLASSES = (
    ('Assign', Assign), ('IndexedAssign', IndexedAssign), ('If1Stmt', If1Stmt), ('IfStmt', IfStmt),
    ('WhileStmt', WhileStmt), ('ForStmt', ForStmt), ('ContextStmt', ContextStmt), ('AssertStmt', AssertStmt),
    ('EffectStmt', EffectStmt), ('ReturnStmt', ReturnStmt), ('PassStmt', PassStmt),
    ('Call', Call), ('NullaryOp', NullaryOp), ('UnaryOp', UnaryOp), ('BinaryOp', BinaryOp), ('TernaryOp', TernaryOp),
    ('NaryOp', NaryOp), ('Compare', Compare), ('TupleExpr', TupleExpr), ('ListExpr', ListExpr), ('ListComp', ListComp),
    ('ListRef', ListRef), ('ListSlice', ListSlice), ('IfExpr', IfExpr), ('Attribute', Attribute),
    ('Var', Var), ('BoolVal', BoolVal), ('ForeignVal', ForeignVal), ('Decnum', Decnum), ('Hexnum', Hexnum),
    ('Integer', Integer), ('Rational', Rational), ('Digits', Digits),
)

# the literal types of fpy2/transform/path.py (ExprField / BlockField): every field of the table is one of them
EXPR_FIELDS = ('expr', 'indices', 'cond', 'iterable', 'ctx', 'test', 'msg',
               'args', 'kwargs', 'elts', 'value', 'index', 'start', 'stop', 'iterables', 'elt', 'ift', 'iff')
BLOCK_FIELDS = ('body', 'ift', 'iff')


@invariant('fpy2.ast.fpyast:NullaryOp')
def inv_NullaryOp(e):
    # `args` is the CLASS attribute `()`; `__slots__ = ('func',)` leaves an instance no way to shadow it
    return len(e.args) == 0


def kind_of(node):
    """the table key of a node: the visit-method class it is an instance of"""
    for name, cls in KIND_CLASSES:
        if isinstance(node, cls):
            return name
    return 'unknown'


def visit_order(node):
    return VISIT_ORDER[kind_of(node)]


# ----------------------------------------------------------------- the listing a table row prescribes

def expr_count(node):
    """how many expression children the table row of `node` lists"""
    n = 0
    for kind, field in visit_order(node):
        if kind == 'expr':
            n = n + 1
        elif kind == 'opt':
            n = n + (0 if getattr(node, field) is None else 1)
        elif kind == 'exprs' or kind == 'kwvals':
            n = n + len(getattr(node, field))
    return n


def block_count(node):
    n = 0
    for kind, field in visit_order(node):
        if kind == 'block':
            n = n + 1
    return n


def entry_single(listing, at, field, child):
    """position `at` of a sub_exprs listing is (field, None, child)"""
    if 0 <= at and at < len(listing):
        r = listing[at]
        return r[0] == field and r[1] is None and same_obj(r[2], child)
    return False


def entry_indexed(listing, at, field, j, seq):
    """position `at` of a sub_exprs listing is (field, j, seq[j])"""
    if 0 <= at and at < len(listing):
        r = listing[at]
        return r[0] == field and r[1] == j and same_elem_obj(r[2], seq[j])
    return False


def entry_kwval(listing, at, field, j, seq):
    """position `at` of a sub_exprs listing is (field, j, seq[j][1])"""
    if 0 <= at and at < len(listing):
        r = listing[at]
        return r[0] == field and r[1] == j and same_elem_obj(r[2], seq[j][1])
    return False


def expr_listing_clauses(node, listing, j):
    """`listing` (what sub_exprs returned) enumerates exactly the expression children of the table row of
    `node`, in table order; `j` is an arbitrary index (universally quantified ghost) into a sequence-valued field"""
    out = {'count': len(listing) == expr_count(node)}
    off = 0
    for kind, field in visit_order(node):
        if kind == 'expr':
            out[field + '_at'] = entry_single(listing, off, field, getattr(node, field))
            off = off + 1
        elif kind == 'opt':
            child = getattr(node, field)
            if child is not None:
                out[field + '_at'] = entry_single(listing, off, field, child)
                off = off + 1
            else:
                out[field + '_at'] = True
        elif kind == 'exprs':
            seq = getattr(node, field)
            if 0 <= j and j < len(seq):
                out[field + '_each'] = entry_indexed(listing, off + j, field, j, seq)
            else:
                out[field + '_each'] = True
            off = off + len(seq)
        elif kind == 'kwvals':
            seq = getattr(node, field)
            if 0 <= j and j < len(seq):
                out[field + '_each'] = entry_kwval(listing, off + j, field, j, seq)
            else:
                out[field + '_each'] = True
            off = off + len(seq)
    return out


def block_listing_clauses(node, listing):
    """`listing` (what sub_blocks returned) enumerates exactly the blocks of the table row, in table order"""
    out = {'count': len(listing) == block_count(node)}
    at = 0
    for kind, field in visit_order(node):
        if kind == 'block':
            out[field + '_at'] = (listing[at][0] == field and same_obj(listing[at][1], getattr(node, field))) \
                if at < len(listing) else False
            at = at + 1
    return out


# ----------------------------------------------------------------- facts about the table itself

def exprs_before_blocks(row):
    """no expression entry follows a block entry: a statement's own expressions come before the blocks it holds"""
    seen_block = False
    ok = True
    for kind, field in row:
        if kind == 'block':
            seen_block = True
        elif seen_block:
            ok = False
    return ok


def fields_are_declared(row):
    ok = True
    for kind, field in row:
        ok = ok and ((field in BLOCK_FIELDS) if kind == 'block' else (field in EXPR_FIELDS))
    return ok


def fields_distinct(row):
    """one entry per field, so (field, index) names a child uniquely -- what resolve_expr relies on"""
    ok = True
    for a in range(len(row)):
        for b in range(len(row)):
            if a < b and row[a][1] == row[b][1] and (row[a][0] == 'block') == (row[b][0] == 'block'):
                ok = False
    return ok


# ----------------------------------------------------------------- the recording probe (visitor side)

class OrderProbe(DefaultTransformVisitor):
    """A DefaultTransformVisitor that records what it is handed, in the order it is handed it, instead of
    descending: `log` gets ('expr', e) for `_visit_expr(e, ..)` and ('block', b) for `_visit_block(b, ..)`.
    The visit methods of the statement / expression classes are the inherited, unmodified ones."""
    log: 'list[tuple[str, object]]'

    def _visit_expr(self, e, ctx):
        self.log.append(('expr', e))
        return e

    def _visit_block(self, block, ctx):
        self.log.append(('block', block))
        return block, None

    def _visit_binding(self, binding, ctx):
        return binding


class OrderProbeD(DefaultVisitor):
    """the same probe for the non-rebuilding DefaultVisitor"""
    log: 'list[tuple[str, object]]'

    def _visit_expr(self, e, ctx):
        self.log.append(('expr', e))

    def _visit_block(self, block, ctx):
        self.log.append(('block', block))


def probe_clauses(node, log):
    """the probe's log is the table row of `node`, entry by entry (sequence-valued fields have CONCRETE length here)"""
    want = []
    for kind, field in visit_order(node):
        if kind == 'expr':
            want.append(('expr', getattr(node, field)))
        elif kind == 'opt':
            if getattr(node, field) is not None:
                want.append(('expr', getattr(node, field)))
        elif kind == 'exprs':
            for x in getattr(node, field):
                want.append(('expr', x))
        elif kind == 'kwvals':
            for kv in getattr(node, field):
                want.append(('expr', kv[1]))
        elif kind == 'block':
            want.append(('block', getattr(node, field)))
    out = {'count': len(log) == len(want)}
    for i in range(len(want)):
        out['visit_' + str(i)] = (log[i][0] == want[i][0] and same_obj(log[i][1], want[i][1])) if i < len(log) else False
    return out


# ----------------------------------------------------------------- dispatch: which visit method a node reaches

class KindProbe(DefaultTransformVisitor):
    """every visit method answers with its table key instead of visiting: `_visit_expr(e)` / `_visit_statement(s)`
    (the inherited MRO dispatch of fpy2/ast/visitor.py: Visitor) then tell which row of VISIT_ORDER governs a node.
    `_visit_round` / `_visit_round_at` are the inherited delegations (to `_visit_unaryop` / `_visit_binaryop`)."""

    def _visit_var(self, e, ctx): return 'Var'
    def _visit_bool(self, e, ctx): return 'BoolVal'
    def _visit_foreign(self, e, ctx): return 'ForeignVal'
    def _visit_decnum(self, e, ctx): return 'Decnum'
    def _visit_hexnum(self, e, ctx): return 'Hexnum'
    def _visit_integer(self, e, ctx): return 'Integer'
    def _visit_rational(self, e, ctx): return 'Rational'
    def _visit_digits(self, e, ctx): return 'Digits'
    def _visit_nullaryop(self, e, ctx): return 'NullaryOp'
    def _visit_unaryop(self, e, ctx): return 'UnaryOp'
    def _visit_binaryop(self, e, ctx): return 'BinaryOp'
    def _visit_ternaryop(self, e, ctx): return 'TernaryOp'
    def _visit_naryop(self, e, ctx): return 'NaryOp'
    def _visit_call(self, e, ctx): return 'Call'
    def _visit_compare(self, e, ctx): return 'Compare'
    def _visit_tuple_expr(self, e, ctx): return 'TupleExpr'
    def _visit_list_expr(self, e, ctx): return 'ListExpr'
    def _visit_list_comp(self, e, ctx): return 'ListComp'
    def _visit_list_ref(self, e, ctx): return 'ListRef'
    def _visit_list_slice(self, e, ctx): return 'ListSlice'
    def _visit_if_expr(self, e, ctx): return 'IfExpr'
    def _visit_attribute(self, e, ctx): return 'Attribute'
    def _visit_assign(self, stmt, ctx): return 'Assign'
    def _visit_indexed_assign(self, stmt, ctx): return 'IndexedAssign'
    def _visit_if1(self, stmt, ctx): return 'If1Stmt'
    def _visit_if(self, stmt, ctx): return 'IfStmt'
    def _visit_while(self, stmt, ctx): return 'WhileStmt'
    def _visit_for(self, stmt, ctx): return 'ForStmt'
    def _visit_context(self, stmt, ctx): return 'ContextStmt'
    def _visit_assert(self, stmt, ctx): return 'AssertStmt'
    def _visit_effect(self, stmt, ctx): return 'EffectStmt'
    def _visit_return(self, stmt, ctx): return 'ReturnStmt'
    def _visit_pass(self, stmt, ctx): return 'PassStmt'


# ----------------------------------------------------------------- the walkers on one program shape (contracts/c19x_walk.py)

def _shape(func):
    s0 = func.body.stmts[0]
    s1 = func.body.stmts[1]
    t0 = s0.ift.stmts[0]
    w0 = s0.iff.stmts[0]
    e0 = w0.body.stmts[0]
    return s0, s1, t0, w0, e0


def _shape_paths():
    from fpy2.transform.path import FuncBody
    p0 = FuncBody().stmt(0)
    p1 = FuncBody().stmt(1)
    pt = p0.block('ift').stmt(0)
    pw = p0.block('iff').stmt(0)
    pe = pw.block('body').stmt(0)
    return p0, p1, pt, pw, pe


def sp_eq(a, b):
    """equality of two StmtPaths (frozen dataclass: componentwise)"""
    return a.parent == b.parent and a.index == b.index


def walk_stmts_shape_clauses(func, got):
    s0, s1, t0, w0, e0 = _shape(func)
    p0, p1, pt, pw, pe = _shape_paths()
    want = [(p0, s0), (pt, t0), (pw, w0), (pe, e0), (p1, s1)]
    out = {'count': len(got) == len(want)}
    for i in range(len(want)):
        out['stmt_' + str(i)] = (sp_eq(got[i][0], want[i][0]) and same_obj(got[i][1], want[i][1])) if i < len(got) else False
    return out


def walk_exprs_shape_clauses(func, got):
    s0, s1, t0, w0, e0 = _shape(func)
    p0, p1, pt, pw, pe = _shape_paths()
    # (statement path, depth below the statement, leaf field, leaf index, expression)
    want = [
        (p0, 1, 'cond', None, s0.cond),
        (p0, 2, 'args', 0, s0.cond.args[0]),
        (p0, 2, 'args', 1, s0.cond.args[1]),
        (pt, 1, 'indices', 0, t0.indices[0]),
        (pt, 1, 'indices', 1, t0.indices[1]),
        (pt, 1, 'expr', None, t0.expr),
        (pw, 1, 'cond', None, w0.cond),
        (pe, 1, 'expr', None, e0.expr),
        (p1, 1, 'expr', None, s1.expr),
    ]
    out = {'count': len(got) == len(want)}
    for i in range(len(want)):
        if i < len(got):
            path, e = got[i]
            sp, depth, field, index, we = want[i]
            out['expr_' + str(i)] = same_obj(e, we)
            out['path_' + str(i)] = (path.field == field and path.index == index and sp_eq(path.stmt(), sp)
                                     and (sp_eq(path.parent, sp) if depth == 1 else
                                          (path.parent.field == 'cond' and path.parent.index is None and sp_eq(path.parent.parent, sp))))
        else:
            out['expr_' + str(i)] = False
    return out
