"""
Spec functions for the context layer (property C01, K1..K5).

An operand is a RealFloat or a Float; `op_*` give its view as (nan?, inf?, real part).
Every family's rounding is stated as: special values by table (K5), zero keeps
its (permitted) sign (K2), finite non-zero = rnd_at at the family's (p, n*)
(K2/K3; rnd_at is the identity when the operand is on the grid), beyond range
by overflow mode (K4), result is a member of the format (K1).
"""
from speclib import *
from spec.real import *
from spec.floats import *


# ---------------------------------------------------------------------------
# operands

def op_isfloat(x):
    return cls_name(x) == 'Float'


def op_nan(x):
    return cls_name(x) == 'Float' and x._isnan


def op_inf(x):
    return cls_name(x) == 'Float' and x._isinf and not x._isnan


def op_real(x):
    return x._real if cls_name(x) == 'Float' else x


def op_finite(x):
    return not op_nan(x) and not op_inf(x)


def op_nonzero(x):
    return op_finite(x) and op_real(x)._c != 0


def max2(a, b):
    return ite(a >= b, a, b)


# ---------------------------------------------------------------------------
# results

def is_nan_result(r):
    return r._isnan and not r._isinf


def is_inf_result(r, s):
    return r._isinf and not r._isnan and r._real._s == s


def same_float(r, v):
    """r is a copy of the Float v (value, class and flags)"""
    return (same_real(r._real, v._real) and r._isnan == v._isnan and r._isinf == v._isinf
            and r._real._flags._flags == v._real._flags._flags)


def same_float_signed(r, v, s):
    """r is a copy of the Float v with its sign replaced by s"""
    return (r._real._s == s and r._real._exp == v._real._exp and r._real._c == v._real._c
            and r._isnan == v._isnan and r._isinf == v._isinf
            and r._real._flags._flags == v._real._flags._flags)


def only_flags(r, inexact, overflow):
    """inexact / overflow as given; invalid, divzero clear"""
    return (r._real._flags.inexact == inexact and r._real._flags.overflow == overflow
            and not r._real._flags.invalid and not r._real._flags.divzero)


# ---------------------------------------------------------------------------
# magnitude comparisons of (exp, c) pairs by alignment

def mag_gt_ec(e1, c1, e2, c2):
    """c1 * 2^e1 > c2 * 2^e2"""
    e0 = ite(e1 <= e2, e1, e2)
    return c1 * pow2(e1 - e0) > c2 * pow2(e2 - e0)


def mag_eq_ec(e1, c1, e2, c2):
    e0 = ite(e1 <= e2, e1, e2)
    return c1 * pow2(e1 - e0) == c2 * pow2(e2 - e0)


# ---------------------------------------------------------------------------
# overflow direction table (K4): does an overflow of sign s go to infinity
# (rather than to the largest value)?  Directed modes: iff the mode rounds this
# sign away from zero; nearest modes: yes.  RTO / RTE are not prescribed by the
# property; the families choose (recorded by the `rto`, `rte` arguments).

def ovf_to_inf(rm, s, rto, rte):
    nm = rm.name
    return ite(nm == 'RNE', True,
           ite(nm == 'RNA', True,
           ite(nm == 'RTP', not s,
           ite(nm == 'RTN', s,
           ite(nm == 'RTZ', False,
           ite(nm == 'RAZ', True,
           ite(nm == 'RTO', rto, rte)))))))


# ---------------------------------------------------------------------------
# MPFloat family: F(pmax) = { m * 2^q : bl(m) <= pmax }; p = pmax, n* = max(n, e - pmax)

def mpf_ns(self, x, n):
    return round_nstar(op_real(x), self.pmax, n)


def mpf_R(self, x, n):
    return rnd_at(op_real(x), self.pmax, mpf_ns(self, x, n), self.rm)


# MPSFloat family: additionally q > nmin = emin - pmax; n* = max(n, nmin, e - pmax)

def mps_nmin(self):
    return self.emin - self.pmax


def mps_n(self, n):
    return mps_nmin(self) if n is None else max2(n, mps_nmin(self))


def mps_ns(self, x, n):
    return round_nstar(op_real(x), self.pmax, mps_n(self, n))


def mps_R(self, x, n):
    return rnd_at(op_real(x), self.pmax, mps_ns(self, x, n), self.rm)


# MPFixed family: F(nmin) = { m * 2^q : q > nmin }; p = None, n* = max(n, nmin)

def mpx_n(self, n):
    return self.nmin if n is None else max2(n, self.nmin)


def mpx_R(self, x, n):
    return rnd_at(op_real(x), None, mpx_n(self, n), self.rm)


# ---------------------------------------------------------------------------
# membership predicates (value sets written from the published parameters)

def fits_p(c, pmax):
    """c (> 0) is m * 2^t with bl(m) <= pmax"""
    over = bl(c) - pmax
    return (fmod(c, pow2(over)) == 0) if over > 0 else True


def mpf_member(pmax, enable_nan, enable_inf, v):
    """Float v is a member of MPFloatFormat(pmax, enable_nan, enable_inf)"""
    return ite(v._isnan, enable_nan,
           ite(v._isinf, enable_inf,
               v._real._c == 0 or fits_p(v._real._c, pmax)))


@invariant('fpy2.number.context.mp_float:MPFloatContext')
def inv_MPFloatContext(k):
    return k.pmax >= 1


def mps_member_real(pmax, emin, xr):
    """finite xr is in MPSFloatFormat(pmax, emin): zero, or at most pmax digits, none at or below nmin = emin - pmax"""
    return xr._c == 0 or (fits_p(xr._c, pmax) and on_grid(xr, emin - pmax))


def mps_member(pmax, emin, enable_nan, enable_inf, v):
    return ite(v._isnan, enable_nan, ite(v._isinf, enable_inf, mps_member_real(pmax, emin, v._real)))


@invariant('fpy2.number.context.mps_float:MPSFloatContext')
def inv_MPSFloatContext(k):
    return k.pmax >= 1


def float_family_post(self, x, n, r, R, nmin):
    """
    shared post of the float families without a maximum value (MPFloat: nmin None, MPSFloat):
    R = rnd_at(...) at the family's (p, n*)
    """
    nan = op_nan(x)
    inf = op_inf(x)
    xr = op_real(x)
    fin = not nan and not inf
    nz = fin and xr._c != 0
    return {
        'ctx': same_obj(r._ctx, self),
        # K5 special values
        'nan_enabled': implies(nan and self.enable_nan, r._isnan and not r._isinf),
        'nan_subst': (same_real(r._real, self.nan_value._real) and r._isnan == self.nan_value._isnan
                      and r._isinf == self.nan_value._isinf) if (nan and not self.enable_nan and self.nan_value is not None) else True,
        'inf_enabled': implies(inf and self.enable_inf, r._isinf and not r._isnan and r._real._s == xr._s),
        'inf_subst': (r._real._s == xr._s and r._real._exp == self.inf_value._real._exp
                      and r._real._c == self.inf_value._real._c and r._isnan == self.inf_value._isnan
                      and r._isinf == self.inf_value._isinf) if (inf and not self.enable_inf and self.inf_value is not None) else True,
        # K2 zero keeps its sign, no flags
        'zero': implies(fin and xr._c == 0, fl_finite(r) and r._real._c == 0 and r._real._s == xr._s and flags_clear(r._real)),
        # K2/K3 finite nonzero: the correctly rounded value with truthful inexact flag
        'finite': implies(nz, fl_finite(r)),
        'sign': implies(nz, r._real._s == xr._s),
        'exp': implies(nz, r._real._exp == R[0]),
        'c': implies(nz, r._real._c == R[1]),
        'inexact': implies(nz, r._real._flags.inexact == R[2]),
        'no_overflow': implies(nz, not r._real._flags.overflow),
        # K1 member of the format
        'member_p': implies(nz, bl(r._real._c) <= self.pmax),
        'member_n': implies(nz, r._real._exp > n) if n is not None else True,
        'member_nmin': implies(nz, r._real._exp > nmin) if nmin is not None else True,
    }


def float_family_raises(self, x, exact, R):
    nan = op_nan(x)
    inf = op_inf(x)
    return {
        'ValueError': (nan and not self.enable_nan and self.nan_value is None)
                      or (inf and not self.enable_inf and self.inf_value is None)
                      or (op_nonzero(x) and exact and R[2]),
    }


def mps_post(self, x, n, exact, r):
    return float_family_post(self, x, n, r, mps_R(self, x, n), mps_nmin(self))


def mps_raises(self, x, n, exact):
    return float_family_raises(self, x, exact, mps_R(self, x, n))


def mpf_post(self, x, n, exact, r):
    """post of MPFloatContext._round_at / round (n = None) / round_at"""
    return float_family_post(self, x, n, r, mpf_R(self, x, n), None)


def mpf_raises(self, x, n, exact):
    return float_family_raises(self, x, exact, mpf_R(self, x, n))


# ---------------------------------------------------------------------------
# MPBFloat family: MPSFloat(pmax, emin) cut off at -|neg_maxval| .. pos_maxval

@invariant('fpy2.number.context.mpb_float:MPBFloatContext')
def inv_MPBFloatContext(k):
    return (k.pmax >= 1 and not k.pos_maxval._s and k.neg_maxval._s and k.overflow.name != 'WRAP'
            and k._fmt.pmax == k.pmax and k._fmt.emin == k.emin
            and same_real(k._fmt.pos_maxval, k.pos_maxval) and same_real(k._fmt.neg_maxval, k.neg_maxval))


@opaque
def mag_lt_ec(e1, c1, e2, c2):
    """c1 * 2^e1 < c2 * 2^e2 (same alignment as spec.real.mag_lt)"""
    e0 = ite(e1 <= e2, e1, e2)
    return c1 * pow2(e1 - e0) < c2 * pow2(e2 - e0)


def bounded_post(self, x, n, r, R, nmin, pmax, rto, rte, inf_signed, has_neg_zero):
    """
    shared post of the families with a maximum value (MPBFloat, MPBFixed): R = unbounded rounding
    (exp, c, inexact, carry); beyond range (K4) <=> |R| > maxval of the operand's sign
    """
    nan = op_nan(x)
    inf = op_inf(x)
    xr = op_real(x)
    fin = not nan and not inf
    nz = fin and xr._c != 0
    s = xr._s
    mv_exp = ite(s, self.neg_maxval._exp, self.pos_maxval._exp)
    mv_c = ite(s, self.neg_maxval._c, self.pos_maxval._c)
    ovf = nz and mag_lt_ec(mv_exp, mv_c, R[0], R[1])
    ok = nz and not ovf
    om = self.overflow.name
    toinf = ovf_to_inf(self.rm, s, rto, rte)
    arm_inf = ovf and om == 'OVERFLOW' and toinf
    arm_max = ovf and (om == 'SATURATE' or (om == 'OVERFLOW' and not toinf))
    out = {
        'ctx': same_obj(r._ctx, self),
        # K5 special values
        'nan_enabled': implies(nan and self.enable_nan, r._isnan and not r._isinf),
        'nan_subst': (same_real(r._real, self.nan_value._real) and r._isnan == self.nan_value._isnan
                      and r._isinf == self.nan_value._isinf) if (nan and not self.enable_nan and self.nan_value is not None) else True,
        'inf_enabled': implies(inf and self.enable_inf, r._isinf and not r._isnan and r._real._s == xr._s),
        'inf_subst': ((r._real._s == (xr._s if inf_signed else self.inf_value._real._s))
                      and r._real._exp == self.inf_value._real._exp
                      and r._real._c == self.inf_value._real._c and r._isnan == self.inf_value._isnan
                      and r._isinf == self.inf_value._isinf) if (inf and not self.enable_inf and self.inf_value is not None) else True,
        # a NaN / an infinity the format has is not a changed value: no flags
        'special_flags': implies((nan and self.enable_nan) or (inf and self.enable_inf), flags_clear(r._real)),
        # K2 zero keeps its sign (+0 where the format has no -0), no flags
        'zero': implies(fin and xr._c == 0, fl_finite(r) and r._real._c == 0
                        and r._real._s == (xr._s and has_neg_zero) and flags_clear(r._real)),
        # K2/K3 within range: the correctly rounded value, truthful flags
        'finite': implies(ok, fl_finite(r)),
        'sign': implies(ok, r._real._s == (xr._s and (has_neg_zero or R[1] != 0))),
        'exp': implies(ok, r._real._exp == R[0]),
        'c': implies(ok, r._real._c == R[1]),
        'inexact': implies(ok, r._real._flags.inexact == R[2]),
        'no_overflow': implies(ok, not r._real._flags.overflow),
        # K1 member of the format
        'member_p': implies(ok, bl(r._real._c) <= pmax) if pmax is not None else True,
        'member_n': implies(ok, r._real._exp > n) if n is not None else True,
        'member_nmin': implies(ok, r._real._exp > nmin),
        'member_range': implies(ok, not mag_lt_ec(mv_exp, mv_c, r._real._exp, r._real._c)),
        # K4 beyond range, by overflow mode
        'ovf_inf_enabled': implies(arm_inf and self.enable_inf, r._isinf and not r._isnan and r._real._s == s),
        'ovf_inf_subst': implies(arm_inf and not self.enable_inf,
                                 (r._real._s == (s if inf_signed else self.inf_value._real._s))
                                 and r._real._exp == self.inf_value._real._exp
                                 and r._real._c == self.inf_value._real._c and r._isnan == self.inf_value._isnan
                                 and r._isinf == self.inf_value._isinf) if self.inf_value is not None else True,
        'ovf_max': implies(arm_max, fl_finite(r) and (r._real._s == s or mv_c == 0) and r._real._exp == mv_exp and r._real._c == mv_c),
        'ovf_flag_overflow': implies(ovf, r._real._flags.overflow),
        'ovf_flag_inexact': implies(ovf, r._real._flags.inexact),
    }
    return out


def bounded_raises(self, x, exact, R, rto, rte):
    nan = op_nan(x)
    inf = op_inf(x)
    xr = op_real(x)
    nz = op_nonzero(x)
    s = xr._s
    mv_exp = ite(s, self.neg_maxval._exp, self.pos_maxval._exp)
    mv_c = ite(s, self.neg_maxval._c, self.pos_maxval._c)
    ovf = nz and mag_lt_ec(mv_exp, mv_c, R[0], R[1])
    om = self.overflow.name
    arm_inf = ovf and om == 'OVERFLOW' and ovf_to_inf(self.rm, s, rto, rte)
    return {
        'ValueError': (nan and not self.enable_nan and self.nan_value is None)
                      or (inf and not self.enable_inf and self.inf_value is None)
                      or (nz and exact and (R[2] or ovf))
                      or (arm_inf and not exact and not self.enable_inf and self.inf_value is None),
        'OverflowError': ovf and not exact and om == 'ASSERT',
    }


def mpb_nmin(self):
    # emin - pmax, read from the format object as the code does (the invariant makes both views equal)
    return self._fmt.emin - self._fmt.pmax


def mpb_R(self, x, n):
    nn = mpb_nmin(self) if n is None else max2(n, mpb_nmin(self))
    return rnd_at(op_real(x), self.pmax, round_nstar(op_real(x), self.pmax, nn), self.rm)


def mpb_post(self, x, n, exact, r):
    return bounded_post(self, x, n, r, mpb_R(self, x, n), mpb_nmin(self), self.pmax, True, True, True, True)


def mpb_raises(self, x, n, exact):
    return bounded_raises(self, x, exact, mpb_R(self, x, n), True, True)


# ---------------------------------------------------------------------------
# MPFixed family: F(nmin) = { m * 2^q : q > nmin } (+ -0 iff enable_neg_zero)

def mpx_post(self, x, n, exact, r):
    nan = op_nan(x)
    inf = op_inf(x)
    xr = op_real(x)
    fin = not nan and not inf
    nz = fin and xr._c != 0
    R = mpx_R(self, x, n)
    return {
        'ctx': same_obj(r._ctx, self),
        # K5 special values (NaN keeps the operand's sign; substitutes are copied as configured)
        'nan_enabled': implies(nan and self.enable_nan, r._isnan and not r._isinf and r._real._s == xr._s),
        'nan_subst': (same_real(r._real, self.nan_value._real) and r._isnan == self.nan_value._isnan
                      and r._isinf == self.nan_value._isinf) if (nan and not self.enable_nan and self.nan_value is not None) else True,
        'inf_enabled': implies(inf and self.enable_inf, r._isinf and not r._isnan and r._real._s == xr._s),
        'inf_subst': (same_real(r._real, self.inf_value._real) and r._isnan == self.inf_value._isnan
                      and r._isinf == self.inf_value._isinf) if (inf and not self.enable_inf and self.inf_value is not None) else True,
        # K2 zero keeps its sign iff the format has a negative zero; no flags
        'zero': implies(fin and xr._c == 0, fl_finite(r) and r._real._c == 0
                        and r._real._s == (xr._s and self.enable_neg_zero) and flags_clear(r._real)),
        # K2/K3 finite nonzero
        'finite': implies(nz, fl_finite(r)),
        'sign': implies(nz, r._real._s == (xr._s and (self.enable_neg_zero or R[1] != 0))),
        'exp': implies(nz, r._real._exp == R[0]),
        'c': implies(nz, r._real._c == R[1]),
        'inexact': implies(nz, r._real._flags.inexact == R[2]),
        'no_overflow': implies(nz, not r._real._flags.overflow),
        # K1 member of the format
        'member_n': implies(nz, r._real._exp > n) if n is not None else True,
        'member_nmin': implies(nz, r._real._exp > self.nmin),
        'member_neg_zero': implies(nz and r._real._c == 0 and not self.enable_neg_zero, not r._real._s),
    }


def mpx_raises(self, x, n, exact):
    nan = op_nan(x)
    inf = op_inf(x)
    return {
        'ValueError': (nan and not self.enable_nan and self.nan_value is None)
                      or (inf and not self.enable_inf and self.inf_value is None)
                      or (op_nonzero(x) and exact and mpx_R(self, x, n)[2]),
    }


# ---------------------------------------------------------------------------
# MPBFixed family: MPFixed(nmin) cut off at neg_maxval .. pos_maxval (neg_maxval <= 0 <= pos_maxval)

def fx_ord_mag(exp, c, nmin):
    """|ordinal| of c * 2^exp on the grid 2^(nmin+1) Z (exact for members)"""
    off = exp - (nmin + 1)
    return ite(c == 0, 0, (c * pow2(off)) if off >= 0 else fdiv(c, pow2(0 - off)))


def fx_ord(s, exp, c, nmin):
    return ite(s, 0 - fx_ord_mag(exp, c, nmin), fx_ord_mag(exp, c, nmin))


@invariant('fpy2.number.context.mpb_fixed:MPBFixedContext')
def inv_MPBFixedContext(k):
    f = k._fmt
    return ((k.pos_maxval._c == 0 or not k.pos_maxval._s) and (k.neg_maxval._c == 0 or k.neg_maxval._s)
            and f.nmin == k.nmin
            and f.enable_nan == k.enable_nan and f.enable_inf == k.enable_inf
            and same_real(f.pos_maxval, k.pos_maxval) and same_real(f.neg_maxval, k.neg_maxval)
            and f._mp_fmt.nmin == k.nmin and f._mp_fmt.enable_neg_zero == k.enable_neg_zero
            and f._mp_fmt.enable_nan == k.enable_nan and f._mp_fmt.enable_inf == k.enable_inf
            )


def mpbx_ordinals(k):
    """derived fields of MPBFixedFormat (set by its constructor): ordinals of the two largest values, both members"""
    f = k._fmt
    return (f._pos_maxval_ord == fx_ord(k.pos_maxval._s, k.pos_maxval._exp, k.pos_maxval._c, k.nmin)
            and f._neg_maxval_ord == fx_ord(k.neg_maxval._s, k.neg_maxval._exp, k.neg_maxval._c, k.nmin)
            and on_grid(k.pos_maxval, k.nmin) and on_grid(k.neg_maxval, k.nmin))


def mpbx_post(self, x, n, exact, r):
    R = mpx_R(self, x, n)
    out = bounded_post(self, x, n, r, R, self.nmin, None, True, True, False, self.enable_neg_zero)
    # K4 WRAP: the member whose ordinal is congruent to the unbounded result's ordinal modulo the number of members
    xr = op_real(x)
    s = xr._s
    mv_exp = ite(s, self.neg_maxval._exp, self.pos_maxval._exp)
    mv_c = ite(s, self.neg_maxval._c, self.pos_maxval._c)
    arm_wrap = op_nonzero(x) and mag_lt_ec(mv_exp, mv_c, R[0], R[1]) and self.overflow.name == 'WRAP'
    lo = fx_ord(self.neg_maxval._s, self.neg_maxval._exp, self.neg_maxval._c, self.nmin)
    hi = fx_ord(self.pos_maxval._s, self.pos_maxval._exp, self.pos_maxval._c, self.nmin)
    W = ite(r._real._s, 0 - r._real._c, r._real._c)
    # not stated: W == lo + (ord(R) - lo) mod (hi - lo + 1)  (modulus is symbolic and not a power of two: solver unknown)
    out.update({
        'wrap_member': implies(arm_wrap, fl_finite(r) and (r._real._c == 0 or r._real._exp == self.nmin + 1)),
        'wrap_range': implies(arm_wrap, lo <= W and W <= hi),
    })
    return out


def mpbx_raises(self, x, n, exact):
    return bounded_raises(self, x, exact, mpx_R(self, x, n), True, True)


# ---------------------------------------------------------------------------
# ExpContext: members are NaN and 2^k, emin <= k <= emax (one digit of precision); no zero, no negatives, no infinity

@invariant('fpy2.number.context.exponential:ExpContext')
def inv_ExpContext(k):
    # the constructor rejects the other overflow modes; emin = eoffset - (2^(nbits-1) - 1) <= emax = eoffset + 2^(nbits-1) - 1
    return (k.overflow.name == 'OVERFLOW' or k.overflow.name == 'SATURATE') and k._fmt._emin <= k._fmt._emax


def exp_R(self, x, n):
    return rnd_at(op_real(x), 1, round_nstar(op_real(x), 1, n), self.rm)


def exp_post(self, x, n, exact, r):
    nan = op_nan(x)
    inf = op_inf(x)
    xr = op_real(x)
    fin = not nan and not inf
    R = exp_R(self, x, n)
    pos = fin and xr._c != 0 and not xr._s and R[1] != 0
    e = R[0] + bl(R[1]) - 1
    emin = self._fmt._emin
    emax = self._fmt._emax
    under = pos and e < emin
    over = pos and e > emax
    ok = pos and not under and not over
    nm = self.rm.name
    om = self.overflow.name
    toinf = ovf_to_inf(self.rm, False, False, True)
    isnan = r._isnan and not r._isinf
    return {
        'ctx': same_obj(r._ctx, self),
        # K5: NaN is a member; infinity is not (substitute or NaN); zero and negative values have no neighbour: NaN
        'nan': implies(nan, isnan),
        'inf_subst': (same_real(r._real, self.inf_value._real) and r._isnan == self.inf_value._isnan
                      and r._isinf == self.inf_value._isinf) if (inf and self.inf_value is not None) else True,
        'inf_nan': implies(inf, isnan) if self.inf_value is None else True,
        'nonpositive': implies(fin and not pos, isnan),
        # K2/K3 within the exponent range
        'finite': implies(ok, fl_finite(r)),
        'sign': implies(ok, not r._real._s),
        'exp': implies(ok, r._real._exp == R[0]),
        'c': implies(ok, r._real._c == R[1]),
        'inexact': implies(ok, r._real._flags.inexact == R[2]),
        'no_overflow': implies(ok, not r._real._flags.overflow),
        # K1 member: a power of two within [emin, emax]
        'member': implies(fin and fl_finite(r), r._real._c == 1 and not r._real._s
                          and emin <= r._real._exp and r._real._exp <= emax),
        'never_inf': implies(fin, not r._isinf),
        # K4 above the largest value
        'over_max': implies(over and (om == 'SATURATE' or not toinf), fl_finite(r) and r._real._exp == emax and r._real._c == 1),
        'over_inf': implies(over and om == 'OVERFLOW' and toinf, isnan),
        'over_flag_overflow': implies(over, r._real._flags.overflow),
        'over_flag_inexact': implies(over, r._real._flags.inexact),
        # below the smallest value: the two neighbours are "zero" (not a member: NaN) and minval
        'under_neighbour': implies(under, isnan or (fl_finite(r) and r._real._exp == emin and r._real._c == 1)),
        'under_sat': implies(under and om == 'SATURATE', fl_finite(r)),
        'under_towards_zero': implies(under and om == 'OVERFLOW' and (nm == 'RTZ' or nm == 'RTN'), isnan),
        'under_away': implies(under and om == 'OVERFLOW' and (nm == 'RAZ' or nm == 'RTP'), fl_finite(r)),
        'under_flag_overflow': implies(under, r._real._flags.overflow),
        'under_flag_inexact': implies(under, r._real._flags.inexact),
    }


def exp_raises(self, x, n, exact):
    xr = op_real(x)
    R = exp_R(self, x, n)
    pos = op_nonzero(x) and not xr._s and R[1] != 0
    e = R[0] + bl(R[1]) - 1
    return {
        'ValueError': exact and ((op_nonzero(x) and R[2])
                                 or (pos and (e < self._fmt._emin or e > self._fmt._emax))),
    }


# ---------------------------------------------------------------------------
# RealContext: every real, infinity and NaN is a member; rounding is the identity

def real_post(self, x, r):
    xr = op_real(x)
    return {
        'ctx': same_obj(r._ctx, self),
        'nan': r._isnan == op_nan(x),
        'inf': r._isinf == op_inf(x),
        'value': same_real(r._real, xr),
        'flags': r._real._flags._flags == xr._flags._flags,
    }
