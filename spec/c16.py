"""
Spec functions for property C16: value sets of the number formats, their
ordinal maps and their published bit layouts.

Everything is written from the format definitions (not from the code):
a finite value is a triple (s, exp, c) denoting (-1)^s * c * 2^exp.
"""
from speclib import *
from spec.real import *
from spec.floats import *


# ---------------------------------------------------------------------------
# operands: RealFloat or Float

def real_of(x):
    return x._real if cls_name(x) == 'Float' else x


def x_isnan(x):
    return cls_name(x) == 'Float' and x._isnan


def x_isinf(x):
    return cls_name(x) == 'Float' and x._isinf and not x._isnan


def x_finite(x):
    return not x_isnan(x) and not x_isinf(x)


def fork(c):
    """forks the verification path on condition c (a proof-structuring device; no meaning natively)"""
    out = {}
    if c:
        out.update({})
    return c


def sgn(s, mag):
    return ite(s, -mag, mag)


def val_at(xr, e0):
    """|x| in units of 2^e0 when x is a multiple of 2^e0 (exact); floor otherwise"""
    off = xr._exp - e0
    return (xr._c * pow2(off)) if off >= 0 else fdiv(xr._c, pow2(-off))


def mult_of(xr, e0):
    """x is an integer multiple of 2^e0"""
    off = e0 - xr._exp
    return True if off <= 0 else fmod(xr._c, pow2(off)) == 0


# ---------------------------------------------------------------------------
# MPFixedFormat(nmin, enable_nan, enable_inf, enable_neg_zero):
#   finite members = integer multiples of 2^(nmin+1); -0 only when enabled

def fx_expmin(fmt):
    return fmt.nmin + 1


def fx_fin_member(fmt, xr):
    """finite (s, exp, c) is a member of the MP fixed-point value set"""
    return ite(xr._c == 0, (not xr._s) or fmt.enable_neg_zero, mult_of(xr, fx_expmin(fmt)))


def fx_inF(fmt, x):
    xr = real_of(x)
    return ite(x_isnan(x), fmt.enable_nan, ite(x_isinf(x), fmt.enable_inf, fx_fin_member(fmt, xr)))


def fx_ord(fmt, xr):
    """ordinal of a finite member: the signed value in units of 2^(nmin+1)"""
    return sgn(xr._s, val_at(xr, fx_expmin(fmt)))


# ---------------------------------------------------------------------------
# MPSFloatFormat(pmax, emin, enable_nan, enable_inf): floating point with pmax digits and
# gradual underflow.  Finite members: +/-0 and every (-1)^s * C * 2^E with E >= expmin
# (= emin - pmax + 1), 0 < C < 2^pmax.  The canonical pair (E, C) of a member has
# E = max(e - pmax + 1, expmin) (so C >= 2^(pmax-1) whenever E > expmin) and its ordinal is
# (E - expmin) * 2^(pmax-1) + C: subnormals count 1 .. 2^(pmax-1)-1, then every binade holds
# 2^(pmax-1) members.

def mps_expmin(fmt):
    return fmt.emin - fmt.pmax + 1


def fits_p(c, p):
    """c = m * 2^t with bl(m) <= p (the significant digits of c fit in p digits)"""
    over = bl(c) - p
    return True if over <= 0 else fmod(c, pow2(over)) == 0


def mps_fin_member(fmt, xr):
    return xr._c == 0 or (fits_p(xr._c, fmt.pmax) and mult_of(xr, mps_expmin(fmt)))


def mps_inF(fmt, x):
    return ite(x_isnan(x), fmt.enable_nan, ite(x_isinf(x), fmt.enable_inf, mps_fin_member(fmt, real_of(x))))


def mps_canon_exp(fmt, xr):
    """exponent of the canonical representation of a non-zero member"""
    en = e_of(xr) - fmt.pmax + 1
    return en if en >= mps_expmin(fmt) else mps_expmin(fmt)


def mps_ord_mag(fmt, xr):
    """ordinal of |x| for a finite member x"""
    E = mps_canon_exp(fmt, xr)
    return ite(xr._c == 0, 0, (E - mps_expmin(fmt)) * pow2(fmt.pmax - 1) + val_at(xr, E))


def mps_ord(fmt, xr):
    return sgn(xr._s, mps_ord_mag(fmt, xr))


def mps_canonical(fmt, xr):
    """(s, exp, c) is the canonical representation of a finite member"""
    return ite(xr._c == 0, xr._exp == mps_expmin(fmt),
               xr._exp >= mps_expmin(fmt) and xr._c < pow2(fmt.pmax)
               and (xr._exp == mps_expmin(fmt) or xr._c >= pow2(fmt.pmax - 1)))


# ---------------------------------------------------------------------------
# MPBFixedFormat(nmin, pos_maxval, neg_maxval, ...): the MP fixed-point members v with
# neg_maxval <= v <= pos_maxval (plus NaN / infinities by the enable flags)

@invariant('fpy2.number.context.mpb_fixed:MPBFixedFormat')
def inv_MPBFixedFormat(f):
    """established by MPBFixedFormat.__init__ (contract MPBFixedFormat___init__)"""
    return (f._mp_fmt.nmin == f.nmin and f._mp_fmt.enable_nan == f.enable_nan and f._mp_fmt.enable_inf == f.enable_inf
            and (f.pos_maxval._c == 0 or not f.pos_maxval._s)
            and (f.neg_maxval._c == 0 or f.neg_maxval._s))


def mpbfx_ords(f):
    """the cached ordinals of the bounds (also established by __init__; a precondition where it is used)"""
    return (mult_of(f.pos_maxval, f.nmin + 1) and mult_of(f.neg_maxval, f.nmin + 1)
            and f._pos_maxval_ord == fx_ord(f._mp_fmt, f.pos_maxval)
            and f._neg_maxval_ord == fx_ord(f._mp_fmt, f.neg_maxval))


def in_bounds(xr, lo, hi):
    """lo <= x <= hi as real numbers"""
    return not dy_lt(xr, lo) and not dy_lt(hi, xr)


def mpbfx_inF(fmt, x):
    xr = real_of(x)
    return fx_inF(fmt._mp_fmt, x) and (not x_finite(x) or xr._c == 0 or in_bounds(xr, fmt.neg_maxval, fmt.pos_maxval))
