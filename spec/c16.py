"""
Spec functions for property C16: value sets of the number formats, their
ordinal maps and their published bit layouts.

Everything is written from the format definitions (not from the code):
a finite value is a triple (s, exp, c) denoting (-1)^s * c * 2^exp.
"""
from speclib import *
from spec.real import *
from spec.floats import *


# ---------------------------------------------------------------------------
# operands: RealFloat or Float

def real_of(x):
    return x._real if cls_name(x) == 'Float' else x


def x_isnan(x):
    return cls_name(x) == 'Float' and x._isnan


def x_isinf(x):
    return cls_name(x) == 'Float' and x._isinf and not x._isnan


def x_finite(x):
    return not x_isnan(x) and not x_isinf(x)


def fork(c):
    """forks the verification path on condition c (a proof-structuring device; no meaning natively)"""
    out = {}
    if c:
        out.update({})
    return c


def sgn(s, mag):
    return ite(s, -mag, mag)


def val_at(xr, e0):
    """|x| in units of 2^e0 when x is a multiple of 2^e0 (exact); floor otherwise"""
    off = xr._exp - e0
    return (xr._c * pow2(off)) if off >= 0 else fdiv(xr._c, pow2(-off))


def mult_of(xr, e0):
    """x is an integer multiple of 2^e0"""
    off = e0 - xr._exp
    return True if off <= 0 else fmod(xr._c, pow2(off)) == 0


# ---------------------------------------------------------------------------
# MPFixedFormat(nmin, enable_nan, enable_inf, enable_neg_zero):
#   finite members = integer multiples of 2^(nmin+1); -0 only when enabled

def fx_expmin(fmt):
    return fmt.nmin + 1


def fx_fin_member(fmt, xr):
    """finite (s, exp, c) is a member of the MP fixed-point value set"""
    return ite(xr._c == 0, (not xr._s) or fmt.enable_neg_zero, mult_of(xr, fx_expmin(fmt)))


def fx_inF(fmt, x):
    xr = real_of(x)
    return ite(x_isnan(x), fmt.enable_nan, ite(x_isinf(x), fmt.enable_inf, fx_fin_member(fmt, xr)))


def fx_ord(fmt, xr):
    """ordinal of a finite member: the signed value in units of 2^(nmin+1)"""
    return sgn(xr._s, val_at(xr, fx_expmin(fmt)))


# ---------------------------------------------------------------------------
# MPSFloatFormat(pmax, emin, enable_nan, enable_inf): floating point with pmax digits and
# gradual underflow.  Finite members: +/-0 and every (-1)^s * C * 2^E with E >= expmin
# (= emin - pmax + 1), 0 < C < 2^pmax.  The canonical pair (E, C) of a member has
# E = max(e - pmax + 1, expmin) (so C >= 2^(pmax-1) whenever E > expmin) and its ordinal is
# (E - expmin) * 2^(pmax-1) + C: subnormals count 1 .. 2^(pmax-1)-1, then every binade holds
# 2^(pmax-1) members.

def mps_expmin(fmt):
    return fmt.emin - fmt.pmax + 1


def fits_p(c, p):
    """c = m * 2^t with bl(m) <= p (the significant digits of c fit in p digits)"""
    over = bl(c) - p
    return True if over <= 0 else fmod(c, pow2(over)) == 0


def mps_fin_member(fmt, xr):
    return xr._c == 0 or (fits_p(xr._c, fmt.pmax) and mult_of(xr, mps_expmin(fmt)))


def mps_inF(fmt, x):
    return ite(x_isnan(x), fmt.enable_nan, ite(x_isinf(x), fmt.enable_inf, mps_fin_member(fmt, real_of(x))))


def mps_canon_exp(fmt, xr):
    """exponent of the canonical representation of a non-zero member"""
    en = e_of(xr) - fmt.pmax + 1
    return en if en >= mps_expmin(fmt) else mps_expmin(fmt)


def mps_ord_mag(fmt, xr):
    """ordinal of |x| for a finite member x"""
    E = mps_canon_exp(fmt, xr)
    return ite(xr._c == 0, 0, (E - mps_expmin(fmt)) * pow2(fmt.pmax - 1) + val_at(xr, E))


def mps_ord(fmt, xr):
    return sgn(xr._s, mps_ord_mag(fmt, xr))


def mps_canonical(fmt, xr):
    """(s, exp, c) is the canonical representation of a finite member"""
    return ite(xr._c == 0, xr._exp == mps_expmin(fmt),
               xr._exp >= mps_expmin(fmt) and xr._c < pow2(fmt.pmax)
               and (xr._exp == mps_expmin(fmt) or xr._c >= pow2(fmt.pmax - 1)))


# ---------------------------------------------------------------------------
# MPBFixedFormat(nmin, pos_maxval, neg_maxval, ...): the MP fixed-point members v with
# neg_maxval <= v <= pos_maxval (plus NaN / infinities by the enable flags)

@invariant('fpy2.number.context.mpb_fixed:MPBFixedFormat')
def inv_MPBFixedFormat(f):
    """established by MPBFixedFormat.__init__ (contract MPBFixedFormat___init__)"""
    return (f._mp_fmt.nmin == f.nmin and f._mp_fmt.enable_nan == f.enable_nan and f._mp_fmt.enable_inf == f.enable_inf
            and (f.pos_maxval._c == 0 or not f.pos_maxval._s)
            and (f.neg_maxval._c == 0 or f.neg_maxval._s))


def mpbfx_ords(f):
    """the cached ordinals of the bounds (also established by __init__; a precondition where it is used)"""
    return (mult_of(f.pos_maxval, f.nmin + 1) and mult_of(f.neg_maxval, f.nmin + 1)
            and f._pos_maxval_ord == fx_ord(f._mp_fmt, f.pos_maxval)
            and f._neg_maxval_ord == fx_ord(f._mp_fmt, f.neg_maxval))


def in_bounds(xr, lo, hi):
    """lo <= x <= hi as real numbers"""
    return not dy_lt(xr, lo) and not dy_lt(hi, xr)


def mpbfx_inF(fmt, x):
    xr = real_of(x)
    return fx_inF(fmt._mp_fmt, x) and (not x_finite(x) or xr._c == 0 or in_bounds(xr, fmt.neg_maxval, fmt.pos_maxval))


# ---------------------------------------------------------------------------
# FixedFormat(signed, scale, nbits): two's complement words of nbits bits scaled by 2^scale.
# SMFixedFormat(scale, nbits): sign bit | (nbits-1)-bit magnitude, scaled by 2^scale.

def fixed_bounds_inv(f, pos_c, neg_c):
    return (inv_MPBFixedFormat(f) and f.nmin == f.scale - 1 and not f.enable_nan and not f.enable_inf
            and not f.pos_maxval._s and f.pos_maxval._exp == f.scale and f.pos_maxval._c == pos_c
            and f.neg_maxval._exp == f.scale and f.neg_maxval._c == neg_c and (f.neg_maxval._s or neg_c == 0))


@invariant('fpy2.number.context.fixed:FixedFormat')
def inv_FixedFormat(f):
    """established by FixedFormat.__init__ / _fixed_to_mpb_fixed"""
    return (ite(f.signed, f.nbits >= 2, f.nbits >= 1) and not f._mp_fmt.enable_neg_zero
            and fixed_bounds_inv(f, ite(f.signed, pow2(f.nbits - 1) - 1, pow2(f.nbits) - 1),
                                 ite(f.signed, pow2(f.nbits - 1), 0)))


@invariant('fpy2.number.context.sm_fixed:SMFixedFormat')
def inv_SMFixedFormat(f):
    """established by SMFixedFormat.__init__"""
    return (f.nbits >= 2 and f._mp_fmt.enable_neg_zero
            and fixed_bounds_inv(f, pow2(f.nbits - 1) - 1, pow2(f.nbits - 1) - 1))


def tc_int(fmt, b):
    """the integer a two's complement word 0 <= b < 2^nbits stands for (unsigned: b itself)"""
    return ite(fmt.signed and b >= pow2(fmt.nbits - 1), b - pow2(fmt.nbits), b)


def tc_lo(fmt):
    return ite(fmt.signed, -pow2(fmt.nbits - 1), 0)


def tc_hi(fmt):
    return ite(fmt.signed, pow2(fmt.nbits - 1) - 1, pow2(fmt.nbits) - 1)


def fixed_inF(fmt, x):
    """finite, k * 2^scale with k in the two's complement range, no negative zero"""
    xr = x._real
    k = sgn(xr._s, val_at(xr, fmt.scale))
    return (fl_finite(x) and mult_of(xr, fmt.scale) and (xr._c != 0 or not xr._s)
            and tc_lo(fmt) <= k and k <= tc_hi(fmt))


def sm_sign(fmt, b):
    return b >= pow2(fmt.nbits - 1)


def sm_mag(fmt, b):
    return fmod(b, pow2(fmt.nbits - 1))


def smfixed_inF(fmt, x):
    """finite, +/- k * 2^scale with 0 <= k < 2^(nbits-1) (both zeros)"""
    xr = x._real
    return fl_finite(x) and mult_of(xr, fmt.scale) and val_at(xr, fmt.scale) <= pow2(fmt.nbits - 1) - 1


# ---------------------------------------------------------------------------
# EFloatFormat(es, nbits, enable_inf, nan_kind, eoffset): sign | es exponent bits | m = nbits-es-1 mantissa bits
# (https://uwplse.org/2025/02/17/Small-Floats.html).  p = nbits - es digits; bias0 = 2^(es-1) - 1 (0 for es = 0),
# emin = 1 - bias0 + eoffset, expmin = emin - p + 1.  Exponent field 0: (mantissa) * 2^expmin; otherwise
# (2^m + mantissa) * 2^(expmin + field - 1).  The top codes are taken by NaN / infinity as nan_kind says.

def ef_p(f):
    return f.nbits - f.es


def ef_m(f):
    return f.nbits - f.es - 1


def ef_emin(f):
    return ite(f.es == 0, 1, 2 - pow2(f.es - 1)) + f.eoffset if f.es >= 1 else 1 + f.eoffset


def ef_expmin(f):
    return ef_emin(f) - ef_p(f) + 1


def ef_valid(f):
    """the configurations EFloatFormat.__init__ accepts (_format_is_valid)"""
    p = f.nbits - f.es
    nk = f.nan_kind.name
    return (f.nbits >= 1 and f.es >= 0 and f.es < f.nbits
            and implies(nk == 'IEEE_754', f.es != 0 and not (f.enable_inf and p == 1))
            and implies(nk == 'MAX_VAL', not (f.es == 0 and (p == 1 or (f.enable_inf and p == 2)))
                        and not (f.es == 1 and f.enable_inf and p == 1))
            and implies(nk == 'NEG_ZERO' or nk == 'NONE', not (f.es == 0 and p == 1 and f.enable_inf)))


def ef_has_nonzero(f):
    nk = f.nan_kind.name
    return f.nbits > 2 or (f.nbits == 2 and not f.enable_inf and (nk == 'NEG_ZERO' or nk == 'NONE'))


@invariant('fpy2.number.context.mpb_float:MPBFloatFormat')
def inv_MPBFloatFormat(f):
    """established by MPBFloatFormat.__init__"""
    return (f.pmax >= 1 and f._mps_fmt.pmax == f.pmax and f._mps_fmt.emin == f.emin
            and f._mps_fmt.enable_nan == f.enable_nan and f._mps_fmt.enable_inf == f.enable_inf)


@invariant('fpy2.number.context.efloat:EFloatFormat')
def inv_EFloatFormat(f):
    """established by EFloatFormat.__init__ (_format_is_valid, _ext_to_mpb_fmt, _has_nonzero)"""
    return (ef_valid(f) and f._mpb_fmt.pmax == ef_p(f) and f._mpb_fmt.emin == ef_emin(f)
            and f._mpb_fmt.enable_nan and f._mpb_fmt.enable_inf
            and f._has_nonzero == ef_has_nonzero(f))


def ef_sbit(f, b):
    return b >= pow2(f.nbits - 1)


def ef_ebits(f, b):
    return fmod(fdiv(b, pow2(ef_m(f))), pow2(f.es))


def ef_mbits(f, b):
    return fmod(b, pow2(ef_m(f)))


def ef_ordbits(f, b):
    """the word without its sign bit, composed from its fields"""
    return ef_ebits(f, b) * pow2(ef_m(f)) + ef_mbits(f, b)


def ef_is_nan(f, b):
    nk = f.nan_kind.name
    top = pow2(f.nbits - 1) - 1
    return ite(nk == 'IEEE_754', ef_ebits(f, b) == pow2(f.es) - 1 and not (f.enable_inf and ef_mbits(f, b) == 0),
           ite(nk == 'MAX_VAL', ef_ordbits(f, b) == top,
           ite(nk == 'NEG_ZERO', ef_sbit(f, b) and ef_ordbits(f, b) == 0 and not (f.enable_inf and top == 0),
               False)))


def ef_is_inf(f, b):
    nk = f.nan_kind.name
    top = pow2(f.nbits - 1) - 1
    return f.enable_inf and ite(nk == 'IEEE_754', ef_ebits(f, b) == pow2(f.es) - 1 and ef_mbits(f, b) == 0,
                            ite(nk == 'MAX_VAL', ef_ordbits(f, b) == top - 1,
                                ef_ordbits(f, b) == top))


def ef_has_nan(f):
    """some bit pattern is a NaN"""
    return f.nan_kind.name != 'NONE'
