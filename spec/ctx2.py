"""
Spec functions for the context layer, wave 2 (property C01): the EFloat family (EFloatContext / IEEEContext),
the fixed-width layers (FixedContext / SMFixedContext), the constructors that establish the class
invariants of spec/ctx.py, Context._round_prepare.

EFloat format F(es, nbits, enable_inf, nan_kind, eoffset) (https://uwplse.org/2025/02/17/Small-Floats.html):
sign | es exponent bits | m = nbits - es - 1 mantissa bits; p = nbits - es digits; the finite values are the
codes (e, mb), 0 <= e < 2^es, 0 <= mb < 2^m in lexicographic order, value (mb) * 2^expmin for e = 0 and
(2^m + mb) * 2^(expmin + e - 1) otherwise, MINUS the top codes that nan_kind / enable_inf reserve:
IEEE_754 the whole top exponent, MAX_VAL the top code (NaN), enable_inf one more code below (not for IEEE_754,
where infinity lives in the reserved exponent); NEG_ZERO puts NaN on the -0 word; NONE has no NaN.
"""
from speclib import *
from spec.real import *
from spec.floats import *
from spec.ctx import *
from spec.c16 import ef_p, ef_m, ef_emin, ef_expmin, ef_valid, ef_has_nonzero


# ---------------------------------------------------------------------------
# the largest finite code of an EFloat format, by stepping down from the top code

def code_pred_e(e, mb):
    return ite(mb > 0, e, e - 1)


def code_pred_mb(mb, m):
    return ite(mb > 0, mb - 1, pow2(m) - 1)


def ef2_reserved(enable_inf, nk):
    """number of top codes taken by NaN / infinity (nan kinds other than IEEE_754)"""
    return ite(nk == 'MAX_VAL', 1, 0) + ite(enable_inf, 1, 0)


def ef2_max_e(es, m, enable_inf, nk):
    """exponent field of the largest finite code"""
    e0 = pow2(es) - 1
    mb0 = pow2(m) - 1
    e1 = code_pred_e(e0, mb0)
    mb1 = code_pred_mb(mb0, m)
    e2 = code_pred_e(e1, mb1)
    r = ef2_reserved(enable_inf, nk)
    return ite(nk == 'IEEE_754', e0 - 1, ite(r == 0, e0, ite(r == 1, e1, e2)))


def ef2_max_mb(es, m, enable_inf, nk):
    """mantissa field of the largest finite code"""
    mb0 = pow2(m) - 1
    mb1 = code_pred_mb(mb0, m)
    mb2 = code_pred_mb(mb1, m)
    r = ef2_reserved(enable_inf, nk)
    return ite(nk == 'IEEE_754', mb0, ite(r == 0, mb0, ite(r == 1, mb1, mb2)))


def ef2_valid(es, nbits, enable_inf, nk):
    """a format exists: the field widths make sense, at least the zero code is finite, and in IEEE_754 both
    infinity and NaN fit into the reserved top exponent"""
    m = nbits - es - 1
    return (nbits >= 1 and es >= 0 and es < nbits
            and ((ef2_max_e(es, m, enable_inf, nk) >= 0) if (nbits >= 1 and es >= 0 and es < nbits) else False)
            and not (nk == 'IEEE_754' and enable_inf and m == 0))


def ef2_emin(es, eoffset):
    return (2 - pow2(es - 1) + eoffset) if es >= 1 else 1 + eoffset


def code_c(e, mb, m):
    return ite(e == 0, mb, pow2(m) + mb)


def code_exp(e, expmin):
    return ite(e == 0, expmin, expmin + e - 1)


# ---------------------------------------------------------------------------
# EFloatContext: rounds through the MPBFloatContext `_mpb_ctx` of the derived format and post-processes the
# special values the EFloat format lacks (`_fixup`)

@invariant('fpy2.number.context.efloat:EFloatContext')
def inv_EFloatContext(k):
    """established by EFloatContext.__init__ (contract EFloatContext___init__)"""
    return ef2_ctx_inv(k)


def ef2_fmt_maxval_ok(f):
    """EFloatFormat: the derived bounds are symmetric and the largest value is a member of the derived
    (p, emin) format; established by EFloatFormat.__init__ (contract EFloatFormat___init__)"""
    b = f._mpb_fmt
    pm = b.pos_maxval
    nm = b.neg_maxval
    return (nm._s and not pm._s and nm._exp == pm._exp and nm._c == pm._c
            and (pm._c == 0 or (fits_p(pm._c, b.pmax) and on_grid(pm, b.emin - b.pmax) and f._has_nonzero)))


def ef2_ctx_inv(k):
    f = k._fmt
    b = k._mpb_ctx
    return (f.es == k.es and f.nbits == k.nbits and f.enable_inf == k.enable_inf
            and f.nan_kind.name == k.nan_kind.name and f.eoffset == k.eoffset
            and k.overflow.name != 'WRAP'
            and b.pmax == f._mpb_fmt.pmax and b.emin == f._mpb_fmt.emin
            and same_real(b.pos_maxval, f._mpb_fmt.pos_maxval) and same_real(b.neg_maxval, f._mpb_fmt.neg_maxval)
            and ef2_fmt_maxval_ok(f)
            and b.rm.name == k.rm.name and b.overflow.name == k.overflow.name
            and b.enable_nan and b.enable_inf)


def ef2_ctx_cfg(k):
    """the rest of what the constructor establishes (union-typed fields: stated as a precondition where needed)"""
    b = k._mpb_ctx
    return (b.nan_value is None and b.inf_value is None
            and ((b.num_randbits is None) if k.num_randbits is None
                 else (b.num_randbits is not None and b.num_randbits == k.num_randbits)))


def ef2_fin_member(k, v):
    """the finite Float v is a member of k's format (sign of a zero included)"""
    f = k._fmt._mpb_fmt
    vr = v._real
    return ite(vr._c == 0, not (vr._s and k.nan_kind.name == 'NEG_ZERO'),
               fits_p(vr._c, f.pmax) and on_grid(vr, f.emin - f.pmax)
               and not mag_lt_ec(f.pos_maxval._exp, f.pos_maxval._c, vr._exp, vr._c))


def ef2_member(k, v):
    """Float v is a member of k's format"""
    return ite(v._isnan, k.nan_kind.name != 'NONE', ite(v._isinf, k.enable_inf, ef2_fin_member(k, v)))


def ef2_member_signed(k, v, s):
    """Float v with its sign replaced by s is a member of k's format"""
    f = k._fmt._mpb_fmt
    vr = v._real
    return ite(v._isnan, k.nan_kind.name != 'NONE', ite(v._isinf, k.enable_inf,
               ite(vr._c == 0, not (s and k.nan_kind.name == 'NEG_ZERO'),
                   fits_p(vr._c, f.pmax) and on_grid(vr, f.emin - f.pmax)
                   and not mag_lt_ec(f.pos_maxval._exp, f.pos_maxval._c, vr._exp, vr._c))))


def ef2_maxval_is(r, k, s):
    """r is the largest finite value of sign s (as the format publishes it)"""
    f = k._fmt._mpb_fmt
    return (fl_finite(r) and r._real._s == s and r._real._exp == f.pos_maxval._exp and r._real._c == f.pos_maxval._c)


def ef2_subst_is(r, v, s):
    """r is the substitute v carrying the sign s"""
    return (r._real._s == s and r._real._exp == v._real._exp and r._real._c == v._real._c
            and r._isnan == v._isnan and r._isinf == v._isinf)


def ef2_fixup_post(self, x, r):
    """
    K5 special-value table of the EFloat family: what a NaN / an infinity / a negative zero becomes in a format
    that lacks it.  The flags of the operand are carried over in every row.
    """
    nk = self.nan_kind.name
    nan = x._isnan
    inf = x._isinf and not x._isnan
    s = x._real._s
    row_nan = nan and nk == 'NONE'
    row_inf = inf and not self.enable_inf
    row_nz = fl_finite(x) and x._real._c == 0 and s and nk == 'NEG_ZERO'
    keep = not row_nan and not row_inf and not row_nz
    return {
        # NaN in a format without NaN: the substitute as configured, else infinity, else the largest value
        'nan_subst': implies(row_nan, same_real(r._real, self.nan_value._real) and r._isnan == self.nan_value._isnan
                             and r._isinf == self.nan_value._isinf) if self.nan_value is not None else True,
        'nan_to_inf': implies(row_nan and self.enable_inf, is_inf_result(r, s)) if self.nan_value is None else True,
        'nan_to_max': implies(row_nan and not self.enable_inf, ef2_maxval_is(r, self, s)) if self.nan_value is None else True,
        # infinity in a format without infinity: the substitute with the operand's sign, else NaN, else the largest value
        'inf_subst': implies(row_inf, ef2_subst_is(r, self.inf_value, s)) if self.inf_value is not None else True,
        'inf_to_nan': implies(row_inf and nk != 'NONE', is_nan_result(r) and r._real._s == s) if self.inf_value is None else True,
        'inf_to_max': implies(row_inf and nk == 'NONE', ef2_maxval_is(r, self, s)) if self.inf_value is None else True,
        # -0 in a format whose -0 word is the NaN: +0
        'neg_zero': implies(row_nz, fl_finite(r) and r._real._c == 0 and not r._real._s and r._real._exp == x._real._exp),
        # everything else is untouched
        'keep': implies(keep, same_float(r, x)),
        'flags': r._real._flags._flags == x._real._flags._flags,
    }
