"""
Spec functions for the context layer, wave 2 (property C01): the EFloat family (EFloatContext / IEEEContext),
the fixed-width layers (FixedContext / SMFixedContext), the constructors that establish the class
invariants of spec/ctx.py, Context._round_prepare.

EFloat format F(es, nbits, enable_inf, nan_kind, eoffset) (https://uwplse.org/2025/02/17/Small-Floats.html):
sign | es exponent bits | m = nbits - es - 1 mantissa bits; p = nbits - es digits; the finite values are the
codes (e, mb), 0 <= e < 2^es, 0 <= mb < 2^m in lexicographic order, value (mb) * 2^expmin for e = 0 and
(2^m + mb) * 2^(expmin + e - 1) otherwise, MINUS the top codes that nan_kind / enable_inf reserve:
IEEE_754 the whole top exponent, MAX_VAL the top code (NaN), enable_inf one more code below (not for IEEE_754,
where infinity lives in the reserved exponent); NEG_ZERO puts NaN on the -0 word; NONE has no NaN.
"""
from speclib import *
from spec.real import *
from spec.floats import *
from spec.ctx import *
from spec.c16 import ef_p, ef_m, ef_emin, ef_expmin, ef_valid, ef_has_nonzero


# ---------------------------------------------------------------------------
# the largest finite code of an EFloat format, by stepping down from the top code

def code_pred_e(e, mb):
    return ite(mb > 0, e, e - 1)


def code_pred_mb(mb, m):
    return ite(mb > 0, mb - 1, pow2(m) - 1)


def ef2_reserved(enable_inf, nk):
    """number of top codes taken by NaN / infinity (nan kinds other than IEEE_754)"""
    return ite(nk == 'MAX_VAL', 1, 0) + ite(enable_inf, 1, 0)


def ef2_max_e(es, m, enable_inf, nk):
    """exponent field of the largest finite code"""
    e0 = pow2(es) - 1
    mb0 = pow2(m) - 1
    e1 = code_pred_e(e0, mb0)
    mb1 = code_pred_mb(mb0, m)
    e2 = code_pred_e(e1, mb1)
    r = ef2_reserved(enable_inf, nk)
    return ite(nk == 'IEEE_754', e0 - 1, ite(r == 0, e0, ite(r == 1, e1, e2)))


def ef2_max_mb(es, m, enable_inf, nk):
    """mantissa field of the largest finite code"""
    mb0 = pow2(m) - 1
    mb1 = code_pred_mb(mb0, m)
    mb2 = code_pred_mb(mb1, m)
    r = ef2_reserved(enable_inf, nk)
    return ite(nk == 'IEEE_754', mb0, ite(r == 0, mb0, ite(r == 1, mb1, mb2)))


def ef2_valid(es, nbits, enable_inf, nk):
    """a format exists: the field widths make sense, at least the zero code is finite, and in IEEE_754 both
    infinity and NaN fit into the reserved top exponent"""
    m = nbits - es - 1
    return (nbits >= 1 and es >= 0 and es < nbits
            and ((ef2_max_e(es, m, enable_inf, nk) >= 0) if (nbits >= 1 and es >= 0 and es < nbits) else False)
            and not (nk == 'IEEE_754' and enable_inf and m == 0))


def ef2_emin(es, eoffset):
    return (2 - pow2(es - 1) + eoffset) if es >= 1 else 1 + eoffset


def code_c(e, mb, m):
    return ite(e == 0, mb, pow2(m) + mb)


def code_exp(e, expmin):
    return ite(e == 0, expmin, expmin + e - 1)


# ---------------------------------------------------------------------------
# EFloatContext: rounds through the MPBFloatContext `_mpb_ctx` of the derived format and post-processes the
# special values the EFloat format lacks (`_fixup`)

@invariant('fpy2.number.context.efloat:EFloatContext')
def inv_EFloatContext(k):
    """established by EFloatContext.__init__ (contract EFloatContext___init__)"""
    return ef2_ctx_inv(k)


def grid_ok(exp, c, n):
    """c * 2^exp has no nonzero digit at or below position n (spec.real.on_grid on scalars)"""
    sh = n + 1 - exp
    return True if sh <= 0 else fmod(c, pow2(sh)) == 0


def ef2_fmt_maxval_ok(f):
    """EFloatFormat: the derived bounds are symmetric and the largest value is a member of the derived
    (p, emin) format; established by EFloatFormat.__init__ (contract EFloatFormat___init__)"""
    b = f._mpb_fmt
    pm = b.pos_maxval
    nm = b.neg_maxval
    return (nm._s and not pm._s and nm._exp == pm._exp and nm._c == pm._c
            and (pm._c == 0 or (fits_p(pm._c, b.pmax) and grid_ok(pm._exp, pm._c, b.emin - b.pmax) and f._has_nonzero)))


def ef2_ctx_inv(k):
    f = k._fmt
    b = k._mpb_ctx
    return (f.es == k.es and f.nbits == k.nbits and f.enable_inf == k.enable_inf
            and f.nan_kind.name == k.nan_kind.name and f.eoffset == k.eoffset
            and k.overflow.name != 'WRAP'
            and b.pmax == f._mpb_fmt.pmax and b.emin == f._mpb_fmt.emin
            and same_real(b.pos_maxval, f._mpb_fmt.pos_maxval) and same_real(b.neg_maxval, f._mpb_fmt.neg_maxval)
            and ef2_fmt_maxval_ok(f)
            and b.rm.name == k.rm.name and b.overflow.name == k.overflow.name
            and b.enable_nan and b.enable_inf)


def ef2_ctx_cfg(k):
    """the rest of what the constructor establishes (union-typed fields: stated as a precondition where needed)"""
    b = k._mpb_ctx
    return (b.nan_value is None and b.inf_value is None
            and ((b.num_randbits is None) if k.num_randbits is None
                 else (b.num_randbits is not None and b.num_randbits == k.num_randbits)))


def ef2_fin_member(k, v):
    """the finite Float v is a member of k's format (sign of a zero included)"""
    f = k._fmt._mpb_fmt
    vr = v._real
    return ite(vr._c == 0, not (vr._s and k.nan_kind.name == 'NEG_ZERO'),
               fits_p(vr._c, f.pmax) and grid_ok(vr._exp, vr._c, f.emin - f.pmax)
               and not mag_lt_ec(f.pos_maxval._exp, f.pos_maxval._c, vr._exp, vr._c))


def ef2_member(k, v):
    """Float v is a member of k's format"""
    return ite(v._isnan, k.nan_kind.name != 'NONE', ite(v._isinf, k.enable_inf, ef2_fin_member(k, v)))


def ef2_member_signed(k, v, s):
    """Float v with its sign replaced by s is a member of k's format"""
    f = k._fmt._mpb_fmt
    vr = v._real
    return ite(v._isnan, k.nan_kind.name != 'NONE', ite(v._isinf, k.enable_inf,
               ite(vr._c == 0, not (s and k.nan_kind.name == 'NEG_ZERO'),
                   fits_p(vr._c, f.pmax) and grid_ok(vr._exp, vr._c, f.emin - f.pmax)
                   and not mag_lt_ec(f.pos_maxval._exp, f.pos_maxval._c, vr._exp, vr._c))))


def ef2_maxval_is(r, k, s):
    """r is the largest finite value of sign s (as the format publishes it)"""
    f = k._fmt._mpb_fmt
    return (fl_finite(r) and r._real._s == s and r._real._exp == f.pos_maxval._exp and r._real._c == f.pos_maxval._c)


def ef2_subst_is(r, v, s):
    """r is the substitute v carrying the sign s"""
    return (r._real._s == s and r._real._exp == v._real._exp and r._real._c == v._real._c
            and r._isnan == v._isnan and r._isinf == v._isinf)


def ef2_fixup_post(self, x, r):
    """
    K5 special-value table of the EFloat family: what a NaN / an infinity / a negative zero becomes in a format
    that lacks it.  The flags of the operand are carried over in every row.
    """
    nk = self.nan_kind.name
    nan = x._isnan
    inf = x._isinf and not x._isnan
    s = x._real._s
    row_nan = nan and nk == 'NONE'
    row_inf = inf and not self.enable_inf
    row_nz = fl_finite(x) and x._real._c == 0 and s and nk == 'NEG_ZERO'
    keep = not row_nan and not row_inf and not row_nz
    return {
        # NaN in a format without NaN: the substitute as configured, else infinity, else the largest value
        'nan_subst': implies(row_nan, same_real(r._real, self.nan_value._real) and r._isnan == self.nan_value._isnan
                             and r._isinf == self.nan_value._isinf) if self.nan_value is not None else True,
        'nan_to_inf': implies(row_nan and self.enable_inf, is_inf_result(r, s)) if self.nan_value is None else True,
        'nan_to_max': implies(row_nan and not self.enable_inf, ef2_maxval_is(r, self, s)) if self.nan_value is None else True,
        # infinity in a format without infinity: the substitute with the operand's sign, else NaN, else the largest value
        'inf_subst': implies(row_inf, ef2_subst_is(r, self.inf_value, s)) if self.inf_value is not None else True,
        'inf_to_nan': implies(row_inf and nk != 'NONE', is_nan_result(r) and r._real._s == s) if self.inf_value is None else True,
        'inf_to_max': implies(row_inf and nk == 'NONE', ef2_maxval_is(r, self, s)) if self.inf_value is None else True,
        # -0 in a format whose -0 word is the NaN: +0
        'neg_zero': implies(row_nz, fl_finite(r) and r._real._c == 0 and not r._real._s and r._real._exp == x._real._exp),
        # everything else is untouched
        'keep': implies(keep, same_float(r, x)),
        'flags': r._real._flags._flags == x._real._flags._flags,
    }


# ---------------------------------------------------------------------------
# EFloatContext.round / round_at: K1..K5 for the EFloat family

def ef2_subst_ok(k):
    """the configured substitutes are members of the format (the infinity substitute under either sign);
    the constructor is obliged to establish this (EFloatContext___init__#post[nan_value_member / inf_value_member])"""
    nk = k.nan_kind.name
    return (((ef2_member(k, k.nan_value)) if (k.nan_value is not None and nk == 'NONE') else True)
            and ((ef2_member_signed(k, k.inf_value, False) and ef2_member_signed(k, k.inf_value, True))
                 if (k.inf_value is not None and not k.enable_inf) else True))


def ef2_R(self, x, n):
    f = self._fmt._mpb_fmt
    nmin = f.emin - f.pmax
    nn = nmin if n is None else max2(n, nmin)
    return rnd_at(op_real(x), f.pmax, round_nstar(op_real(x), f.pmax, nn), self.rm)


def ef2_post(self, x, n, exact, r):
    """
    post of EFloatContext.round (n = None) / round_at: p = nbits - es digits, nothing below nmin = emin - p,
    largest value M = the format's maxval (EFloatFormat___init__ shows it is the largest finite code of the
    nan kind); what the format lacks is substituted by the K5 table.
    """
    nk = self.nan_kind.name
    f = self._fmt._mpb_fmt
    M = f.pos_maxval
    nan = op_nan(x)
    inf = op_inf(x)
    xr = op_real(x)
    fin = not nan and not inf
    nz = fin and xr._c != 0
    s = xr._s
    R = ef2_R(self, x, n)
    ovf = nz and mag_lt_ec(M._exp, M._c, R[0], R[1])
    ok = nz and not ovf
    om = self.overflow.name
    toinf = ovf_to_inf(self.rm, s, True, True)
    arm_inf = ovf and om == 'OVERFLOW' and toinf
    arm_max = ovf and (om == 'SATURATE' or (om == 'OVERFLOW' and not toinf))
    want_inf = inf or arm_inf          # an infinity of sign s is due
    row_nan = nan and nk == 'NONE'
    row_inf = want_inf and not self.enable_inf
    return {
        'ctx': same_obj(r._ctx, self),
        'p_is': f.pmax == self.nbits - self.es,
        'emin_is': f.emin == ef2_emin(self.es, self.eoffset),
        # K5 NaN
        'nan_kept': implies(nan and nk != 'NONE', is_nan_result(r)),
        'nan_subst': implies(row_nan, same_real(r._real, self.nan_value._real) and r._isnan == self.nan_value._isnan
                             and r._isinf == self.nan_value._isinf) if self.nan_value is not None else True,
        'nan_to_inf': implies(row_nan and self.enable_inf, r._isinf and not r._isnan) if self.nan_value is None else True,
        'nan_to_max': implies(row_nan and not self.enable_inf, fl_finite(r) and r._real._exp == M._exp and r._real._c == M._c)
                      if self.nan_value is None else True,
        # K5 / K4 infinity: an infinite operand, or an overflow the rounding mode sends to infinity
        'inf_kept': implies(want_inf and self.enable_inf, is_inf_result(r, s)),
        'inf_subst': implies(row_inf, ef2_subst_is(r, self.inf_value, s)) if self.inf_value is not None else True,
        'inf_to_nan': implies(row_inf and nk != 'NONE', is_nan_result(r)) if self.inf_value is None else True,
        'inf_to_max': implies(row_inf and nk == 'NONE', ef2_maxval_is(r, self, s)) if self.inf_value is None else True,
        # K2 zero keeps its sign (+0 where the -0 word is the NaN), no flags
        'zero': implies(fin and xr._c == 0, fl_finite(r) and r._real._c == 0
                        and r._real._s == (s and nk != 'NEG_ZERO') and flags_clear(r._real)),
        # K2/K3 within range: the correctly rounded value, truthful flags
        'finite': implies(ok, fl_finite(r)),
        'sign': implies(ok, r._real._s == (s and (nk != 'NEG_ZERO' or R[1] != 0))),
        'exp': implies(ok, r._real._exp == R[0]),
        'c': implies(ok, r._real._c == R[1]),
        'inexact': implies(ok, r._real._flags.inexact == R[2]),
        'no_overflow': implies(ok, not r._real._flags.overflow),
        # K4 beyond range to the largest value
        'ovf_max': implies(arm_max, fl_finite(r) and r._real._exp == M._exp and r._real._c == M._c
                           and (r._real._s == s or M._c == 0) and not (r._real._s and M._c == 0 and nk == 'NEG_ZERO')),
        'ovf_flag_overflow': implies(ovf, r._real._flags.overflow),
        'ovf_flag_inexact': implies(ovf, r._real._flags.inexact),
        'special_flags': implies(nan or inf, not r._real._flags.inexact and not r._real._flags.overflow),
        # K1 member of the format
        'member_p': implies(ok, bl(r._real._c) <= f.pmax),
        'member_n': implies(ok, r._real._exp > n) if n is not None else True,
        'member_nmin': implies(ok, r._real._exp > f.emin - f.pmax),
        'member_range': implies(ok, not mag_lt_ec(M._exp, M._c, r._real._exp, r._real._c)),
        'member_nan': implies(r._isnan and not (row_inf and self.inf_value is not None), nk != 'NONE'),
        'member_inf': implies(r._isinf and not (row_nan and self.nan_value is not None), self.enable_inf),
        'member_neg_zero': implies(fl_finite(r) and r._real._c == 0 and r._real._s
                                   and not (row_nan and self.nan_value is not None)
                                   and not (row_inf and self.inf_value is not None), nk != 'NEG_ZERO'),
        'member_subst': implies((row_nan and self.nan_value is not None) or (row_inf and self.inf_value is not None),
                                ef2_member(self, r)),
    }


def ef2_raises(self, x, n, exact):
    M = self._fmt._mpb_fmt.pos_maxval
    nz = op_nonzero(x)
    R = ef2_R(self, x, n)
    ovf = nz and mag_lt_ec(M._exp, M._c, R[0], R[1])
    return {
        # the format always has a value for NaN / infinity / an overflow (K5 table): only `exact` raises
        'ValueError': nz and exact and (R[2] or ovf),
        'OverflowError': ovf and not exact and self.overflow.name == 'ASSERT',
    }


# ---------------------------------------------------------------------------
# constructors of the families with a largest value

def mpb2_member(pmax, emin, pos, neg, enable_nan, enable_inf, v, s):
    """Float v, carrying the sign s, is a member of MPBFloatFormat(pmax, emin, pos, neg, enable_nan, enable_inf)"""
    vr = v._real
    return ite(v._isnan, enable_nan, ite(v._isinf, enable_inf,
               vr._c == 0 or (fits_p(vr._c, pmax) and grid_ok(vr._exp, vr._c, emin - pmax)
                              and not mag_lt_ec(ite(s, neg._exp, pos._exp), ite(s, neg._c, pos._c), vr._exp, vr._c))))


def mpb2_subst_bad(pmax, emin, maxval, neg_maxval, enable_nan, enable_inf, nan_value, inf_value):
    """a configured substitute is not a member (only asked when the format is valid)"""
    if pmax < 1:
        return False
    nexp = maxval._exp if neg_maxval is None else neg_maxval._exp
    nc = maxval._c if neg_maxval is None else neg_maxval._c
    bad_nan = False
    if nan_value is not None:
        vr = nan_value._real
        bad_nan = not enable_nan and not ite(nan_value._isnan, enable_nan, ite(nan_value._isinf, enable_inf,
                      vr._c == 0 or (fits_p(vr._c, pmax) and grid_ok(vr._exp, vr._c, emin - pmax)
                                     and not mag_lt_ec(ite(vr._s, nexp, maxval._exp), ite(vr._s, nc, maxval._c), vr._exp, vr._c))))
    bad_inf = False
    if inf_value is not None:
        wr = inf_value._real
        bad_inf = not enable_inf and not ite(inf_value._isnan, enable_nan, ite(inf_value._isinf, enable_inf,
                      wr._c == 0 or (fits_p(wr._c, pmax) and grid_ok(wr._exp, wr._c, emin - pmax)
                                     and not mag_lt_ec(maxval._exp, maxval._c, wr._exp, wr._c)
                                     and not mag_lt_ec(nexp, nc, wr._exp, wr._c))))
    return bad_nan or bad_inf


def widened2(pmax, nmin, k, result):
    """round_params: (pmax + k, nmin - k) for k random bits, (None, None) when all bits are random"""
    p, n = result
    return {
        'all_bits': implies(k is None, p is None and n is None),
        'p': (p is not None and p == pmax + k) if k is not None else True,
        'n': (n is not None and n == nmin - k) if k is not None else True,
    }


def ef2_ctor_subst_bad(es, nbits, enable_inf, nk, eoffset, nan_value, inf_value):
    """EFloatContext.__init__: a configured substitute is not a member of the format being constructed
    (largest value = the largest finite code)"""
    if not (nbits >= 1 and es >= 0 and es < nbits):
        return False
    p = nbits - es
    m = p - 1
    emin = ef2_emin(es, eoffset)
    e = ef2_max_e(es, m, enable_inf, nk)
    mb = ef2_max_mb(es, m, enable_inf, nk)
    mexp = code_exp(e, emin - p + 1)
    mc = code_c(e, mb, m)
    bad_nan = False
    if nan_value is not None and nk == 'NONE':
        vr = nan_value._real
        bad_nan = not ite(nan_value._isnan, False, ite(nan_value._isinf, enable_inf,
                          vr._c == 0 or (fits_p(vr._c, p) and grid_ok(vr._exp, vr._c, emin - p)
                                         and not mag_lt_ec(mexp, mc, vr._exp, vr._c))))
    bad_inf = False
    if inf_value is not None and not enable_inf:
        wr = inf_value._real
        bad_inf = not ite(inf_value._isnan, nk != 'NONE', ite(inf_value._isinf, False,
                          ite(wr._c == 0, nk != 'NEG_ZERO',
                              fits_p(wr._c, p) and grid_ok(wr._exp, wr._c, emin - p)
                              and not mag_lt_ec(mexp, mc, wr._exp, wr._c))))
    return bad_nan or bad_inf


def mpbx2_fin_member(nmin, pos, neg, enable_neg_zero, vr):
    """finite (s, exp, c) is a member of MPBFixedFormat(nmin, pos, neg, ..., enable_neg_zero)"""
    return ite(vr._c == 0, (not vr._s) or enable_neg_zero,
               grid_ok(vr._exp, vr._c, nmin)
               and not mag_lt_ec(ite(vr._s, neg._exp, pos._exp), ite(vr._s, neg._c, pos._c), vr._exp, vr._c))


def mpbx2_member(k, v):
    """Float v is a member of the MPBFixedContext k's format"""
    return ite(v._isnan, k.enable_nan, ite(v._isinf, k.enable_inf,
               mpbx2_fin_member(k.nmin, k.pos_maxval, k.neg_maxval, k.enable_neg_zero, v._real)))


def mpbx2_subst_bad(nmin, maxval, neg_maxval, enable_nan, enable_inf, enable_neg_zero, nan_value, inf_value):
    """MPBFixedContext.__init__: a configured substitute is not a member of the format being constructed"""
    nexp = maxval._exp if neg_maxval is None else neg_maxval._exp
    nc = maxval._c if neg_maxval is None else neg_maxval._c
    bad_nan = False
    if nan_value is not None:
        vr = nan_value._real
        bad_nan = not enable_nan and not ite(nan_value._isnan, enable_nan, ite(nan_value._isinf, enable_inf,
                      ite(vr._c == 0, (not vr._s) or enable_neg_zero,
                          grid_ok(vr._exp, vr._c, nmin)
                          and not mag_lt_ec(ite(vr._s, nexp, maxval._exp), ite(vr._s, nc, maxval._c), vr._exp, vr._c))))
    bad_inf = False
    if inf_value is not None:
        wr = inf_value._real
        bad_inf = not enable_inf and not ite(inf_value._isnan, enable_nan, ite(inf_value._isinf, enable_inf,
                      ite(wr._c == 0, (not wr._s) or enable_neg_zero,
                          grid_ok(wr._exp, wr._c, nmin)
                          and not mag_lt_ec(ite(wr._s, nexp, maxval._exp), ite(wr._s, nc, maxval._c), wr._exp, wr._c))))
    return bad_nan or bad_inf


def exp2_inf_bad(nbits, eoffset, inf_value):
    """ExpContext.__init__: the infinity substitute is not a power of two within the exponent range"""
    if nbits <= 0 or inf_value is None:
        return False
    emax = pow2(nbits - 1) - 1 + eoffset
    emin = eoffset - (pow2(nbits - 1) - 1)
    wr = inf_value._real
    e = wr._exp + bl(wr._c) - 1
    return not (fl_finite(inf_value) and not wr._s and wr._c != 0 and wr._c == pow2(bl(wr._c) - 1)
                and emin <= e and e <= emax)
