"""
Spec functions for property C19 (index arithmetic of edit logs and cursors).

A *block* is a BlockPath (FuncBody | SubBlock, structural equality); a
statement is (block, index).  An edit e = (block_path, index, removed,
inserted) replaces the statements [index, index + removed) of its block by
`inserted` new ones.

Everything is defined from the splice semantics of a list:
  * an edit *consumes* statement (blk, idx) iff it is an edit of blk and
    index <= idx < index + removed;
  * an edit that lies entirely before the statement (index + removed <= idx)
    moves it by inserted - removed;
  * the position of a surviving statement is idx + the sum of those moves.
The sums / searches over a prefix of the log are recursive spec functions.
"""
from speclib import *
from fpy2.transform.path import FuncBody, SubBlock, StmtPath


@invariant('fpy2.transform.cursor:Edit')
def inv_Edit(e):
    # established by Edit.__post_init__ (contract Edit___post_init__)
    return e.index >= 0 and e.removed >= 0 and e.inserted >= 0


def same_edit(a, b):
    """structural equality of two edits (what == of the frozen dataclass means)"""
    return (a.block_path == b.block_path and a.index == b.index
            and a.removed == b.removed and a.inserted == b.inserted)


def consumes(e, blk, idx):
    """does edit e replace statement idx of block blk?"""
    return e.block_path == blk and e.index <= idx and idx < e.index + e.removed


def move_of(e, blk, idx):
    """how far edit e moves statement idx of block blk (0 unless e lies wholly before it)"""
    return ite(e.block_path == blk and e.index + e.removed <= idx, e.inserted - e.removed, 0)


@recursive
def shift_upto(edits, blk, idx, k) -> int:
    """sum of move_of(edits[j], blk, idx) over j < k"""
    return 0 if (k <= 0 or k > len(edits)) else \
        shift_upto(edits, blk, idx, k - 1) + move_of(edits[k - 1], blk, idx)


@recursive
def cont_upto(edits, blk, idx, k) -> int:
    """the largest j < k such that edits[j] consumes statement idx of blk; -1 if there is none"""
    return -1 if (k <= 0 or k > len(edits)) else \
        ((k - 1) if consumes(edits[k - 1], blk, idx) else cont_upto(edits, blk, idx, k - 1))


def shift_of(edits, blk, idx):
    return shift_upto(edits, blk, idx, len(edits))


def cont_of(edits, blk, idx):
    return cont_upto(edits, blk, idx, len(edits))


def consumed(edits, blk, idx):
    """is statement idx of blk replaced by some edit of the log?"""
    return cont_of(edits, blk, idx) != -1


def pos_of(edits, blk, idx):
    """index, in its block, of a statement no edit consumed, after splicing all edits"""
    return idx + shift_of(edits, blk, idx)


@recursive
def anc_rewritten(edits, block) -> bool:
    """is one of the statements enclosing `block` replaced by an edit?"""
    return False if isinstance(block, FuncBody) else \
        (anc_rewritten(edits, block.parent.parent) or consumed(edits, block.parent.parent, block.parent.index))


@recursive
def fwd_block(edits, block) -> 'FuncBody | SubBlock':
    """`block` in the program after the edits: every enclosing statement at its new position
    (meaningful when no enclosing statement was rewritten)"""
    return block if isinstance(block, FuncBody) else \
        SubBlock(StmtPath(fwd_block(edits, block.parent.parent),
                          pos_of(edits, block.parent.parent, block.parent.index)), block.field)


# ----------------------------------------------------------------- intervals

def iv_intersect(a0, a1, b0, b1):
    """do the integer intervals [a0, a1) and [b0, b1) have a common element?"""
    return ite(a0 >= b0, a0, b0) < ite(a1 <= b1, a1, b1)


def in_iv(x, a0, a1):
    return a0 <= x and x < a1


# ----------------------------------------------------------------- facts about the AST (outside the verified subset)

@uninterpreted
def stmt_resolves(func, blk, idx) -> bool:
    """does (blk, idx) name a statement of the program `func`?"""
    from fpy2.transform.path import resolve_stmt
    from fpy2.transform.error import TransformReferenceError
    try:
        resolve_stmt(func, StmtPath(blk, idx))
        return True
    except TransformReferenceError:
        return False


@uninterpreted
def block_resolves(func, blk) -> bool:
    """does blk name a block of the program `func`?"""
    from fpy2.transform.path import resolve_block
    from fpy2.transform.error import TransformReferenceError
    try:
        resolve_block(func, blk)
        return True
    except TransformReferenceError:
        return False


@uninterpreted
def block_len(func, blk) -> int:
    """number of statements of the block blk of `func` (0 if there is no such block)"""
    from fpy2.transform.path import resolve_block
    from fpy2.transform.error import TransformReferenceError
    try:
        return len(resolve_block(func, blk).stmts)
    except TransformReferenceError:
        return 0


# ----------------------------------------------------------------- nesting of paths

@recursive
def block_beneath(p, block, lo, hi) -> bool:
    """does the block p lie under one of the statements lo <= i < hi of `block`?"""
    return False if (isinstance(p, FuncBody) or lo >= hi) else \
        ((p.parent.parent == block and lo <= p.parent.index and p.parent.index < hi)
         or block_beneath(p.parent.parent, block, lo, hi))


def stmt_beneath(blk, idx, block, lo, hi):
    """is statement (blk, idx) one of the statements lo <= i < hi of `block`, or under one?"""
    return (blk == block and lo <= idx and idx < hi) or block_beneath(blk, block, lo, hi)


def path_beneath(p, block, lo, hi):
    """`beneath` for a block path or a statement path"""
    return stmt_beneath(p.parent, p.index, block, lo, hi) if isinstance(p, StmtPath) \
        else block_beneath(p, block, lo, hi)


# ----------------------------------------------------------------- disjoint logs (W2)

def overlap_in_block(a, b):
    """`_overlaps(a, b)` for two edits of one block (contract `overlaps`, clause same_block_formula)"""
    return a.block_path == b.block_path and (in_iv(b.index, a.index, a.index + a.removed)
                                             or in_iv(a.index, b.index, b.index + b.removed))


def run_start(edits, e):
    """where the statements edit e emitted begin, after all edits: e.index moved by the edits
    that lie wholly before it.  A pure insertion (removed == 0) lies 'before' its own index,
    so its own contribution is taken out again."""
    return e.index + shift_of(edits, e.block_path, e.index) - ite(e.removed == 0, e.inserted, 0)


def in_run(edits, e, blk, p):
    """is position p of block blk one of the statements edit e inserted?"""
    return e.block_path == blk and run_start(edits, e) <= p and p < run_start(edits, e) + e.inserted


def overlaps_spec(a, b):
    """`_overlaps(a, b)` (contract `overlaps`): same block: index test; else b lies below a statement a replaced"""
    return overlap_in_block(a, b) or (a.block_path != b.block_path
                                      and block_beneath(b.block_path, a.block_path, a.index, a.index + a.removed))


def pairwise_disjoint(L):
    """no ordered pair of distinct positions of the (concrete-length) list overlaps"""
    ok = True
    for x in range(len(L)):
        for y in range(len(L)):
            if x != y:
                ok = ok and not overlaps_spec(L[x], L[y])
    return ok
