"""
Spec functions for C04 (mechanism contracts), written from docs/source/dev/semantics.rst,
docs/source/dev/derived-semantics.rst and docs/USAGE.md -- not from the code under verification.

Values (semantics.rst "Values"): a real value is a `Float` (finite dyadic, +-inf, NaN, with a signed zero) or a
`Fraction`; D(v) is its denotation (shared vocabulary of C05: `trip`, `t_*`, `xcmp3` from spec/c05.py).
"""
from speclib import *
from spec.c05 import *


# ---------------------------------------------------------------------------
# values

def is_real_value(v):
    """v is a real number of the FPy value ADT (Float | Fraction); bool is NOT a real"""
    return cls_name(v) == 'Float' or cls_name(v) == 'Fraction'


def int_valued(v):
    """the real value v denotes an integer (finite, no fractional digit)"""
    return ((fl_finite(v) and t_integral(trip(v))) if cls_name(v) == 'Float' else
            (frac_den(v) == 1) if cls_name(v) == 'Fraction' else False)


def denotes_int(v, i):
    """D(v) == i for an integer i"""
    return (t_is_int(trip(v), i) if cls_name(v) == 'Float' else
            (v == to_real(i)) if cls_name(v) == 'Fraction' else False)


def neg_value(v):
    """D(v) < 0 for an integer-valued real v"""
    return ((v._real._s and v._real._c != 0) if cls_name(v) == 'Float' else (v < 0))


# ---------------------------------------------------------------------------
# strict slices (USAGE.md "Slicing")

def bound_ok(b):
    """a slice bound: omitted, or an integer-valued real"""
    return True if b is None else (is_real_value(b) and int_valued(b))


def bound_is(bnd, i, default):
    """the slice bound denotes the integer i (the default when omitted); vacuous for an ill-typed bound"""
    return (i == default) if bnd is None else (denotes_int(bnd, i) if (is_real_value(bnd) and int_valued(bnd)) else True)


def int_unique(v, a):
    """every integer r that the Float v denotes equals a (instance of L_int_denotation_unique for all r)"""
    if cls_name(v) != 'Float':
        return True
    t = trip(v)
    return forall_ints(lambda r: implies(t_is_int(t, r), r == a))


def exp_neg(v):
    """proof hint: the Float's exponent is negative"""
    return (v._real._exp < 0) if cls_name(v) == 'Float' else False


def sign_of(v):
    return v._real._s if cls_name(v) == 'Float' else False
