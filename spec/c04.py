"""
Spec functions for C04 (mechanism contracts), written from docs/source/dev/semantics.rst,
docs/source/dev/derived-semantics.rst and docs/USAGE.md -- not from the code under verification.

Values (semantics.rst "Values"): a real value is a `Float` (finite dyadic, +-inf, NaN, with a signed zero) or a
`Fraction`; D(v) is its denotation (shared vocabulary of C05: `trip`, `t_*`, `xcmp3` from spec/c05.py).
"""
from speclib import *
from spec.c05 import *


# ---------------------------------------------------------------------------
# values

def is_real_value(v):
    """v is a real number of the FPy value ADT (Float | Fraction); bool is NOT a real"""
    return cls_name(v) == 'Float' or cls_name(v) == 'Fraction'


def int_valued(v):
    """the real value v denotes an integer (finite, no fractional digit)"""
    return ((fl_finite(v) and t_integral(trip(v))) if cls_name(v) == 'Float' else
            (frac_den(v) == 1) if cls_name(v) == 'Fraction' else False)


def denotes_int(v, i):
    """D(v) == i for an integer i"""
    return (t_is_int(trip(v), i) if cls_name(v) == 'Float' else
            (v == to_real(i)) if cls_name(v) == 'Fraction' else False)


def neg_value(v):
    """D(v) < 0 for an integer-valued real v"""
    return ((v._real._s and v._real._c != 0) if cls_name(v) == 'Float' else (v < 0))


# ---------------------------------------------------------------------------
# strict slices (USAGE.md "Slicing")

def bound_ok(b):
    """a slice bound: omitted, or an integer-valued real"""
    return True if b is None else (is_real_value(b) and int_valued(b))


def bound_is(bnd, i, default):
    """the slice bound denotes the integer i (the default when omitted); vacuous for an ill-typed bound"""
    return (i == default) if bnd is None else (denotes_int(bnd, i) if (is_real_value(bnd) and int_valued(bnd)) else True)


def int_unique(v, a):
    """every integer r that the Float v denotes equals a (instance of L_int_denotation_unique for all r)"""
    if cls_name(v) != 'Float':
        return True
    t = trip(v)
    return forall_ints(lambda r: implies(t_is_int(t, r), r == a))


def exp_neg(v):
    """proof hint: the Float's exponent is negative"""
    return (v._real._exp < 0) if cls_name(v) == 'Float' else False


def sign_of(v):
    return v._real._s if cls_name(v) == 'Float' else False


# ---------------------------------------------------------------------------
# P2: emitted code of operations (semantics.rst E-Op: every rounded operator rounds under the ACTIVE context C,
# which the generated code holds in the variable __ctx__)

ROUNDED_UNARY = ('Abs', 'Sqrt', 'Neg', 'Cbrt', 'Ceil', 'Floor', 'NearbyInt', 'RoundInt', 'Trunc', 'Acos', 'Asin', 'Atan',
                 'Cos', 'Sin', 'Tan', 'Acosh', 'Asinh', 'Atanh', 'Cosh', 'Sinh', 'Tanh', 'Exp', 'Exp2', 'Expm1', 'Log',
                 'Log10', 'Log1p', 'Log2', 'Erf', 'Erfc', 'Lgamma', 'Tgamma', 'IsFinite', 'IsInf', 'IsNan', 'IsNormal',
                 'Signbit', 'Round', 'Cast', 'Logb', 'Dim', 'Fst', 'Snd', 'Enumerate', 'Sum')
ROUNDED_BINARY = ('Add', 'Sub', 'Mul', 'Div', 'Copysign', 'Fdim', 'Mod', 'Fmod', 'Remainder', 'Hypot', 'Atan2', 'Pow',
                  'RoundAt', 'Size')
UNROUNDED_HELPER = {'Len': '__fpy_len', 'AMin': '__fpy_min', 'AMax': '__fpy_max', 'AnyOf': '__fpy_any', 'AllOf': '__fpy_all'}


def is_name(n, ident, ctxname):
    return cons_name(n) == 'Name' and n.id == ident and cons_name(n.ctx) == ctxname


def ctx_keyword(k):
    """the keyword argument  ctx=__ctx__  (the active context is passed by name)"""
    return cons_name(k) == 'keyword' and k.arg == 'ctx' and is_name(k.value, '__ctx__', 'Load')


def rounded_call(r, cls):
    """Call(Name('__fpy_<cls>'), ..., keywords=[ctx=__ctx__])"""
    call = cons_name(r) == 'Call'
    return {
        'is_call': call,
        'callee': is_name(r.func, '__fpy_' + cls, 'Load') if call else False,
        'ctx_keyword': (len(r.keywords) == 1 and ctx_keyword(r.keywords[0])) if call else False,
    }


def plain_call(r, fname):
    """Call(Name(fname), ..., keywords=[]): an unrounded helper, no context"""
    return cons_name(r) == 'Call' and is_name(r.func, fname, 'Load') and len(r.keywords) == 0


def is_none_const(n):
    return cons_name(n) == 'Constant' and n.value is None


def unrounded_unary(r, cls, a):
    """the unary nodes that do not round (derived-semantics.rst): Not, Len, Range1, AMin/AMax, AnyOf/AllOf"""
    if cls == 'Not':
        return {'not': cons_name(r) == 'UnaryOp' and cons_name(r.op) == 'Not' and r.operand == a}
    if cls == 'Len':
        inner = r.args[0] if (plain_call(r, '__fpy_fraction') and len(r.args) == 1) else None
        return {'len': (plain_call(inner, '__fpy_len') and len(inner.args) == 1 and inner.args[0] == a) if inner is not None else False}
    if cls == 'Range1':
        return {'range': plain_call(r, '__fpy_range') and len(r.args) == 3 and is_none_const(r.args[0]) and r.args[1] == a
                and is_none_const(r.args[2])}
    return {'helper': plain_call(r, UNROUNDED_HELPER[cls]) and len(r.args) == 1 and r.args[0] == a}


def is_binary64_rne(c):
    """IEEE 754 binary64, round to nearest even: the context of a call from Python without a context"""
    return cls_name(c) == 'IEEEContext' and c.es == 11 and c.nbits == 64 and c.rm.name == 'RNE'


# ---------------------------------------------------------------------------
# P3: emitted code of a `with` block (semantics.rst E-With)

def assign_of(st, ntargets):
    return cons_name(st) == 'Assign' and len(st.targets) == ntargets


def with_block(r, target_code, ctx_code, body_len, stash_text):
    """try: <tmp> = __ctx__; __ctx__ = __fpy_real; <target> = __ctx__ = <ctx>; <body>  finally: __ctx__ = <tmp>"""
    names = ('is_try_finally', 'body_len', 'stash_active_context_first', 'constructor_under_real', 'bind_target_and_activate',
             'restore_in_finally', 'restore_reads_the_stash', 'stash_name_is_the_fresh_identifier')
    shape = cons_name(r) == 'Try' and len(r.handlers) == 0 and len(r.orelse) == 0 and len(r.finalbody) == 1
    if not shape:
        return {n: False for n in names}
    if not (len(r.body) >= 3):          # (a Python `if`: the path forks on a symbolic length)
        return {n: (n == 'is_try_finally') for n in names}
    s0, s1, s2, fin = r.body[0], r.body[1], r.body[2], r.finalbody[0]
    stash_ok = assign_of(s0, 1) and cons_name(s0.targets[0]) == 'Name' and cons_name(s0.targets[0].ctx) == 'Store' \
        and is_name(s0.value, '__ctx__', 'Load')
    restore_ok = assign_of(fin, 1) and is_name(fin.targets[0], '__ctx__', 'Store') \
        and cons_name(fin.value) == 'Name' and cons_name(fin.value.ctx) == 'Load'
    return {
        'is_try_finally': True,
        'body_len': len(r.body) == 3 + body_len,
        'stash_active_context_first': stash_ok,
        'constructor_under_real': assign_of(s1, 1) and is_name(s1.targets[0], '__ctx__', 'Store')
                                  and is_name(s1.value, '__fpy_real', 'Load'),
        'bind_target_and_activate': assign_of(s2, 2) and s2.targets[0] == target_code
                                    and is_name(s2.targets[1], '__ctx__', 'Store') and s2.value == ctx_code,
        'restore_in_finally': restore_ok,
        'restore_reads_the_stash': (fin.value.id == s0.targets[0].id) if (stash_ok and restore_ok) else False,
        'stash_name_is_the_fresh_identifier': (s0.targets[0].id == stash_text) if stash_ok else False,
    }
