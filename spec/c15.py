"""
Spec functions for C15 (definite assignment and reachability), valid natively and symbolically.

An `_Env` E denotes a set of names  [[E]]:
    [[E]] = TOP (every name)                 if E.terminated   (no path reaches this point)
    [[E]] = { k | k in E.env and E.env[k] }  otherwise

The language guide's rule set (docs/USAGE.md "Control Flow", DESIGN.md §5 C15) has no kills, so
    DA(stmt, V) = TOP            if term(stmt)         (every path through stmt returns)
                = V ∪ gen(stmt)  otherwise
with
    gen(x = e) = names(x)             gen(if c: b) = gen(while) = gen(for) = {}   (incl. the loop target)
    gen(if c: a else: b) = gen(a) ∩ gen(b)  (a terminated arm is absorbing)
    gen(with e as t: b) = {t} ∪ gen(b)      term(return) = True
Sub-blocks / sub-expressions / binding patterns are abstract: `gen_block(b, k)`, `term_block(b)`,
`binds(pattern, k)` are uninterpreted ghost predicates (natively: computed by replay.py from the
real AST with the reference implementation of the rule set).
"""
from speclib import *


def bound(e, k):
    """k is marked defined-on-all-paths in env e"""
    return (k in e.env) and e.env[k]


def known(e, k):
    return k in e.env


def env_subset(r, v):
    """[[r]] ⊆ [[v]] for a non-terminated v"""
    return (not r.terminated) and forall_keys('NamedId', lambda k: implies(bound(r, k), bound(v, k)))


def gen_block(b, k):
    return ghost_pred('gen_block', b, k)


def term_block(b):
    return ghost_pred('term_block', b)


def in_da_block(b, v, k):
    """k ∈ DAblock(b, [[v]]) for a non-terminated v"""
    return term_block(b) or bound(v, k) or gen_block(b, k)


# -- reachability: can_complete of a block given that its entry is reachable or not

def cc_block(b, entry):
    return ghost_pred('cc_block', b, entry)


# -- binding patterns: NamedId | UnderscoreId | TupleBinding

def binds(pat, k):
    """k is one of the names bound by the pattern"""
    if cls_name(pat) == 'NamedId':
        return k == pat
    if cls_name(pat) == 'UnderscoreId':
        return False
    return ghost_pred('binds_tuple', pat, k)       # TupleBinding: the union over its elements (abstract)


def live(ctx):
    return not ctx.env.terminated


def da_unchanged(ctx, result):
    """[[result]] ⊆ [[ctx.env]]: the statement introduces nothing that survives it"""
    return implies(live(ctx), env_subset(result, ctx.env))
