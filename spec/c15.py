"""
Spec functions for C15 (definite assignment and reachability), valid natively and symbolically.

An `_Env` E denotes a set of names  [[E]]:
    [[E]] = TOP (every name)                 if E.terminated   (no path reaches this point)
    [[E]] = { k | k in E.env and E.env[k] }  otherwise

The language guide's rule set (docs/USAGE.md "Control Flow", DESIGN.md §5 C15) has no kills, so
    DA(stmt, V) = TOP            if term(stmt)         (every path through stmt returns)
                = V ∪ gen(stmt)  otherwise
with
    gen(x = e) = names(x)             gen(if c: b) = gen(while) = gen(for) = {}   (incl. the loop target)
    gen(if c: a else: b) = gen(a) ∩ gen(b)  (a terminated arm is absorbing)
    gen(with e as t: b) = {t} ∪ gen(b)      term(return) = True
Sub-blocks / sub-expressions / binding patterns are abstract: `gen_block(b, k)`, `term_block(b)`,
`binds(pattern, k)` are uninterpreted ghost predicates (natively: computed by replay.py from the
real AST with the reference implementation of the rule set).
"""
from speclib import *


def bound(e, k):
    """k is marked defined-on-all-paths in env e"""
    return (k in e.env) and e.env[k]


def known(e, k):
    return k in e.env


def env_subset(r, v):
    """[[r]] ⊆ [[v]] for a non-terminated v"""
    return (not r.terminated) and forall_keys('NamedId', lambda k: implies(bound(r, k), bound(v, k)))


def gen_block(b, k):
    return ghost_pred('gen_block', b, k)


def term_block(b):
    return ghost_pred('term_block', b)


def in_da_block(b, v, k):
    """k ∈ DAblock(b, [[v]]) for a non-terminated v"""
    return term_block(b) or bound(v, k) or gen_block(b, k)


# -- reachability: can_complete of a block given that its entry is reachable or not

def cc_block(b, entry):
    return ghost_pred('cc_block', b, entry)


# -- binding patterns: NamedId | UnderscoreId | TupleBinding

def binds(pat, k):
    """k is one of the names bound by the pattern"""
    if cls_name(pat) == 'NamedId':
        return k == pat
    if cls_name(pat) == 'UnderscoreId':
        return False
    return ghost_pred('binds_tuple', pat, k)       # TupleBinding: the union over its elements (abstract)


def live(ctx):
    return not ctx.env.terminated


def same_env(a, b):
    """equal content (a modular result is a fresh object, so aliasing is stated by content)"""
    return (a.terminated == b.terminated) and forall_keys('NamedId', lambda k: (known(a, k) == known(b, k)) and (bound(a, k) == bound(b, k)))


def da_unchanged(ctx, result):
    """[[result]] ⊆ [[ctx.env]]: the statement introduces nothing that survives it"""
    return implies(live(ctx), env_subset(result, ctx.env))


# -- a block is the fold of its statements:  DAblock(b, V) = DA(s_n-1, ... DA(s_0, V))
#    prefix i = the first i statements;  gen accumulates, term is sticky

SIMPLE_STMTS = ('IndexedAssign', 'AssertStmt', 'EffectStmt', 'PassStmt')
NO_SURVIVOR_STMTS = ('If1Stmt', 'WhileStmt', 'ForStmt')      # nothing introduced inside survives, incl. the loop target


def gen_stmt(s, k):
    """THE RULE SET: DA(s, V) = TOP if term_stmt(s) else V ∪ gen_stmt(s)"""
    n = cls_name(s)
    if n == 'Assign':
        return binds(s.target, k)
    if n in SIMPLE_STMTS or n in NO_SURVIVOR_STMTS or n == 'ReturnStmt':
        return False
    if n == 'IfStmt':                   # DA(ift) ∩ DA(iff), a terminated arm is absorbing
        return ite(term_block(s.ift), gen_block(s.iff, k),
                   ite(term_block(s.iff), gen_block(s.ift, k), gen_block(s.ift, k) and gen_block(s.iff, k)))
    if n == 'ContextStmt':              # DA(body, V ∪ {t})
        return binds(s.target, k) or gen_block(s.body, k)
    return ghost_pred('gen_stmt', s, k)           # a statement of unknown class (element of a block)


def term_stmt(s):
    n = cls_name(s)
    if n == 'ReturnStmt':
        return True
    if n == 'Assign' or n in SIMPLE_STMTS or n in NO_SURVIVOR_STMTS:
        return False
    if n == 'IfStmt':
        return term_block(s.ift) and term_block(s.iff)
    if n == 'ContextStmt':
        return term_block(s.body)
    return ghost_pred('term_stmt', s)


def gen_prefix(b, i, k):
    return ghost_pred('gen_prefix', b, i, k)


def term_prefix(b, i):
    return ghost_pred('term_prefix', b, i)


def in_da_stmt(s, v, k):
    return term_stmt(s) or bound(v, k) or gen_stmt(s, k)


def in_da_prefix(b, i, v, k):
    return term_prefix(b, i) or bound(v, k) or gen_prefix(b, i, k)


def block_fold_def(b):
    """DEFINITION of gen_block/term_block of a block as the fold over b.stmts (assumed as axioms)"""
    n = seq_len(b.stmts)
    return {
        'term0': not term_prefix(b, 0),
        'gen0': forall_keys('NamedId', lambda k: not gen_prefix(b, 0, k)),
        'term_step': forall_ints(lambda i: implies(0 <= i and i < n,
                                 term_prefix(b, i + 1) == (term_prefix(b, i) or term_stmt(seq_at(b.stmts, i))))),
        'gen_step': forall_ints(lambda i: implies(0 <= i and i < n, forall_keys('NamedId', lambda k:
                                gen_prefix(b, i + 1, k) == (gen_prefix(b, i, k) or gen_stmt(seq_at(b.stmts, i), k))))),
        'term_def': term_block(b) == term_prefix(b, n),
        'gen_def': forall_keys('NamedId', lambda k: gen_block(b, k) == gen_prefix(b, n, k)),
    }


# -- reachability rules: can_complete(stmt, entry)

def cc_stmt(s, entry):
    """THE RULES: can a statement complete normally, given whether its entry is reachable"""
    n = cls_name(s)
    if n == 'Assign' or n in SIMPLE_STMTS:
        return entry
    if n in NO_SURVIVOR_STMTS:                      # if1 / while / for: entry or body
        return entry or cc_block(s.body, entry)
    if n == 'IfStmt':
        return cc_block(s.ift, entry) or cc_block(s.iff, entry)
    if n == 'ContextStmt':
        return cc_block(s.body, entry)
    if n == 'ReturnStmt':
        return False
    return ghost_pred('cc_stmt', s, entry)


def cc_prefix(b, i, entry):
    return ghost_pred('cc_prefix', b, i, entry)


def cc_fold_def(b, e):
    """DEFINITION of cc_block as the fold of cc_stmt over b.stmts, for entry flag e (assumed as axioms)"""
    n = seq_len(b.stmts)
    return {
        'cc0': cc_prefix(b, 0, e) == e,
        'cc_step': forall_ints(lambda i: implies(0 <= i and i < n,
                               cc_prefix(b, i + 1, e) == cc_stmt(seq_at(b.stmts, i), cc_prefix(b, i, e)))),
        'cc_def': cc_block(b, e) == cc_prefix(b, n, e),
    }
