"""
Spec functions for property C16, second part (contracts/c16x_*.py): MPBFloatFormat, the finite
members of EFloatFormat / IEEEFormat, ExpFormat, and the ordinal stepping of OrdinalFormat.

As in spec/c16.py everything is written from the format definitions: a finite value is a triple
(s, exp, c) = (-1)^s * c * 2^exp, compared by exponent alignment over the integers.
"""
from speclib import *
from spec.real import *
from spec.floats import *
from spec.c16 import *


# ---------------------------------------------------------------------------
# MPBFloatFormat(pmax, emin, pos_maxval, neg_maxval, enable_nan, enable_inf): the MPSFloat members v with
# neg_maxval <= v <= pos_maxval (both zeros), NaN / infinities by the enable flags.

def mpbfl_bounds(f):
    """
    what MPBFloatFormat.__init__ establishes beyond the class invariant (contract MPBFloatFormat___init__), given
    bounds that are members of the unbounded format: signs of the bounds and their cached ordinals
    """
    return (not f.pos_maxval._s and f.neg_maxval._s
            and mps_fin_member(f._mps_fmt, f.pos_maxval) and mps_fin_member(f._mps_fmt, f.neg_maxval)
            and f._pos_maxval_ord == mps_ord(f._mps_fmt, f.pos_maxval)
            and f._neg_maxval_ord == mps_ord(f._mps_fmt, f.neg_maxval)
            # (redundant: a consequence of the two equations; stated for the contracts that keep mps_ord folded)
            # (lemma MPS_ord_sign)
            and f._pos_maxval_ord >= 0 and f._neg_maxval_ord <= 0
            and (f._pos_maxval_ord == 0) == (f.pos_maxval._c == 0) and (f._neg_maxval_ord == 0) == (f.neg_maxval._c == 0))


def mpbfl_inF(fmt, x):
    xr = real_of(x)
    return mps_inF(fmt._mps_fmt, x) and (not x_finite(x) or xr._c == 0 or in_bounds(xr, fmt.neg_maxval, fmt.pos_maxval))
