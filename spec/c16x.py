"""
Spec functions for property C16, second part (contracts/c16x_*.py): MPBFloatFormat, the finite
members of EFloatFormat / IEEEFormat, ExpFormat, and the ordinal stepping of OrdinalFormat.

As in spec/c16.py everything is written from the format definitions: a finite value is a triple
(s, exp, c) = (-1)^s * c * 2^exp, compared by exponent alignment over the integers.
"""
from speclib import *
from spec.real import *
from spec.floats import *
from spec.c16 import *


# ---------------------------------------------------------------------------
# MPBFloatFormat(pmax, emin, pos_maxval, neg_maxval, enable_nan, enable_inf): the MPSFloat members v with
# neg_maxval <= v <= pos_maxval (both zeros), NaN / infinities by the enable flags.

def mpbfl_bounds(f):
    """
    what MPBFloatFormat.__init__ establishes beyond the class invariant (contract MPBFloatFormat___init__), given
    bounds that are members of the unbounded format: signs of the bounds and their cached ordinals
    """
    return (not f.pos_maxval._s and f.neg_maxval._s
            and mps_fin_member(f._mps_fmt, f.pos_maxval) and mps_fin_member(f._mps_fmt, f.neg_maxval)
            and f._pos_maxval_ord == mps_ord(f._mps_fmt, f.pos_maxval)
            and f._neg_maxval_ord == mps_ord(f._mps_fmt, f.neg_maxval)
            # (redundant: a consequence of the two equations; stated for the contracts that keep mps_ord folded)
            # (lemma MPS_ord_sign)
            and f._pos_maxval_ord >= 0 and f._neg_maxval_ord <= 0
            and (f._pos_maxval_ord == 0) == (f.pos_maxval._c == 0) and (f._neg_maxval_ord == 0) == (f.neg_maxval._c == 0))


def mpbfl_inF(fmt, x):
    xr = real_of(x)
    return mps_inF(fmt._mps_fmt, x) and (not x_finite(x) or xr._c == 0 or in_bounds(xr, fmt.neg_maxval, fmt.pos_maxval))


# ---------------------------------------------------------------------------
# ExpFormat(nbits, eoffset): the powers of two 2^k, emin <= k <= emax, and one NaN.  Word w < 2^nbits - 1 stands for
# 2^(w - ebias), ebias = 2^(nbits-1) - 1 - eoffset; the all-ones word is the NaN.  So emin = -ebias and
# emax = 2^nbits - 2 - ebias: the words 0 .. 2^nbits - 2 are the ordinals of the finite members.

def exp_ebias(f):
    return pow2(f.nbits - 1) - 1 - f.eoffset


@invariant('fpy2.number.context.exponential:ExpFormat')
def inv_ExpFormat(f):
    """established by ExpFormat.__init__ (contract ExpFormat___init__)"""
    return (f.nbits >= 1 and f._emin == -exp_ebias(f) and f._emax == pow2(f.nbits) - 2 - exp_ebias(f)
            and f._mp_fmt.pmax == 1 and f._mp_fmt.enable_nan and f._mp_fmt.enable_inf)


def is_pow2_c(c):
    """c is a power of two (c > 0 with one significant digit)"""
    return c > 0 and c == pow2(bl(c) - 1)


def exp_inF(f, x):
    """NaN, or a positive power of two with exponent in [emin, emax]; no zero, no infinity, nothing negative"""
    xr = real_of(x)
    return ite(x_isnan(x), True, ite(x_isinf(x), False,
               is_pow2_c(xr._c) and not xr._s and f._emin <= e_of(xr) and e_of(xr) <= f._emax))


# ---------------------------------------------------------------------------
# ordinal stepping (OrdinalFormat.next_up / next_down / _next_towards / _next_away) on MPBFloatFormat.
# Extended ordinal: a finite member has its MPS ordinal, +inf is ord(pos_maxval) + 1, -inf is ord(neg_maxval) - 1.

def mpbfl_xord(f, x):
    return ite(x._isinf, ite(x._real._s, f._neg_maxval_ord - 1, f._pos_maxval_ord + 1), mps_ord(f._mps_fmt, x._real))


def mpbfl_dir_towards(f, x, y):
    """+1 / -1: the direction from x towards y (an infinite y gives its sign; equal ordinals step down, as the code does)"""
    return ite(y._isinf, ite(y._real._s, -1, 1), ite(mpbfl_xord(f, x) < mps_ord(f._mps_fmt, y._real), 1, -1))


def mpbfl_step_fails(f, x, d, allow_inf):
    """the step leaves the finite range and the infinity beyond it is not available"""
    t = mpbfl_xord(f, x) + d
    return (((t > f._pos_maxval_ord or t < f._neg_maxval_ord) and not (allow_inf and f.enable_inf))
            or t > f._pos_maxval_ord + 1 or t < f._neg_maxval_ord - 1)     # nothing lies beyond an infinity


def mpbfl_step_post(f, x, d, r):
    """r is the value one ordinal from x in direction d"""
    t = mpbfl_xord(f, x) + d
    inr = f._neg_maxval_ord <= t and t <= f._pos_maxval_ord
    return {
        'not_nan': not r._isnan,
        'finite': inr == fl_finite(r),
        'B5_step': implies(inr, mps_ord(f._mps_fmt, r._real) == t),
        'mps_member': implies(inr, mps_inF(f._mps_fmt, r)),
        'to_pos_inf': implies(t > f._pos_maxval_ord, r._isinf and not r._real._s),
        'to_neg_inf': implies(t < f._neg_maxval_ord, r._isinf and r._real._s),
    }


# ---------------------------------------------------------------------------
# EFloatFormat through its bounded format: membership as the code composes it (special values by the flags, finite values
# by the MPBFloatFormat underneath, -0 unless its word is the NaN, non-zero values only if the format has any).
# That the bounds of `_mpb_fmt` are the largest decoded values is NOT established here (see the report: open).

def ef_member_mpb(f, x):
    nk = f.nan_kind.name
    return ite(x._isinf, f.enable_inf, ite(x._isnan, nk != 'NONE',
               mpbfl_inF(f._mpb_fmt, x) and ite(x._real._c == 0, not (x._real._s and nk == 'NEG_ZERO'), f._has_nonzero)))
