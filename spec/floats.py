"""
Spec functions for Float (RealFloat + isinf / isnan + context) and contexts.
"""
from speclib import *
from spec.real import *


@invariant('fpy2.number.number.floats:Float')
def inv_Float(x):
    return not (x._isinf and x._isnan)


def fl_is_nar(x):
    return x._isinf or x._isnan


def fl_finite(x):
    return not x._isinf and not x._isnan


def same_real(a, b):
    """identical (s, exp, c) encodings"""
    return a._s == b._s and a._exp == b._exp and a._c == b._c


def flags_clear(r):
    return r._flags._flags == 0
