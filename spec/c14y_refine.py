"""
Spec functions for C14 part (4b): the RECURSION of branch refinement,
`_FormatInferInstance._implied(cond, truth)` (fpy2/analysis/format_infer/analysis.py).

The leaves (spec/c14x_refine.py) fix a valuation of the program variables as ghost functions of the
DEFINITION (val_nan / val_inf / val_s / val_e / val_c) and give the truth of one comparison under it
(`val_cmp`).  Here the truth of a whole boolean condition under that valuation is the ghost predicate

    holds(cond)            (a function of the identity of the AST node `cond`)

with the semantics of the FPy interpreter for `not` / `and` / `or` as DEFINING equations, stated per
node class in the `axioms` of the contracts (contracts/c14y_implied.py):

    holds(Not(a))             ==  not holds(a)
    holds(And(a_1 .. a_n))    ==  holds(a_1) and ... and holds(a_n)
    holds(Or(a_1 .. a_n))     ==  holds(a_1) or ... or holds(a_n)
    holds(Compare([op], [x, c]))  ==  val_cmp(op, def(x), c)        (x a variable use, c a literal)
    holds(Compare([op], [c, x]))  ==  val_cmp(swap(op), def(x), c)

`wf_cond(cond)` collects what the leaf contracts require of every comparison below `cond` (same shape of
defining equations: conjunction over the operands): the literal is well-formed, the variable use has a
reaching definition, its valuation is a Float value on the ghost grid, and it is not `t = logb(..)`
(`_implied_logb` is outside the leaf contracts).

A refinement is a pair (d, fmt): `ref_ok` (fmt is a well-formed AbstractFormat on the grid) and `ref_holds`
(the value of the variable defined by d is a member of fmt).  `_implied` never looks at the refinements it
collects, so its result is an abstract list (pyvc/abslist.py) and the statement is
`holds(cond) == truth  ==>  alist_all(ref_holds, result)`.
"""
from speclib import *
from spec.real import *
from spec.floats import *
from spec.c14 import *
from spec.c14x_refine import *


def holds(cond):
    """truth of the boolean expression `cond` under the valuation"""
    return ghost_pred('c14y_holds', cond)


def wf_cond(cond):
    """every comparison below `cond` meets the preconditions of the leaf contracts"""
    return ghost_pred('c14y_wf', cond)


def ref_ok(e):
    """the refinement e = (d, fmt): fmt is a well-formed AbstractFormat whose bounds lie on the ghost grid"""
    A = e[1]
    return prec_ok(A) and exp_ok(A) and pos_ok(A) and neg_ok(A) and grid_ok_fmt(A, GRID())


def ref_holds(e):
    """the refinement e = (d, fmt) holds: the value of the variable defined by d is a member of fmt"""
    return val_mem(e[0], e[1], GRID())
