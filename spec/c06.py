"""
Spec functions for C06: what a numeric literal spelling denotes.

Everything here is written from the definition of positional notation, not from
the code under verification.  A *digit string* natively is a Python `str` made
of base-b digits; symbolically it is a pair (value, length) with
0 <= value < b^length (pyvc/strings.py).  `dval` / `dlen` / `dec_groups` /
`hex_groups` come from speclib (native: a hand-written character scanner,
independent of `re` and of fpy2; symbolic: the trusted decomposition).
"""
from speclib import *


def qpow(b, e):
    """b^e as an exact rational, b an integer (b != 0 when e < 0)"""
    return to_real(ipow(b, e)) if e >= 0 else rdiv(1, ipow(b, -e))


def digits_value(m, e, b):
    """the number written digits(m, e, b): m * b^e"""
    return to_real(m) * qpow(b, e)


def is_pow2(d):
    """d >= 1 is a power of two: it equals 2^(bit_length(d) - 1)"""
    return d >= 1 and d == pow2(bl(d) - 1)


# ---------------------------------------------------------------------------
# positional notation

def mantissa_value(I, F, base):
    """I.F in base `base`:  value(I) + value(F) / base^len(F)"""
    return to_real(dval(I, base)) + rdiv(dval(F, base), ipow(base, dlen(F)))


def signed(neg, x):
    return -x if neg else x


def den10_of(g):
    """denotation of a decimal spelling from its parts (matches, neg, I, F, eneg, E):  +-(I.F) * 10^(+-E)"""
    return signed(g[1], mantissa_value(g[2], g[3], 10) * qpow(10, signed(g[4], dval(g[5], 10))))


def den16_of(g):
    """denotation of a hexadecimal-float spelling:  +-(I.F)_16 * 2^(+-E), E written in decimal"""
    return signed(g[1], mantissa_value(g[2], g[3], 16) * qpow(2, signed(g[4], dval(g[5], 10))))


def den10(s):
    return den10_of(dec_groups(s))


def den16(s):
    return den16_of(hex_groups(s))


def dec_ok(s):
    """s is a decimal spelling of the literal grammar"""
    return dec_groups(s)[0]


def hex_ok(s):
    return hex_groups(s)[0]


def dec_neg(s):
    """the spelling carries a minus sign"""
    return dec_groups(s)[1]


def hex_neg(s):
    return hex_groups(s)[1]


# ---------------------------------------------------------------------------
# exact real values with a signed zero (what `as_real` returns)

def is_neg_zero(r):
    """r is the exact Float -0"""
    return cls_name(r) == 'Float' and (r._real._s and r._real._c == 0 and not r._isinf and not r._isnan)


def real_is(r, neg_zero, q):
    """r is the exact real q, or the signed zero -0 when `neg_zero` (then q == 0)"""
    return (neg_zero and is_neg_zero(r)) if cls_name(r) == 'Float' else (not neg_zero and r == q)


# ---------------------------------------------------------------------------
# literal nodes of the FPy AST: what they denote (with a signed zero)

def is_lit(a):
    n = cls_name(a)
    return n == 'Integer' or n == 'Decnum' or n == 'Hexnum' or n == 'Rational' or n == 'Digits'


def lit_ok(a):
    """the literal node is well formed: its spelling is in the grammar / no division by zero"""
    n = cls_name(a)
    return (dec_ok(a.val) if n == 'Decnum' else
            hex_ok(a.val) if n == 'Hexnum' else
            a.q != 0 if n == 'Rational' else
            (a.b != 0 or a.e >= 0) if n == 'Digits' else True)


def lit_value(a):
    """the rational number a literal node denotes"""
    n = cls_name(a)
    return (den10(a.val) if n == 'Decnum' else
            den16(a.val) if n == 'Hexnum' else
            rdiv(a.p, a.q) if n == 'Rational' else
            digits_value(a.m, a.e, a.b) if n == 'Digits' else to_real(a.val))


def lit_negzero(a):
    """the literal node denotes the signed zero -0 (a zero spelled with a minus sign)"""
    n = cls_name(a)
    return ((den10(a.val) == 0 and dec_neg(a.val)) if n == 'Decnum' else
            (den16(a.val) == 0 and hex_neg(a.val)) if n == 'Hexnum' else False)


# ---------------------------------------------------------------------------
# stand-ins for Python `ast` nodes handed to the parser.  They derive from the real
# node classes (so `match`/isinstance in the parser accept them natively and in pyvc)
# and declare the fields the code reads.  `PyOperand.parsed` is a GHOST field: the
# FPy AST that Parser._parse_expr returns for this operand (trusted contract
# Parser__parse_expr in contracts/c06_parser.py).

import ast
from typing import Literal


class PyOperand(ast.expr):
    lineno: int
    col_offset: int
    end_lineno: int
    end_col_offset: int
    parsed: 'Integer | Decnum | Hexnum | Rational | Digits | Var'


class PyUAdd(ast.UAdd):
    pass


class PyUSub(ast.USub):
    pass


class PyNot(ast.Not):
    pass


class PyUnaryOp(ast.UnaryOp):
    lineno: int
    col_offset: int
    end_lineno: int
    end_col_offset: int
    op: 'PyUAdd | PyUSub | PyNot'
    operand: PyOperand


def stub_parse_expr(orig):
    """native realisation of the trusted contract of Parser._parse_expr (replay only)"""
    def _parse_expr(self, e):
        if isinstance(e, PyOperand):
            return e.parsed
        return orig(self, e)
    return _parse_expr


class PyIntConstant(ast.Constant):
    lineno: int
    col_offset: int
    end_lineno: int
    end_col_offset: int
    value: int


class PyFloatConstant(ast.Constant):
    lineno: int
    col_offset: int
    end_lineno: int
    end_col_offset: int
    value: float


class PyConstant_1e23(PyFloatConstant):
    value: Literal[1e23]


class PyConstant_0_1(PyFloatConstant):
    value: Literal[0.1]


class PyConstant_inf(PyFloatConstant):
    value: Literal[1e999]


class PyConstant_tiny(PyFloatConstant):
    value: Literal[0.0]


def is_int_spelling(s):
    """a Python integer literal: digits only (no '.', no exponent, no sign)"""
    g = dec_groups(s)
    return g[0] and not g[1] and dlen(g[3]) == 0 and dlen(g[5]) == 0


def is_float_spelling(s):
    """a Python float literal of the decimal grammar: has a '.' or an exponent, no sign"""
    g = dec_groups(s)
    return g[0] and not g[1] and (dlen(g[3]) > 0 or dlen(g[5]) > 0)


def parse_constant_pre(e, spelling):
    """e.value is the value CPython gives the constant spelled `spelling`"""
    v = e.value
    return {
        'python_value': ((is_int_spelling(spelling) and v == dval(dec_groups(spelling)[2], 10)) if cls_name(v) == 'int' else
                         (is_float_spelling(spelling) and float_rounds_to(den10(spelling), v))),
    }


def parse_constant_post(spelling, r):
    return {
        'is_literal': is_lit(r),
        'wellformed': lit_ok(r) if is_lit(r) else False,
        # the literal node denotes exactly the number written, not the double Python rounded it to
        'denotes': (lit_value(r) == den10(spelling)) if is_lit(r) else False,
    }
