"""
Spec functions for property C13 (mechanism contracts): value classes and the union-find partition view.

Value classes (fpy2/analysis/value_class.py).  The concretisation of an abstract value S (a ValueClass flag
set) is  gamma(S) = { v : Float | class_of(v) in S }.  A transfer function F# of an exact operation F is
SOUND when  class_of(F(x, y)) in F#(a, b)  for all x in gamma(a), y in gamma(b).  This is proved in two
steps that compose:
  (S) singleton soundness with symbolic Floats:  class_of(F(x, y)) in F#({class_of x}, {class_of y});
  (J) F# distributes over joins of atoms (so it is monotone): F#(a, b) == U { F#(p, q) | atom p in a, atom q in b },
      checked on all 16 x 16 abstract values (the Flag domain is finite; the engine has concrete flags only).
(S) + (J) give soundness for every a containing class_of x and b containing class_of y.
"""
from speclib import *
from spec.real import *
from spec.floats import *
from spec.c05 import *
from fpy2.number import REAL
from fpy2.ops import logb as ops_logb, add as ops_add, sub as ops_sub, mul as ops_mul, neg as ops_neg, fabs as ops_fabs, pow as ops_pow
from fpy2.analysis.value_class import (ValueClass, class_of, _exact_add, _exact_mul, _map, _LOGB, _POW_POS_BASE)


VC_ATOMS = (ValueClass.NAN, ValueClass.INF, ValueClass.ZERO, ValueClass.FINITE)


def vc_bot():
    return ValueClass(0)


def vc_all():
    """the 16 elements of the lattice"""
    return [ValueClass(k) for k in range(16)]


def vc_has(s, atom):
    """the class set s contains the atom"""
    return (s & atom) == atom


def vc_subset(a, b):
    return (a & b) == a


def vc_atoms(a):
    """the atoms of the class set a"""
    return [p for p in VC_ATOMS if vc_has(a, p)]


def vc_join(xs):
    out = ValueClass(0)
    for x in xs:
        out = out | x
    return out


def vc_is_atom(r):
    return r == ValueClass.NAN or r == ValueClass.INF or r == ValueClass.ZERO or r == ValueClass.FINITE


def vc_lift2(f, a, b):
    """the join-extension of f's values on atoms:  U { f(p, q) | atom p in a, atom q in b }"""
    return vc_join([f(p, q) for p in vc_atoms(a) for q in vc_atoms(b)])


def vc_lift1(table, a):
    """U { table[p] | atom p in a }"""
    return vc_join([table[p] for p in vc_atoms(a)])


def vc_monotone2(f, a, b):
    """f(a, b) is below f(a2, b2) for every a2 above a and b2 above b"""
    r = f(a, b)
    return all([vc_subset(r, f(a2, b2)) for a2 in vc_all() if vc_subset(a, a2) for b2 in vc_all() if vc_subset(b, b2)])


# the class of a Float, from the definitions of the four classes (module docstring of value_class.py):
# NaN / infinite / zero (either sign) / finite and non-zero

def fl_class(x):
    return ite(x._isnan, 1, ite(x._isinf, 2, ite(x._real._c == 0, 4, 8)))


def vc_code(r):
    """the bit of an atom as an int"""
    return 1 if r == ValueClass.NAN else (2 if r == ValueClass.INF else (4 if r == ValueClass.ZERO else (8 if r == ValueClass.FINITE else 0)))


# ---------------------------------------------------------------------------
# A3: union-find (fpy2/utils/unionfind.py) against an abstract partition view.
#
# Elements are opaque keys (`Key[Elem]`).  The abstract view of a state is a pair of ghost functions
#     R : Elem -> Elem   (the class representative of an element)        N : Elem -> int   (a rank)
# and  uf_wf(parent, R, N)  says that the parent map REALISES that view: every parent chain stays inside the
# structure, R is constant along it, R(k) is a fixed point of `parent`, a fixed point is its own representative,
# and N strictly decreases along every non-trivial parent step (so every chain is finite and ends in R(k)).
# The partition denoted by the state is  { {j | R(j) == R(k)} | k in parent }.  `find` keeps (R, N);
# `union` / `add` change them by an explicit formula (the whole-view postcondition).

def uf_root(k):
    return ghost_key('uf_root', 'Elem', k)


def uf_rank(k):
    return ghost('uf_rank', k)


def uf_wf(parent, R, N):
    return {
        'closed': forall_keys('Elem', lambda k: implies(k in parent, map_at(parent, k) in parent)),
        'root_in': forall_keys('Elem', lambda k: implies(k in parent, R(k) in parent)),
        'root_fix': forall_keys('Elem', lambda k: implies(k in parent, map_at(parent, R(k)) == R(k))),
        'root_step': forall_keys('Elem', lambda k: implies(k in parent, R(map_at(parent, k)) == R(k))),
        'fix_root': forall_keys('Elem', lambda k: implies((k in parent) and map_at(parent, k) == k, R(k) == k)),
        'rank_step': forall_keys('Elem', lambda k: implies((k in parent) and map_at(parent, k) != k,
                                                           N(map_at(parent, k)) < N(k))),
        'rank_nonneg': forall_keys('Elem', lambda k: implies(k in parent, N(k) >= 0)),
    }


def uf_sets_ok(sets, parent, R):
    """`_sets` maps exactly the roots to their classes"""
    return {
        'sets_keys': forall_keys('Elem', lambda r: rel_in(sets, r) == ((r in parent) and map_at(parent, r) == r)),
        'sets_rows': forall_keys('Elem', lambda r: forall_keys('Elem', lambda k: implies(
            rel_in(sets, r), rel_has(sets, r, k) == ((k in parent) and R(k) == r)))),
    }


def uf_same_dom(p, q):
    return forall_keys('Elem', lambda k: (k in p) == (k in q))


def named(prefix, clauses):
    return {prefix + k: v for k, v in clauses.items()}
