"""
Spec functions for property C13 (mechanism contracts): value classes and the union-find partition view.

Value classes (fpy2/analysis/value_class.py).  The concretisation of an abstract value S (a ValueClass flag
set) is  gamma(S) = { v : Float | class_of(v) in S }.  A transfer function F# of an exact operation F is
SOUND when  class_of(F(x, y)) in F#(a, b)  for all x in gamma(a), y in gamma(b).  This is proved in two
steps that compose:
  (S) singleton soundness with symbolic Floats:  class_of(F(x, y)) in F#({class_of x}, {class_of y});
  (J) F# distributes over joins of atoms (so it is monotone): F#(a, b) == U { F#(p, q) | atom p in a, atom q in b },
      checked on all 16 x 16 abstract values (the Flag domain is finite; the engine has concrete flags only).
(S) + (J) give soundness for every a containing class_of x and b containing class_of y.
"""
from speclib import *
from spec.real import *
from spec.floats import *
from spec.c05 import *
from fpy2.number import REAL
from fpy2.ops import logb as ops_logb, add as ops_add, sub as ops_sub, mul as ops_mul, neg as ops_neg, fabs as ops_fabs, pow as ops_pow
from fpy2.analysis.value_class import (ValueClass, class_of, _exact_add, _exact_mul, _map, _LOGB, _POW_POS_BASE)


VC_ATOMS = (ValueClass.NAN, ValueClass.INF, ValueClass.ZERO, ValueClass.FINITE)


def vc_bot():
    return ValueClass(0)


def vc_all():
    """the 16 elements of the lattice"""
    return [ValueClass(k) for k in range(16)]


def vc_has(s, atom):
    """the class set s contains the atom"""
    return (s & atom) == atom


def vc_subset(a, b):
    return (a & b) == a


def vc_atoms(a):
    """the atoms of the class set a"""
    return [p for p in VC_ATOMS if vc_has(a, p)]


def vc_join(xs):
    out = ValueClass(0)
    for x in xs:
        out = out | x
    return out


def vc_is_atom(r):
    return r == ValueClass.NAN or r == ValueClass.INF or r == ValueClass.ZERO or r == ValueClass.FINITE


def vc_lift2(f, a, b):
    """the join-extension of f's values on atoms:  U { f(p, q) | atom p in a, atom q in b }"""
    return vc_join([f(p, q) for p in vc_atoms(a) for q in vc_atoms(b)])


def vc_lift1(table, a):
    """U { table[p] | atom p in a }"""
    return vc_join([table[p] for p in vc_atoms(a)])


def vc_monotone2(f, a, b):
    """f(a, b) is below f(a2, b2) for every a2 above a and b2 above b"""
    r = f(a, b)
    return all([vc_subset(r, f(a2, b2)) for a2 in vc_all() if vc_subset(a, a2) for b2 in vc_all() if vc_subset(b, b2)])


# the class of a Float, from the definitions of the four classes (module docstring of value_class.py):
# NaN / infinite / zero (either sign) / finite and non-zero

def fl_class(x):
    return ite(x._isnan, 1, ite(x._isinf, 2, ite(x._real._c == 0, 4, 8)))


def vc_code(r):
    """the bit of an atom as an int"""
    return 1 if r == ValueClass.NAN else (2 if r == ValueClass.INF else (4 if r == ValueClass.ZERO else (8 if r == ValueClass.FINITE else 0)))
