"""
Spec functions for property C13 (mechanism contracts): value classes and the union-find partition view.
"""
from speclib import *
from spec.real import *
from spec.floats import *
from spec.c05 import *
from fpy2.analysis.value_class import (ValueClass, class_of, _exact_add, _exact_mul, _map, _LOGB, _POW_POS_BASE)


def vc_has(s, atom):
    """the class set s (a ValueClass flag) contains the atom"""
    return (s & atom) == atom
