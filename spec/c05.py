"""
Spec functions for property C05: number values behave as the real numbers they denote.

Every finite operand (RealFloat, finite Float, int, finite Python float) denotes a dyadic
rational (-1)^s * c * 2^exp; it is represented here by the *triple* (s, exp, c) with c >= 0
(`trip`).  All statements about sums / products / order are made by exponent alignment over
integers (never a real-valued 2**exp).  A Fraction denotes itself (a rational, z3 Real); the
relation between a triple and a rational is `val_q`.
"""
from speclib import *
from spec.real import *
from spec.floats import *
from fpy2.utils import float_to_bits


# ---------------------------------------------------------------------------
# binary64 reading of a Python float (IEEE 754 interchange format, the published layout)

def f64_bits(x):
    """the 64-bit pattern of a Python float (struct.pack identity)"""
    return float_to_bits(x)


def f64_sign(x):
    return fdiv(f64_bits(x), 9223372036854775808) == 1            # bit 63


def f64_ebits(x):
    return fmod(fdiv(f64_bits(x), 4503599627370496), 2048)       # bits 52..62


def f64_mbits(x):
    return fmod(f64_bits(x), 4503599627370496)                   # bits 0..51


def f64_isnan(x):
    return f64_ebits(x) == 2047 and f64_mbits(x) != 0


def f64_isinf(x):
    return f64_ebits(x) == 2047 and f64_mbits(x) == 0


def f64_finite(x):
    return f64_ebits(x) != 2047


def f64_exp(x):
    """unnormalised exponent of a finite binary64 value: subnormals 2^-1074, normals 2^(E-1075)"""
    return ite(f64_ebits(x) == 0, -1074, f64_ebits(x) - 1075)


def f64_c(x):
    """integer significand of a finite binary64 value (implicit one for normals)"""
    return ite(f64_ebits(x) == 0, f64_mbits(x), f64_mbits(x) + 4503599627370496)


# ---------------------------------------------------------------------------
# triples

def trip(x):
    """(s, exp, c) of a finite RealFloat / Float / int / float operand"""
    if cls_name(x) == 'RealFloat':
        return (x._s, x._exp, x._c)
    if cls_name(x) == 'Float':
        return (x._real._s, x._real._exp, x._real._c)
    if cls_name(x) == 'float':
        return (f64_sign(x), f64_exp(x), f64_c(x))
    if cls_name(x) == 'Fraction':
        # a dyadic Fraction n / 2^k (lowest terms, so k = bit_length(d) - 1): n * 2^-k
        return (x < 0, 1 - bl(x.denominator), abs(x.numerator))
    # int (bool counts as int)
    return (x < 0, 0, ite(x < 0, -x, x))


def t_sc(t):
    """signed significand of a triple"""
    return ite(t[0], -t[2], t[2])


def min2(a, b):
    return ite(b < a, b, a)


def t_al(t, e0):
    """signed significand of the triple t aligned at exponent e0 <= t.exp:  D(t) / 2^e0"""
    return ite(t[0], -(t[2] * pow2(t[1] - e0)), t[2] * pow2(t[1] - e0))


def t_is_sum(r, a, b):
    """D(r) == D(a) + D(b), aligned at the smallest of the three exponents"""
    e0 = min2(a[1], b[1])
    return ((t_al(r, e0) == t_al(a, e0) + t_al(b, e0)) if r[1] >= e0 else
            (t_sc(r) == t_al(a, r[1]) + t_al(b, r[1])))


def t_neg(t):
    """the triple of -D(t)"""
    return (not t[0], t[1], t[2])


def trip_neg(x):
    """triple of -x for an operand x; for int / float / Fraction the native negation is used"""
    if cls_name(x) == 'RealFloat' or cls_name(x) == 'Float':
        return t_neg(trip(x))
    return trip(-x)


def t_is_diff(r, a, nb):
    """D(r) == D(a) - D(b), given nb = the triple of -D(b)"""
    return t_is_sum(r, a, nb)


def t_is_prod(r, a, b):
    """D(r) == D(a) * D(b): significands multiply, exponents add (aligned at the smaller of the two sides)"""
    e0 = min2(r[1], a[1] + b[1])
    return t_sc(r) * pow2(r[1] - e0) == t_sc(a) * t_sc(b) * pow2(a[1] + b[1] - e0)


def t_mag_lt(x, y):
    e0 = ite(x[1] <= y[1], x[1], y[1])
    return x[2] * pow2(x[1] - e0) < y[2] * pow2(y[1] - e0)


def t_mag_eq(x, y):
    e0 = ite(x[1] <= y[1], x[1], y[1])
    return x[2] * pow2(x[1] - e0) == y[2] * pow2(y[1] - e0)


def t_lt(x, y):
    """D(x) < D(y) (the two zeros are equal)"""
    return ite(x[0] == y[0],
               ite(x[0], t_mag_lt(y, x), t_mag_lt(x, y)),
               ite(x[0], x[2] > 0 or y[2] > 0, False))


def t_eq(x, y):
    """D(x) == D(y) (the two zeros are equal)"""
    return ite(x[0] == y[0], t_mag_eq(x, y), x[2] == 0 and y[2] == 0)


def t_same(x, y):
    """same value and same sign (distinguishes the two zeros), any encoding"""
    return x[0] == y[0] and t_mag_eq(x, y)


def t_is_int(t, i):
    """D(t) == i for an integer i"""
    e0 = min2(t[1], 0)
    return t_sc(t) * pow2(t[1] - e0) == i * pow2(0 - e0)


def t_integral(t):
    """D(t) is an integer: no nonzero digit below position 0"""
    return True if t[1] >= 0 else fmod(t[2], pow2(-t[1])) == 0


def t_int_value(t):
    """the integer D(t), for t_integral(t)"""
    return (t_sc(t) * pow2(t[1])) if t[1] >= 0 else ite(t[0], -fdiv(t[2], pow2(-t[1])), fdiv(t[2], pow2(-t[1])))


def t_val_q(t):
    """D(t) as a rational number"""
    return to_real(t_sc(t) * pow2(t[1])) if t[1] >= 0 else rdiv(t_sc(t), pow2(-t[1]))


def q_dyadic(x):
    """the Fraction x is a dyadic rational: its lowest-terms denominator is a power of two"""
    return is_pow2_int(x.denominator)


def finite_operand(x):
    """x (RealFloat | int | float | Fraction) denotes a dyadic rational (trip(x) is defined)"""
    if cls_name(x) == 'float':
        return f64_finite(x)
    if cls_name(x) == 'Fraction':
        return q_dyadic(x)
    if cls_name(x) == 'Float':
        return not x._isinf and not x._isnan
    return True


def has_zero_sign(x):
    """operand types that carry a sign on zero"""
    return cls_name(x) == 'RealFloat' or cls_name(x) == 'float' or cls_name(x) == 'Float'


def cmp3(a, other):
    """
    (lt, eq, gt): the order of D(a) (a finite triple) and D(other) in Q u {+inf, -inf, NaN}:
    all three are false iff other is NaN (unordered).
    """
    if cls_name(other) == 'Fraction':
        va = t_val_q(a)
        return (va < other, va == other, va > other)
    if cls_name(other) == 'float':
        b = trip(other)
        nan = f64_isnan(other)
        inf = f64_isinf(other)
        neg = f64_sign(other)
        return (ite(nan, False, ite(inf, not neg, t_lt(a, b))),
                ite(nan, False, ite(inf, False, t_eq(a, b))),
                ite(nan, False, ite(inf, neg, t_lt(b, a))))
    if cls_name(other) == 'Float':
        b = trip(other)
        return (ite(other._isnan, False, ite(other._isinf, not b[0], t_lt(a, b))),
                ite(other._isnan, False, ite(other._isinf, False, t_eq(a, b))),
                ite(other._isnan, False, ite(other._isinf, b[0], t_lt(b, a))))
    b = trip(other)
    return (t_lt(a, b), t_eq(a, b), t_lt(b, a))


def fork_on(c):
    """case split of the proof on the condition c (a Python `if` forks the symbolic path); no native effect"""
    if c:
        return True
    return False


def ord_is(result, nm):
    """result (Ordering | None) is the Ordering member called nm"""
    return (result.name == nm) if result is not None else False


# ---------------------------------------------------------------------------
# digits

def digit(c, k):
    """k-th binary digit (k >= 0) of the non-negative integer c"""
    return fmod(fdiv(c, pow2(k)), 2) == 1


def is_pow2_int(d):
    """d > 0 is a power of two"""
    return d > 0 and d == pow2(bl(d) - 1) if d > 0 else False


# ---------------------------------------------------------------------------
# normalisation

def fits_p(x, p):
    """|x| = c 2^exp can be written with a significand of at most p digits: c without trailing zeros has <= p digits"""
    over = bl(x._c) - p
    return True if over <= 0 else fmod(x._c, pow2(over)) == 0


# ---------------------------------------------------------------------------
# extended values: Float (finite | +-inf | NaN) and the special Python floats

def special(x):
    """(is NaN, is infinite, sign) of an operand of any of the five numeric types"""
    if cls_name(x) == 'Float':
        return (x._isnan, x._isinf, x._real._s)
    if cls_name(x) == 'float':
        return (f64_isnan(x), f64_isinf(x), f64_sign(x))
    return (False, False, False)


def xcmp3(x, other):
    """(lt, eq, gt) for a Float x (finite, infinite or NaN) against any operand; all false iff unordered"""
    a = trip(x)
    o_nan, o_inf, o_neg = special(other)
    fin = cmp3(a, other)
    lt = ite(x._isnan, False, ite(x._isinf, not o_nan and a[0] and not (o_inf and o_neg), fin[0]))
    eq = ite(x._isnan, False, ite(x._isinf, not o_nan and o_inf and o_neg == a[0], fin[1]))
    gt = ite(x._isnan, False, ite(x._isinf, not o_nan and not a[0] and not (o_inf and not o_neg), fin[2]))
    return (lt, eq, gt)


def fl_same_encoding(r, x):
    """Float r has the (s, exp, c) and class of Float x"""
    return (r._isnan == x._isnan and r._isinf == x._isinf and r._real._exp == x._real._exp and r._real._c == x._real._c)
