"""
NATIVE reference implementation of the C15 specification (the language guide's definite-assignment
rule set and the can-complete rules) over real fpy2 AST nodes.  It gives the ghost predicates of
spec/c15.py (`gen_block`, `term_block`, `binds_tuple`, `cc_block`) their native meaning during
replay.  It is deliberately written from docs/USAGE.md "Control Flow" + DESIGN.md §5 C15, NOT from
fpy2/analysis/syntax_check.py.  Only imported by replay.py (never interpreted by pyvc).
"""


def names_of(pat):
    """names bound by a binding pattern"""
    n = type(pat).__name__
    if n == 'NamedId':
        return {pat}
    if n == 'TupleBinding':
        out = set()
        for e in pat.elts:
            out |= names_of(e)
        return out
    return set()


def gen_term_stmt(s):
    """(gen(s), term(s)):  DA(s, V) = TOP if term else V ∪ gen"""
    n = type(s).__name__
    if n == 'Assign':
        return names_of(s.target), False
    if n in ('IndexedAssign', 'AssertStmt', 'EffectStmt', 'PassStmt'):
        return set(), False
    if n in ('If1Stmt', 'WhileStmt', 'ForStmt'):
        return set(), False                 # nothing introduced inside survives, incl. the loop target
    if n == 'IfStmt':
        g1, t1 = gen_term_block(s.ift)
        g2, t2 = gen_term_block(s.iff)
        if t1 and t2:
            return set(), True
        if t1:
            return g2, False                # a terminated arm is absorbing
        if t2:
            return g1, False
        return g1 & g2, False
    if n == 'ContextStmt':
        g, t = gen_term_block(s.body)
        return g | names_of(s.target), t
    if n == 'ReturnStmt':
        return set(), True
    raise NotImplementedError(n)


def gen_term_prefix(b, i):
    """fold over the first i statements: gen accumulates, term is sticky (once TOP, always TOP)"""
    gen, term = set(), False
    for s in list(b.stmts)[:max(i, 0)]:
        g, t = gen_term_stmt(s)
        gen |= g
        term = term or t
    return gen, term


def gen_term_block(b):
    return gen_term_prefix(b, len(b.stmts))


def cc_prefix(b, i, entry):
    for s in list(b.stmts)[:max(i, 0)]:
        entry = cc_stmt(s, entry)
    return entry


def cc_stmt(s, entry):
    n = type(s).__name__
    if n in ('Assign', 'IndexedAssign', 'AssertStmt', 'EffectStmt', 'PassStmt'):
        return entry
    if n in ('If1Stmt', 'WhileStmt', 'ForStmt'):
        return entry or cc_block(s.body, entry)
    if n == 'IfStmt':
        return cc_block(s.ift, entry) or cc_block(s.iff, entry)
    if n == 'ContextStmt':
        return cc_block(s.body, entry)
    if n == 'ReturnStmt':
        return False
    raise NotImplementedError(n)


def cc_block(b, entry):
    for s in b.stmts:
        entry = cc_stmt(s, entry)
    return entry


GHOSTS = {
    'gen_block': lambda b, k: k in gen_term_block(b)[0],
    'term_block': lambda b: gen_term_block(b)[1],
    'binds_tuple': lambda pat, k: k in names_of(pat),
    'cc_block': lambda b, entry: cc_block(b, bool(entry)),
    'gen_stmt': lambda s, k: k in gen_term_stmt(s)[0],
    'term_stmt': lambda s: gen_term_stmt(s)[1],
    'gen_prefix': lambda b, i, k: k in gen_term_prefix(b, i)[0],
    'term_prefix': lambda b, i: gen_term_prefix(b, i)[1],
    'cc_stmt': lambda s, entry: cc_stmt(s, bool(entry)),
    'cc_prefix': lambda b, i, entry: cc_prefix(b, i, bool(entry)),
}
