"""
Spec functions for the C15 extension (prefix c15x): D3 for expressions, frames of the visitor contexts,
tuple bindings, `_visit_function`, the all-reachable check.

FREE USES OF AN EXPRESSION.  `uses(e, k, strict)`: the name k has a free *use* in expression e that the
syntax checker must find bound.  `strict` = `not ignore_unknown`: the function name of a call `f(..)` is a
use only when unknown names are not ignored (the decorator ignores them: the parser has already resolved
every function name, frontend/parser.py `_parse_call`).  By structural recursion on the class of e:

    uses(Var x)            = {x}                      (a NamedId; the wildcard `_` uses nothing)
    uses(constant)         = {}                       BoolVal ForeignVal Decnum Hexnum Integer Rational Digits NullaryOp
    uses(op(a, b, ...))    = U uses(child)            UnaryOp BinaryOp TernaryOp NaryOp Compare TupleExpr ListExpr
                                                      ListRef ListSlice IfExpr Attribute
    uses(f(a.., kw=b..))   = ({f} if strict and f is a Var) U uses(f if f is an Attribute) U uses(a..) U uses(b..)
    uses([elt for t0 in i0 for t1 in i1 ...])
                           = uses(i0) U (uses(i1) \\ names(t0)) U ... U (uses(elt) \\ names(t0..tn-1))

A node of which only the identity is known (an opaque `Key[Expr]`: a child that a visitor just passes on)
has the abstract use set `ghost uses(e, .)`; natively (replay) every ghost is computed by the reference
implementation spec/c15x_ref.py on the real node.  Folds over child sequences are prefix ghosts with the
fold equations as definitional axioms (`*_fold_def`), the pattern of spec/c15.py `block_fold_def`.
"""
from speclib import *
from spec.c15 import *
from fpy2.ast.fpyast import NullaryOp, UnaryOp, BinaryOp, TernaryOp, NaryOp


CONST_EXPRS = ('BoolVal', 'ForeignVal', 'Decnum', 'Hexnum', 'Integer', 'Rational', 'Digits')


def kuses(e, k, strict):
    """abstract use set of an opaque child node"""
    return ghost_pred('uses', e, k, strict)


def uses_prefix(e, which, i, k, strict):
    """k is used by one of the first i elements of the child sequence `which` of node e"""
    if which == 'args':
        return ghost_pred('uses_args_prefix', e, i, k, strict)
    if which == 'kwargs':
        return ghost_pred('uses_kwargs_prefix', e, i, k, strict)
    return ghost_pred('uses_elts_prefix', e, i, k, strict)


def elem_at(which, seq, i):
    """element i of a child sequence (Call.kwargs holds (name, expr) pairs)"""
    if which == 'kwargs':
        return pair_snd_at(seq, i)
    return seq_at(seq, i)


def seq_fold_def(e, which, seq, strict):
    """DEFINITION of uses_prefix(e, which, i, .) as the fold of `uses` over the sequence (assumed as axioms)"""
    n = seq_len(seq)
    return {
        which + '_0': forall_keys('NamedId', lambda k: not uses_prefix(e, which, 0, k, strict)),
        which + '_step': forall_ints(lambda i: implies(0 <= i and i < n, forall_keys('NamedId', lambda k:
                                     uses_prefix(e, which, i + 1, k, strict) ==
                                     (uses_prefix(e, which, i, k, strict) or kuses(elem_at(which, seq, i), k, strict))))),
    }


def call_func_uses(e, k, strict):
    """the function position of a call: a Var is a use only if unknown names are not ignored;
    an Attribute chain `a.b.c` uses its base"""
    if cls_name(e.func) == 'Var':
        return (strict and k == e.func.name) if cls_name(e.func.name) == 'NamedId' else False
    if cls_name(e.func) == 'Attribute':
        return kuses(e.func.value, k, strict)
    return False


# -- list comprehensions: generator i sees the targets of the generators before it

def lc_bound_prefix(e, i, k):
    """k is bound by one of the first i targets of the comprehension"""
    return ghost_pred('lc_bound_prefix', e, i, k)


def lc_uses_prefix(e, i, k, strict):
    """k is used free by one of the first i iterables (free = not bound by an earlier target)"""
    return ghost_pred('lc_uses_prefix', e, i, k, strict)


def kbinds(pat, k):
    """names of an opaque binding pattern (an element of ListComp.targets / TupleBinding.elts).  Such elements are
    keys of the sort `TupleBinding`, used for ANY pattern (NamedId / UnderscoreId / TupleBinding): spec.c15.binds gives
    them the abstract name set `binds_tuple(pat, .)`, natively names_of(pat) of the real node"""
    return binds(pat, k)


def lc_fold_def(e, strict):
    n = seq_len(e.targets)
    return {
        'lcb_0': forall_keys('NamedId', lambda k: not lc_bound_prefix(e, 0, k)),
        'lcu_0': forall_keys('NamedId', lambda k: not lc_uses_prefix(e, 0, k, strict)),
        'lcb_step': forall_ints(lambda i: implies(0 <= i and i < n, forall_keys('NamedId', lambda k:
                                lc_bound_prefix(e, i + 1, k) == (lc_bound_prefix(e, i, k) or kbinds(seq_at(e.targets, i), k))))),
        'lcu_step': forall_ints(lambda i: implies(0 <= i and i < n, forall_keys('NamedId', lambda k:
                                lc_uses_prefix(e, i + 1, k, strict) ==
                                (lc_uses_prefix(e, i, k, strict) or
                                 (kuses(seq_at(e.iterables, i), k, strict) and not lc_bound_prefix(e, i, k)))))),
    }


def uses(e, k, strict):
    """THE DEFINITION (see the module text), by cases on the class of e"""
    n = cls_name(e)
    if n == 'Expr':                      # opaque child
        return kuses(e, k, strict)
    if n == 'Var':
        return (k == e.name) if cls_name(e.name) == 'NamedId' else False
    if n in CONST_EXPRS or isinstance(e, NullaryOp):
        return False
    if isinstance(e, UnaryOp):
        return kuses(e.args[0], k, strict)
    if isinstance(e, BinaryOp):
        return kuses(e.args[0], k, strict) or kuses(e.args[1], k, strict)
    if isinstance(e, TernaryOp):
        return kuses(e.args[0], k, strict) or kuses(e.args[1], k, strict) or kuses(e.args[2], k, strict)
    if isinstance(e, NaryOp) or n == 'Compare':
        return uses_prefix(e, 'args', seq_len(e.args), k, strict)
    if n == 'Call':
        return (call_func_uses(e, k, strict) or uses_prefix(e, 'args', seq_len(e.args), k, strict)
                or uses_prefix(e, 'kwargs', seq_len(e.kwargs), k, strict))
    if n == 'TupleExpr' or n == 'ListExpr':
        return uses_prefix(e, 'elts', seq_len(e.elts), k, strict)
    if n == 'ListComp':
        m = seq_len(e.targets)
        return lc_uses_prefix(e, m, k, strict) or (kuses(e.elt, k, strict) and not lc_bound_prefix(e, m, k))
    if n == 'ListRef':
        return kuses(e.value, k, strict) or kuses(e.index, k, strict)
    if n == 'ListSlice':
        return (kuses(e.value, k, strict) or ((kuses(e.start, k, strict)) if e.start is not None else False)
                or ((kuses(e.stop, k, strict)) if e.stop is not None else False))
    if n == 'IfExpr':
        return kuses(e.cond, k, strict) or kuses(e.ift, k, strict) or kuses(e.iff, k, strict)
    if n == 'Attribute':
        return kuses(e.value, k, strict)
    return ghost_pred('uses_unknown_class', e, k, strict)


def strict_of(inst):
    return not inst.ignore_unknown


def uses_bound(inst, e, env):
    """D3: every free use of e is marked defined-on-all-paths in env"""
    return forall_keys('NamedId', lambda k: implies(uses(e, k, strict_of(inst)), bound(env, k)))


def prefix_bound(inst, e, which, i, env):
    return forall_keys('NamedId', lambda k: implies(uses_prefix(e, which, i, k, strict_of(inst)), bound(env, k)))


# -- frames: a visitor never writes into the context object it was given

def ctx_frame(ctx, old_ctx):
    """the syntax checker's `_Ctx` on return is what it was on entry: same env content, same flags"""
    return {
        'frame_ctx_env': same_env(ctx.env, old_ctx.env),
        'frame_ctx_within_call': ctx.within_call == old_ctx.within_call,
    }


def rctx_frame(ctx, old_ctx):
    """the reachability visitor's context object is not written to"""
    return {'frame_ctx_is_reachable': ctx.is_reachable == old_ctx.is_reachable}


# -- tuple bindings: names(TupleBinding) = union of the names of its elements (recursively)

def binds_prefix(pat, i, k):
    """k is bound by one of the first i elements of the tuple binding"""
    return ghost_pred('binds_prefix', pat, i, k)


def binds_fold_def(pat):
    """DEFINITION of binds_tuple(pat, .) as the fold over pat.elts (assumed as axioms)"""
    n = seq_len(pat.elts)
    return {
        'binds_0': forall_keys('NamedId', lambda k: not binds_prefix(pat, 0, k)),
        'binds_step': forall_ints(lambda i: implies(0 <= i and i < n, forall_keys('NamedId', lambda k:
                                  binds_prefix(pat, i + 1, k) == (binds_prefix(pat, i, k) or kbinds(seq_at(pat.elts, i), k))))),
        'binds_def': forall_keys('NamedId', lambda k: binds(pat, k) == binds_prefix(pat, n, k)),
    }


# -- the function: the body is checked in  ctx.env + free variables + named arguments

def arg_prefix(func, i, k):
    """k is the name of one of the first i arguments"""
    return ghost_pred('arg_prefix', func, i, k)


def arg_fold_def(func):
    n = seq_len(func.args)
    return {
        'arg_0': forall_keys('NamedId', lambda k: not arg_prefix(func, 0, k)),
        'arg_step': forall_ints(lambda i: implies(0 <= i and i < n, forall_keys('NamedId', lambda k:
                                arg_prefix(func, i + 1, k) == (arg_prefix(func, i, k) or k == key_attr(seq_at(func.args, i), 'name'))))),
    }


def arg_names(func, k):
    return arg_prefix(func, seq_len(func.args), k)


C15X_KEY_ATTRS = {'Argument.name': 'Key[NamedId]'}
