"""
Spec functions for the C14 extension (prefix c14x): precision of sums / differences, products,
effective precision, format families (from_format / format), identity rounding and branch refinement.

Builds on spec/c14.py (membership `mem` with a ghost grid) and spec/c16.py (value sets of the format
families).  Everything here is valid under both semantics (symbolic / native replay).
"""
from speclib import *
from spec.real import *
from spec.floats import *
from spec.c14 import *


# ---------------------------------------------------------------------------
# grid values, folded: the lemmas on sums work with the signed integers Z_g(x) only through the
# linear facts below (contract option `opaque = {'Z': ['all', 'int']}` keeps Z an uninterpreted function
# in those lemmas; `C14x_Z_facts` proves the facts from the definition).

def absZ(s, e, c, g):
    """|Z_g(x)| (the sign of Z follows s)"""
    return ite(s, -Z(s, e, c, g), Z(s, e, c, g))


def z_facts(x, g):
    """apply C14x_Z_facts to the RealFloat x (proof step; True)"""
    return apply_lemma('C14x_Z_facts', s=x._s, e=x._exp, c=x._c, g=g)


def imax(a, b):
    return ite(a >= b, a, b)


def all_finite(A):
    """quantum and both bounds are finite"""
    return not is_fl(A.exp) and not is_fl(A.pos_bound) and not is_fl(A.neg_bound)
