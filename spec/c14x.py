"""
Spec functions for the C14 extension (prefix c14x): precision of sums / differences, products,
effective precision, format families (from_format / format), identity rounding and branch refinement.

Builds on spec/c14.py (membership `mem` with a ghost grid) and spec/c16.py (value sets of the format
families).  Everything here is valid under both semantics (symbolic / native replay).
"""
from speclib import *
from spec.real import *
from spec.floats import *
from spec.c14 import *


# ---------------------------------------------------------------------------
# grid values, folded: the lemmas on sums work with the signed integers Z_g(x) only through the
# linear facts below (contract option `opaque = {'Z': ['all', 'int']}` keeps Z an uninterpreted function
# in those lemmas; `C14x_Z_facts` proves the facts from the definition).

def absZ(s, e, c, g):
    """|Z_g(x)| (the sign of Z follows s)"""
    return ite(s, -Z(s, e, c, g), Z(s, e, c, g))


def z_facts(x, g):
    """apply C14x_Z_facts to the RealFloat x (proof step; True)"""
    return apply_lemma('C14x_Z_facts', s=x._s, e=x._exp, c=x._c, g=g)


def imax(a, b):
    return ite(a >= b, a, b)


def all_finite(A):
    """quantum and both bounds are finite"""
    return not is_fl(A.exp) and not is_fl(A.pos_bound) and not is_fl(A.neg_bound)


# ---------------------------------------------------------------------------
# effective precision / products

def mvp(x, exp):
    """bits of |x| in units of 2^exp (x a RealFloat whose exponent is not below exp): bl(|x| / 2^exp)
    = bl(c) + (e - exp) for c > 0 (bit_length of c * 2^(e - exp))"""
    return ite(x._c == 0, 0, bl(x._c) + x._exp - exp)


def span_bits(A):
    """bits needed to span the bounds of A at its quantum (all three finite, bounds_rep(A))"""
    return imax(mvp(A.pos_bound, A.exp), mvp(A.neg_bound, A.exp))


def eff_spec_ok(A, p):
    """p is the effective precision of A: min(prec, bits to span the bounds at the quantum) where these are finite"""
    if is_fl(A.prec):
        if is_fl(A.pos_bound) or is_fl(A.neg_bound):
            return is_fl(p) and p == PINF
        return (not is_fl(p)) and (True if is_fl(A.exp) else p == span_bits(A))
    if is_fl(A.pos_bound) or is_fl(A.neg_bound) or is_fl(A.exp):
        return (not is_fl(p)) and p == A.prec
    return (not is_fl(p)) and p == ite(span_bits(A) <= A.prec, span_bits(A), A.prec)


def grid_is_exp(A, g):
    return True if is_fl(A.exp) else g == A.exp


def no_assert(A):
    """effective_prec() asserts a finite quantum for a format with unbounded precision and two finite bounds"""
    return not (is_fl(A.prec) and not is_fl(A.pos_bound) and not is_fl(A.neg_bound) and is_fl(A.exp))
