"""
Spec functions for the C07 extension `c07y`:
  (1) `_Eliminator._scrub_binding`: a leaf of a tuple-destructuring target is rewritten to `_` only if the
      definition it introduces is DEAD -- no use site, and every phi it feeds is itself dead, transitively.
  (2) `_PartialEvalInstance._visit_context`: the body of a `with` block is analysed under the statically known
      context of the block, or under NO context when that is not statically known -- never under the enclosing one.

Vocabulary reused from spec/c07.py: DUModel (abstract def-use interface), no_uses, no_phi_successor, dead_phi,
has_uses.  New: the stand-in DUModelY (DUModel + find_def_from_site as a ghost), the transitive liveness ghost
`live` (defined by its fixed-point equation, `live_def`), the recording probe PEProbe.
"""
from speclib import *
from spec.c07 import *

from fpy2.analysis.partial_eval import _PartialEvalInstance
from fpy2.interpret.value import Foreign
from fpy2.number import Context, Float
from fractions import Fraction

# key sort `PEValue`: a statically known value (fpy2.interpret.value.Value).  Only its class matters here
# (`isinstance(val, Context)`); Float / Foreign stand for every value that is not a Context
# (bool, list and tuple values included: builtins are not key classes)
PEValue = Context | Float | Foreign


# ------------------------------------------------------------------ (1) scrubbing of tuple bindings

def site_def(du, name, site):
    """ghost: the definition of `name` introduced at the statement `site` (ReachingDefsAnalysis.site_to_def[(name, site)])"""
    return ghost_key('c07y_site_def', 'Definition', du, name, site)


class DUModelY(DUModel):
    """DUModel + `find_def_from_site` (ReachingDefsAnalysis: a lookup in `site_to_def`, KeyError when absent).
    The lookup is the ghost `site_def`; that it succeeds for the leaves of the target of `site` and yields a
    definition of the analysis is ASSUMED by the trusted contract C07y_find_def_from_site."""
    __standin_abstract__ = True

    def find_def_from_site(self, name, site):
        return site_def(self, name, site)


def feeds_only_dead_phis(du, d):
    """every phi that takes d as an argument is itself unread (spec.c07.dead_phi: no use, no further phi)"""
    return forall_keys('Definition', lambda s: implies(set_map_has(du.successors, d, s) and key_isa(s, 'PhiDef'), dead_phi(du, s)))


def leaf_dead(du, d):
    """THE SIDE CONDITION of rewriting the leaf that introduces d to `_` (spec.c07.removable without the purity of
    the right-hand side, which the caller tests for the whole statement): no use site, and every phi fed by d is dead"""
    return no_uses(du, d) and feeds_only_dead_phis(du, d)


def live(du, d):
    """ghost: the value of definition d may be read -- directly, or through a chain of phis of any length"""
    return ghost_pred('c07y_live', du, d)


def live_def(du):
    """defining (fixed-point) equation of `live`: d is live iff it has a use site or feeds a live phi.
    Every predicate satisfying it contains the least one (reachability of a use through phis), and `not live`
    is proved for ALL of them."""
    return forall_keys('Definition', lambda d: live(du, d) == (
        has_uses(du, d)
        or not forall_keys('Definition', lambda s: not (set_map_has(du.successors, d, s) and key_isa(s, 'PhiDef') and live(du, s)))))


# ------------------------------------------------------------------ (2) partial evaluation of `with` blocks

class PEProbe(_PartialEvalInstance):
    """A _PartialEvalInstance that records what `_visit_context` hands to its two callees instead of descending:
    ('expr', e, ctx) for `_visit_expr(e, ctx)`, ('block', b, ctx) for `_visit_block(b, ctx)`.  `by_expr` is left
    as it is: the table consulted after the visit of the context expression is an ARBITRARY table.
    `_visit_context`, `_is_value` are the inherited, unmodified methods."""
    log: 'list[tuple[str, object, object]]'

    def _visit_expr(self, e, ctx):
        self.log.append(('expr', e, ctx))

    def _visit_block(self, block, ctx):
        self.log.append(('block', block, ctx))
