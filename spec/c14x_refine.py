"""
Spec functions for C14 part (4): branch refinement of format inference
(`_magnitude_constraint`, `_implied`, `_implied_compare` in fpy2/analysis/format_infer/analysis.py).

A dyadic literal c = n / d (lowest terms, d = 2^k, k = bl(d) - 1) has the grid integer
Z_g(c) = n * 2^(-k - g) for every grid g <= -k; a Float v has Z_g(v) = (-1)^s c 2^(e - g) (spec/c14.py).
The truth of `v op c` follows IEEE 754 5.11: a NaN operand is unordered (every ordering and `==` is False,
`!=` is True); -inf is below and +inf above every real; -0 == +0 (both have Z = 0).
"""
from speclib import *
from spec.real import *
from spec.floats import *
from spec.c14 import *


def lit_dyadic(c):
    """the Fraction c is dyadic: its denominator d >= 1 is a power of two (d == 2^(bl(d) - 1))"""
    return c.denominator >= 1 and c.denominator == pow2(bl(c.denominator) - 1)


def lit_exp(c):
    """-k for the dyadic c = n / 2^k"""
    return 1 - bl(c.denominator)


def lit_Z(c, g):
    """grid integer of the dyadic literal c (needs g <= lit_exp(c))"""
    return c.numerator * pow2(lit_exp(c) - g)


def val_lt(nan, inf, s, z, zc):
    """value (nan, inf, s, grid integer z) < real with grid integer zc"""
    return (not nan) and ite(inf, s, z < zc)


def val_gt(nan, inf, s, z, zc):
    return (not nan) and ite(inf, not s, z > zc)


def val_eq(nan, inf, s, z, zc):
    return (not nan) and (not inf) and z == zc


def cmp_val(opname, nan, inf, s, z, zc):
    """truth of `v op c` (opname the name of the CompareOp member, concrete)"""
    if opname == 'LT':
        return val_lt(nan, inf, s, z, zc)
    if opname == 'LE':
        return val_lt(nan, inf, s, z, zc) or val_eq(nan, inf, s, z, zc)
    if opname == 'GT':
        return val_gt(nan, inf, s, z, zc)
    if opname == 'GE':
        return val_gt(nan, inf, s, z, zc) or val_eq(nan, inf, s, z, zc)
    if opname == 'EQ':
        return val_eq(nan, inf, s, z, zc)
    return not val_eq(nan, inf, s, z, zc)          # NE


def cmp_holds(opname, v, c, g):
    """truth of `v op c` for a Float v and a dyadic literal c on the grid 2^g"""
    return cmp_val(opname, v._isnan, v._isinf, v._real._s, Zr(v._real, g), lit_Z(c, g))


def swap_name(opname):
    """`c op v`  <=>  `v swap(op) c`"""
    return {'LT': 'GT', 'LE': 'GE', 'GE': 'LE', 'GT': 'LT', 'EQ': 'EQ', 'NE': 'NE'}[opname]


def statable(opname, c):
    """the constraints the domain can state (docstring of _magnitude_constraint): a bound toward zero"""
    return lit_dyadic(c) and ((opname in ('LT', 'LE') and c >= 0) or (opname in ('GT', 'GE') and c <= 0))


# ---------------------------------------------------------------------------
# valuations: the run-time value of (the variable bound by) a definition d, as ghost functions of d

def val_nan(d):
    return ghost('c14x_val_nan', d) != 0


def val_inf(d):
    return ghost('c14x_val_inf', d) != 0


def val_s(d):
    return ghost('c14x_val_s', d) != 0


def val_e(d):
    return ghost('c14x_val_e', d)


def val_c(d):
    return ghost('c14x_val_c', d)


def val_Z(d, g):
    return Z(val_s(d), val_e(d), val_c(d), g)


def val_ok(d, g):
    """the valuation of d is a Float value; the grid lies below its exponent"""
    return val_c(d) >= 0 and g <= val_e(d)


def val_cmp(opname, d, c, g):
    """truth of `x op c` under the valuation, x a use of definition d"""
    return cmp_val(opname, val_nan(d), val_inf(d), val_s(d), val_Z(d, g), lit_Z(c, g))


def val_mem(d, A, g):
    """the value of d is a member of A"""
    return mem_val(val_nan(d), val_inf(d), val_s(d), val_e(d), val_c(d), A, g)


# abstract attributes of definitions / definition sites / expressions read by `_logb_operand`
KEY_ATTRS = {
    # (the entries of spec.c07.KEY_ATTRS: the DUModel invariant reads them)
    'Definition.name': 'Key[NamedId]',
    'Definition.site': 'Key[DefSite]',
    'Definition.lhs': 'PhiDef -> int',
    'Definition.rhs': 'PhiDef -> int',
    'DefSite.target': 'Assign -> Key[Target]',
    'DefSite.expr': 'Assign -> Key[Expr]',
    'Expr.name': 'Var -> Key[NamedId]',
    'UseSite.name': 'Var -> Key[NamedId]',
    'UseSite.loc': 'Key[Location]',
    # read by `_logb_operand`
    'Expr.arg': 'Logb -> Key[Expr]',
}


def logb_def(d):
    """d is `t = logb(...)` (the only definitions `_implied_logb` looks at)"""
    s = key_attr(d, 'site')
    return key_isa(d, 'AssignDef') and key_isa(s, 'Assign') and key_isa(key_attr(s, 'expr'), 'Logb')


class DefUseM:
    """stand-in for fpy2.analysis.DefineUseAnalysis as `_implied_compare` sees it: only the map from use sites to
    the definitions that reach them (abstract interface; never constructed)"""
    __standin_abstract__ = True
    use_to_def: 'dict[Key[UseSite], Key[Definition]]'

    def find_def_from_use(self, site):
        """mirror of DefineUseAnalysis.find_def_from_use"""
        if site in self.use_to_def:
            return self.use_to_def[site]
        raise KeyError(f'no definition found for site {site}')
