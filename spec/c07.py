"""
Spec functions for C07 (mechanism contracts of copy propagation, substitution, constant folding's
literal emission and dead-code elimination), valid natively and symbolically.

The analyses are taken through their ABSTRACT interface (stand-in `DUModel` for DefineUseAnalysis):
    du.defs                 the SSA definitions (a sequence of opaque keys `Key[Definition]`)
    du.uses[d]              the use sites of definition d (`Key[UseSite]`)
    du.successors[d]        the definitions that have d as `prev` / phi argument
    reach_use(f, u, y)      index (into du.defs) of the definition of name y that reaches the use site u
    reach_site(f, s, y)     index of the definition of name y that reaches the entry of statement s
both `reach_*` are uninterpreted ghosts (natively: spec/c07_ref.py reads them off ReachingDefs.reach).
AST nodes and definitions are abstract nodes (pyvc/absnodes.py): the class of a node is symbolic, its
attributes are uninterpreted functions declared in KEY_ATTRS.
"""
from speclib import *

from fpy2.ast.fpyast import FuncDef, TupleBinding
from fpy2.utils import Id

# key sort `Target`: an assignment target
Target = Id | TupleBinding


class DUModel:
    """stand-in for fpy2.analysis.DefineUseAnalysis (abstract interface; never constructed)"""
    __standin_abstract__ = True
    defs: 'KeySeq[Definition]'
    uses: 'dict[Key[Definition], set[Key[UseSite]]]'
    successors: 'dict[Key[Definition], set[Key[Definition]]]'
    use_to_def: 'dict[Key[UseSite], Key[Definition]]'


class FuncDefM(FuncDef):
    """stand-in FuncDef; GHOST field `def_use` = the result of DefineUse.analyze on this function
    (natively the replay harness attaches the real analysis under that name)"""
    __standin_abstract__ = True
    def_use: 'DUModel'


KEY_ATTRS = {
    'Definition.name': 'Key[NamedId]',
    'Definition.site': 'Key[DefSite]',
    'Definition.lhs': 'PhiDef -> int',
    'Definition.rhs': 'PhiDef -> int',
    'DefSite.target': 'Assign -> Key[Target]',
    'DefSite.expr': 'Assign -> Key[Expr]',
    'Expr.name': 'Var -> Key[NamedId]',
}


# ------------------------------------------------------------------ O1: copy propagation

def plain_copy(d):
    """definition d is introduced by a plain assignment `x = y` (single name target, variable rhs)"""
    s = key_attr(d, 'site')
    return (key_isa(d, 'AssignDef') and key_isa(s, 'Assign')
            and key_isa(key_attr(s, 'target'), 'Id') and key_isa(key_attr(s, 'expr'), 'Var'))


def copy_rhs(d):
    """the `y` of `x = y` (a Var node)"""
    return key_attr(key_attr(d, 'site'), 'expr')


def copied_name(d):
    return key_attr(copy_rhs(d), 'name')


def reach_use(f, u, y):
    return ghost('reach_use', f, u, y)


def reach_site(f, s, y):
    return ghost('reach_site', f, s, y)


def stable(f, d):
    """THE SIDE CONDITION of copy propagation for `d: x = y`: at every use u of d, the definition of y
    that reaches u is the one that reaches the copy itself (y is not redefined in between)"""
    du = f.def_use
    y = copied_name(d)
    here = reach_site(f, key_attr(d, 'site'), y)
    return forall_keys('UseSite', lambda u: implies(set_map_has(du.uses, d, u), reach_use(f, u, y) == here))


def has_uses(du, d):
    return not forall_keys('UseSite', lambda u: not set_map_has(du.uses, d, u))


def name_selected(names, d):
    return True if names is None else (key_attr(d, 'name') in names)


def selected(f, names, d):
    """d is one of the definitions copy propagation rewrites"""
    return name_selected(names, d) and plain_copy(d) and has_uses(f.def_use, d)


@invariant('spec.c07:DUModel')
def du_wellformed(du):
    """ASSUMED shape of the abstract interface (DefineUseAnalysis.__init__ / _DefineUseInstance.__init__ build
    `uses` and `successors` with one entry per element of `defs`)"""
    return forall_ints(lambda i: implies(0 <= i and i < seq_len(du.defs),
                                         (seq_at(du.defs, i) in du.uses) and (seq_at(du.defs, i) in du.successors)))
