"""
Spec functions for C07 (mechanism contracts of copy propagation, substitution, constant folding's
literal emission and dead-code elimination), valid natively and symbolically.

The analyses are taken through their ABSTRACT interface (stand-in `DUModel` for DefineUseAnalysis):
    du.defs                 the SSA definitions (a sequence of opaque keys `Key[Definition]`)
    du.uses[d]              the use sites of definition d (`Key[UseSite]`)
    du.successors[d]        the definitions that have d as `prev` / phi argument
    du.name_to_defs[y]      all (re-)definitions of the name y
    reach_use(du, u, y)     index (into du.defs) of the definition of name y that reaches the use site u
    reach_site(du, s, y)    index of the definition of name y that reaches the entry of statement s
both `reach_*` are uninterpreted ghosts (natively: spec/c07_ref.py reads them off ReachingDefs.reach).
AST nodes and definitions are abstract nodes (pyvc/absnodes.py): the class of a node is symbolic, its
attributes are uninterpreted functions declared in KEY_ATTRS.
"""
from speclib import *

from fpy2.ast.fpyast import FuncDef, TupleBinding
from fpy2.utils import Id

# key sort `Target`: an assignment target
Target = Id | TupleBinding


class DUModel:
    """stand-in for fpy2.analysis.DefineUseAnalysis (abstract interface; never constructed)"""
    __standin_abstract__ = True
    defs: 'KeySeq[Definition]'
    uses: 'dict[Key[Definition], set[Key[UseSite]]]'
    successors: 'dict[Key[Definition], set[Key[Definition]]]'
    use_to_def: 'dict[Key[UseSite], Key[Definition]]'
    name_to_defs: 'dict[Key[NamedId], set[Key[Definition]]]'

    def find_def_from_use(self, site):
        """mirror of DefineUseAnalysis.find_def_from_use (3 lines; the stand-in has no code of its own otherwise)"""
        if site in self.use_to_def:
            return self.use_to_def[site]
        raise KeyError(f'no definition found for site {site}')


class FuncDefM(FuncDef):
    """stand-in FuncDef; GHOST field `def_use` = the result of DefineUse.analyze on this function
    (natively the replay harness attaches the real analysis under that name)"""
    __standin_abstract__ = True
    def_use: 'DUModel'


KEY_ATTRS = {
    'Definition.name': 'Key[NamedId]',
    'Definition.site': 'Key[DefSite]',
    'Definition.lhs': 'PhiDef -> int',
    'Definition.rhs': 'PhiDef -> int',
    'DefSite.target': 'Assign -> Key[Target]',
    'DefSite.expr': 'Assign -> Key[Expr]',
    'Expr.name': 'Var -> Key[NamedId]',
    'UseSite.name': 'Var -> Key[NamedId]',
    'UseSite.loc': 'Key[Location]',
}


# ------------------------------------------------------------------ O1: copy propagation

def plain_copy(d):
    """definition d is introduced by a plain assignment `x = y` (single name target, variable rhs)"""
    s = key_attr(d, 'site')
    return (key_isa(d, 'AssignDef') and key_isa(s, 'Assign')
            and key_isa(key_attr(s, 'target'), 'Id') and key_isa(key_attr(s, 'expr'), 'Var'))


def copy_rhs(d):
    """the `y` of `x = y` (a Var node)"""
    return key_attr(key_attr(d, 'site'), 'expr')


def copied_name(d):
    return key_attr(copy_rhs(d), 'name')


def reach_use(du, u, y):
    return ghost('reach_use', du, u, y)


def reach_site(du, s, y):
    return ghost('reach_site', du, s, y)


def is_def_of(du, i, y):
    """i is the index of a definition of the name y: in range, and a member of name_to_defs[y]"""
    return 0 <= i and i < seq_len(du.defs) and set_map_has(du.name_to_defs, y, seq_at(du.defs, i))


def stable(f, d):
    """THE SIDE CONDITION of copy propagation for `d: x = y`: at every use u of d, the definition of y
    that reaches u is the one that reaches the copy itself (y is not redefined in between)"""
    du = f.def_use
    y = copied_name(d)
    here = reach_site(du, key_attr(d, 'site'), y)
    return forall_keys('UseSite', lambda u: implies(set_map_has(du.uses, d, u), reach_use(du, u, y) == here))


def has_uses(du, d):
    return not forall_keys('UseSite', lambda u: not set_map_has(du.uses, d, u))


def name_selected(names, d):
    return True if names is None else (key_attr(d, 'name') in names)


def at_most_one_def(du, y):
    """the name y is defined at most once in the whole function (the pass's conservative test for `y is never redefined`)"""
    return forall_keys('Definition', lambda a: forall_keys('Definition', lambda b: implies(
        set_map_has(du.name_to_defs, y, a) and set_map_has(du.name_to_defs, y, b), a == b)))


def selected(f, names, d):
    """d is one of the definitions copy propagation rewrites: EXACTLY the keys of its substitution
    (invariant `exact` of CopyPropagate_apply_with_status ties this description to the code)"""
    return (name_selected(names, d) and plain_copy(d) and has_uses(f.def_use, d)
            and at_most_one_def(f.def_use, copied_name(d)))


@invariant('spec.c07:DUModel')
def du_wellformed(du):
    """ASSUMED shape of the abstract interface (DefineUseAnalysis.__init__ / _DefineUseInstance.__init__ build
    `uses` and `successors` with one entry per element of `defs`; ReachingDefs builds `name_to_defs` and the
    reaching-definition contexts from the same definitions).  In particular (R1, R2): EVERY REACHING DEFINITION OF A
    NAME, AT A USE OR AT A SITE, IS A MEMBER OF name_to_defs[name] -- hence a name with at most one definition has the
    same reaching definition wherever it is defined.  Checked natively on the candidate programs by
    tools/c07_wellformed.py; never verified."""
    n = seq_len(du.defs)
    return (forall_ints(lambda i: implies(0 <= i and i < n, (seq_at(du.defs, i) in du.uses) and (seq_at(du.defs, i) in du.successors)))
            # the keys of `uses` / `successors` are the definitions
            and forall_keys('Definition', lambda k: (k in du.uses) == (k in du.successors))
            # phi arguments are indices into defs (ReachingDefs)
            and forall_keys('Definition', lambda k: implies(key_isa(k, 'PhiDef') and (k in du.uses),
                                                            0 <= key_attr(k, 'lhs') and key_attr(k, 'lhs') < n
                                                            and 0 <= key_attr(k, 'rhs') and key_attr(k, 'rhs') < n))
            # a single-name assignment statement introduces exactly one definition
            and forall_keys('Definition', lambda a: forall_keys('Definition', lambda b: implies(
                (a in du.uses) and (b in du.uses) and key_isa(a, 'AssignDef') and key_isa(b, 'AssignDef')
                and key_attr(a, 'site') == key_attr(b, 'site') and key_isa(key_attr(a, 'site'), 'Assign')
                and key_isa(key_attr(key_attr(a, 'site'), 'target'), 'Id'), a == b)))
            # ---- reaching definitions vs name_to_defs (what justifies copy propagation's conservative test
            #      `len(name_to_defs[y]) <= 1`):
            # (R0) defs lists every definition once (def_to_idx is a bijection)
            and forall_ints(lambda i: forall_ints(lambda j: implies(
                0 <= i and i < n and 0 <= j and j < n and seq_at(du.defs, i) == seq_at(du.defs, j), i == j)))
            # (R1) the variable y read by a plain copy `x = y` has a reaching definition at the copy, and that
            #      definition is one of name_to_defs[y]
            and forall_keys('Definition', lambda d: implies((d in du.uses) and plain_copy(d),
                                                            is_def_of(du, reach_site(du, key_attr(d, 'site'), copied_name(d)), copied_name(d))))
            # (R2) at every use of the copy, y still has a reaching definition (definitions are never killed: a use
            #      of d is reached only through d's site) and it is again one of name_to_defs[y]
            and forall_keys('Definition', lambda d: forall_keys('UseSite', lambda u: implies(
                (d in du.uses) and plain_copy(d) and set_map_has(du.uses, d, u),
                is_def_of(du, reach_use(du, u, copied_name(d)), copied_name(d))))))


# ------------------------------------------------------------------ O3: literal emission

def num_is_negzero(v):
    """the Float / float v is the signed zero -0"""
    from spec.c05 import f64_sign, f64_c, f64_finite
    if cls_name(v) == 'Float':
        return v._real._s and v._real._c == 0 and not v._isinf and not v._isnan
    return f64_finite(v) and f64_sign(v) and f64_c(v) == 0


def has_literal(v):
    """the (scalar) value v has an FPy literal form"""
    from spec.floats import fl_is_nar
    from spec.c05 import f64_finite
    k = cls_name(v)
    if k == 'Float':
        return not fl_is_nar(v)
    if k == 'float':
        return f64_finite(v)
    return k == 'bool' or k == 'int' or k == 'Fraction' or k == 'Context'


def denotes(lit, v):
    """the literal node `lit` denotes the scalar value v exactly (sign of zero included)"""
    from spec.c05 import trip, t_val_q
    from spec.c06 import is_lit, lit_ok, lit_value, lit_negzero
    k = cls_name(v)
    if k == 'bool':
        return (lit.val == v) if cls_name(lit) == 'BoolVal' else False
    if k == 'Float' or k == 'float':
        return (lit_ok(lit) and lit_value(lit) == t_val_q(trip(v)) and lit_negzero(lit) == num_is_negzero(v)) if is_lit(lit) else False
    if k == 'int' or k == 'Fraction':
        return (lit_ok(lit) and lit_value(lit) == to_real(v) and not lit_negzero(lit)) if is_lit(lit) else False
    if k == 'Context':
        return same_obj(lit.val, v) if cls_name(lit) == 'ForeignVal' else False
    return False


# ------------------------------------------------------------------ O4: dead-code elimination

def no_uses(du, d):
    """definition d has no use site"""
    return forall_keys('UseSite', lambda u: not set_map_has(du.uses, d, u))


def pure_expr(e):
    """the purity analysis calls expression e pure (ghost: Purity.analyze_expr; its table is Purity_* below)"""
    return ghost_pred('pure_expr', e)


def assign_rhs(d):
    return key_attr(key_attr(d, 'site'), 'expr')


def no_phi_successor(du, d):
    """no phi has d as an argument"""
    return forall_keys('Definition', lambda s: not (set_map_has(du.successors, d, s) and key_isa(s, 'PhiDef')))


def dead_phi(du, p):
    """the phi p is itself unread: no use site and no further phi takes it as an argument"""
    return no_uses(du, p) and no_phi_successor(du, p)


def removable(f, d):
    """THE SIDE CONDITION of removing the assignment that introduces d: nothing reads d -- no use site, and every
    phi that takes d as an argument is itself unread -- and evaluating its right-hand side has no effect"""
    du = f.def_use
    return (no_uses(du, d) and pure_expr(assign_rhs(d))
            and forall_keys('Definition', lambda s: implies(set_map_has(du.successors, d, s) and key_isa(s, 'PhiDef'), dead_phi(du, s))))


def marked(f, marks, d):
    """d is a definition of f introduced by a single-name assignment statement that is marked for deletion"""
    s = key_attr(d, 'site')
    return (d in f.def_use.uses) and key_isa(d, 'AssignDef') and key_isa(s, 'Assign') and (s in marks)


def marks_removable(f, marks):
    return forall_keys('Definition', lambda d: implies(marked(f, marks, d), removable(f, d)))


def phis_unused(f, phis):
    return forall_keys('Definition', lambda k: implies(k in phis, key_isa(k, 'PhiDef') and (k in f.def_use.uses) and dead_phi(f.def_use, k)))
