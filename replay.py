#!/venv/bin/python
"""
Native replay: run a counterexample (or any concrete input) against the REAL
code of /repo under /venv/bin/python and evaluate the contract natively.

  /venv/bin/python /verif/replay.py <file.json>          -> prints a JSON verdict

The contract / spec files are imported as ordinary Python (speclib gives the
vocabulary its native meaning), the inputs are rebuilt as real fpy2 objects.
Exit 0: every clause held (or the precondition was not met);
exit 1: a clause of the contract failed on the real code; exit 3: harness error.
"""
import copy
import importlib
import json
import os
import random
import struct
import sys
import traceback
from fractions import Fraction

HERE = os.path.dirname(os.path.abspath(__file__))
REPO = os.environ.get('FPY_REPO', '/repo')
sys.path.insert(0, HERE)
sys.path.insert(0, REPO)


def _cls(qual):
    mod, _, name = qual.partition(':')
    m = importlib.import_module(mod)
    o = m
    for part in name.split('.'):
        o = getattr(o, part)
    return o


class ScriptedRandom(random.Random):
    """random.Random whose getrandbits(k) returns the scripted ghost draw; counts draws."""

    def __init__(self, fn):
        super().__init__(0)
        self._fn = fn
        self.draws = 0

    def getrandbits(self, k):
        self.draws += 1
        return self._fn(k)


def build(v, env, ghost_fn):
    if v is None or isinstance(v, (bool, int, str)):
        return v
    if isinstance(v, list):
        return [build(x, env, ghost_fn) for x in v]
    if isinstance(v, dict):
        if '$ref' in v:
            return env[v['$ref']]
        if '$frac' in v:
            return Fraction(v['$frac'][0], v['$frac'][1])
        if '$float_bits' in v:
            return struct.unpack('<d', v['$float_bits'].to_bytes(8, 'little'))[0]
        if '$tuple' in v:
            return tuple(build(x, env, ghost_fn) for x in v['$tuple'])
        if '$enum' in v:
            return getattr(_cls(v['$enum']), v['member'])
        if '$flag' in v:
            return _cls(v['$flag'])(v['bits'])
        if '$default' in v:
            from fpy2.utils import DEFAULT
            return DEFAULT
        if '$opaque' in v:
            tag = v['$opaque']
            if 'rng' in tag or 'Random' in tag:
                return ScriptedRandom(ghost_fn('draw'))
            if 'FpyCtx' in tag:
                # the ambient context of an FPy-dialect contract: a concrete stand-in chosen by replay()
                env['__used_ctx__'] = True
                return env.get('__ctx__')
            return None
        if '$obj' in v:
            cls = _cls(v['$obj'])
            import inspect as _inspect
            if _inspect.isabstract(cls) and cls.__name__ == 'Context':
                # an ARBITRARY rounding context (C20): a concrete stand-in chosen by replay()
                env['__used_ctx__'] = True
                return env.get('__ctx__')
            obj = cls.__new__(cls)
            if 'id' in v:
                env[v['id']] = obj
            for k, x in v['fields'].items():
                try:
                    object.__setattr__(obj, k, build(x, env, ghost_fn))
                except AttributeError:
                    pass
            return obj
    raise ValueError(f'cannot build {v!r}')


def make_ghost(ghost):
    def get(name):
        ent = (ghost or {}).get(name, {'table': [], 'else': 0})
        table = {tuple(a): r for a, r in ent['table']}

        def fn(*args):
            return table.get(tuple(args), ent['else'] if ent['else'] is not None else 0)
        return fn
    return get


def show(v, depth=0):
    try:
        return repr(v)
    except Exception as e:
        return f'<{type(v).__name__} (repr failed: {e})>'


def candidate_contexts(doc, C):
    """concrete contexts tried in place of an arbitrary / ambient context"""
    import fpy2 as fp
    opts = getattr(C, 'options', {}) or {}
    if opts.get('fpy_rnd') == 'rne':
        return [fp.MPFloatContext(int(doc['args']['p']), fp.RM.RNE)]
    return [fp.REAL, fp.FP64, fp.MPFloatContext(2, fp.RM.RNE), fp.MPFloatContext(3, fp.RM.RNE), fp.MPFloatContext(3, fp.RM.RTZ),
            fp.MPFloatContext(5, fp.RM.RTP), fp.FP32, fp.INTEGER, fp.S1E4M3, fp.MPFixedContext(-3, fp.RM.RNE)]


def replay(doc):
    """replay once; when the inputs contain an arbitrary context, once per concrete stand-in (first violation wins)"""
    out, code = replay_with(doc, None)
    if not out.get('abstract_ctx'):
        return out, code
    cmod = importlib.import_module(doc['contract_module'])
    first = None
    for cand in candidate_contexts(doc, getattr(cmod, doc['contract'])):
        try:
            out, code = replay_with(doc, cand)
        except Exception as e:
            out, code = {'verdict': 'harness-error', 'error': f'{type(e).__name__}: {e}', 'ctx': repr(cand)}, 3
        out['ctx'] = repr(cand)
        if code == 1:
            return out, code
        if first is None or (first[1] == 3 and code == 0):
            first = (out, code)
    return first


def replay_with(doc, ctx_standin):
    import speclib
    ghost_fn = make_ghost(doc.get('ghost'))
    speclib.GHOST.clear()
    for name in (doc.get('ghost') or {}):
        speclib.GHOST[name] = ghost_fn(name)
    speclib.GHOST.setdefault('draw', ghost_fn('draw'))
    cmod = importlib.import_module(doc['contract_module'])
    C = getattr(cmod, doc['contract'])
    env = {'__ctx__': ctx_standin}
    args = {k: build(v, env, ghost_fn) for k, v in doc['args'].items()}
    out = {'contract': doc['contract'], 'obligation': doc.get('obligation'), 'inputs': {k: show(v) for k, v in args.items()}}
    if env.get('__used_ctx__') and ctx_standin is None:
        out['abstract_ctx'] = True
        out['verdict'] = 'needs-context'
        return out, 0

    def spec(fname, extra=None):
        fn = C.__dict__.get(fname)
        if fn is None:
            return {}
        import inspect
        names = list(inspect.signature(fn).parameters)
        kw = {}
        for n in names:
            if n in args:
                kw[n] = args[n]
            elif extra and n in extra:
                kw[n] = extra[n]
        return fn(**kw)

    pre = spec('pre')
    out['pre'] = {k: bool(v) for k, v in pre.items()}
    if not all(out['pre'].values()):
        out['verdict'] = 'precondition-not-met'
        return out, 0
    kind = getattr(C, '__bases__', ())
    target = getattr(C, 'target', None)
    failed = []
    if target is None:
        # lemma
        post = spec('post')
        out['post'] = {k: bool(v) for k, v in post.items()}
        failed = [k for k, v in out['post'].items() if not v]
        out['verdict'] = 'lemma-fails' if failed else 'holds'
        out['failed'] = failed
        return out, (1 if failed else 0)
    mod, _, qual = target.partition(':')
    m = importlib.import_module(mod)
    parts = qual.split('.')
    old_ns = type('Old', (), {})()
    try:
        snap = copy.deepcopy({k: v for k, v in args.items() if not isinstance(v, ScriptedRandom)})
    except Exception:
        snap = {}
    for k, v in snap.items():
        setattr(old_ns, k, v)
    is_init = parts[-1] == '__init__'
    try:
        if len(parts) == 1:
            fn = getattr(m, parts[0])
            kind = type(fn).__name__
            if kind == 'Primitive':
                # @fpy_primitive: the decorated Python function itself
                res = fn.func(**args)
            elif kind == 'Function':
                # @fpy: positional operands (assembled from (m, e) pairs for bounded contracts), ambient context by keyword
                pairs = (getattr(C, 'options', {}) or {}).get('fpy_operands') or {}
                pos = []
                for a in fn.args:
                    nm = str(a.name)
                    if nm in args:
                        pos.append(args[nm])
                    else:
                        mm, ee = pairs[nm]
                        pos.append(Fraction(args[mm]) * Fraction(2) ** args[ee])
                res = fn(*pos, ctx=args['ctx'])
            else:
                res = fn(**args)
        else:
            cls = getattr(m, parts[0])
            raw = cls.__dict__.get(parts[1])
            if raw is None:
                raw = getattr(cls, parts[1])
            rest = {k: v for k, v in args.items() if k not in ('self', 'cls')}
            if is_init:
                obj = cls.__new__(cls)
                cls.__init__(obj, **rest)
                res = obj
            elif isinstance(raw, staticmethod):
                res = raw.__func__(**rest)
            elif isinstance(raw, classmethod):
                res = raw.__func__(args.get('cls', cls), **rest)
            elif isinstance(raw, property):
                res = raw.fget(args['self'])
            else:
                res = raw(args['self'], **rest)
        outcome = ('return', res)
    except Exception as e:           # the real code raised
        outcome = ('raise', type(e).__name__, [c.__name__ for c in type(e).__mro__[1:]], str(e)[:300])
    out['outcome'] = outcome[0] if outcome[0] == 'return' else f'raise {outcome[1]}: {outcome[3]}'
    rz = spec('raises')
    out['raises_spec'] = {k: bool(v) for k, v in rz.items()}
    if outcome[0] == 'raise':
        ename = outcome[1]
        key = ename if ename in rz else next((b for b in outcome[2] if b in rz), None)
        if key is None:
            failed.append(f'raises[unexpected:{ename}]')
        elif not rz[key]:
            failed.append(f'raises[{key}]')
    else:
        out['result'] = show(outcome[1])
        for k, v in rz.items():
            if v:
                failed.append(f'noraise[{k}]')
        try:
            post = spec('post', {'result': outcome[1], 'old': old_ns})
            out['post'] = {k: bool(v) for k, v in post.items()}
            failed += [f'post[{k}]' for k, v in out['post'].items() if not v]
        except Exception as e:
            out['post_error'] = f'{type(e).__name__}: {e}'
            out['traceback'] = traceback.format_exc()[-1500:]
            out['verdict'] = 'harness-error'
            return out, 3
        for a in args.values():
            if isinstance(a, ScriptedRandom):
                out['draws'] = a.draws
        cc = (getattr(C, 'options', {}) or {}).get('call_counts', {})
        for callee, cnt in cc.items():
            if 'randbits' in callee and 'draws' in out and out['draws'] != cnt:
                failed.append(f'calls[{callee}=={cnt}]')
    out['failed'] = failed
    out['verdict'] = 'contract-violated' if failed else 'holds'
    return out, (1 if failed else 0)


def main():
    path = sys.argv[1]
    with open(path) as f:
        doc = json.load(f)
    try:
        out, code = replay(doc)
    except Exception as e:
        out = {'verdict': 'harness-error', 'error': f'{type(e).__name__}: {e}', 'traceback': traceback.format_exc()[-2000:]}
        code = 3
    print(json.dumps(out, indent=1, default=str))
    sys.exit(code)


if __name__ == '__main__':
    main()
