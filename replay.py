#!/venv/bin/python
"""
Native replay: run a counterexample (or any concrete input) against the REAL
code of /repo under /venv/bin/python and evaluate the contract natively.

  /venv/bin/python /verif/replay.py <file.json>          -> prints a JSON verdict

The contract / spec files are imported as ordinary Python (speclib gives the
vocabulary its native meaning), the inputs are rebuilt as real fpy2 objects.
Exit 0: every clause held (or the precondition was not met);
exit 1: a clause of the contract failed on the real code; exit 3: harness error.
"""
import copy
import importlib
import json
import os
import random
import struct
import sys
import traceback
from fractions import Fraction

HERE = os.path.dirname(os.path.abspath(__file__))
REPO = os.environ.get('FPY_REPO', '/repo')
sys.path.insert(0, HERE)
sys.path.insert(0, REPO)


def _cls(qual):
    mod, _, name = qual.partition(':')
    m = importlib.import_module(mod)
    o = m
    for part in name.split('.'):
        o = getattr(o, part)
    return o


class ScriptedRandom(random.Random):
    """random.Random whose getrandbits(k) returns the scripted ghost draw; counts draws."""

    def __init__(self, fn):
        super().__init__(0)
        self._fn = fn
        self.draws = 0

    def getrandbits(self, k):
        self.draws += 1
        return self._fn(k)


class KeyBuilder:
    """
    Template-based builder for the opaque keys of C15 counterexamples (pyvc/containers.py):
    a model element of sort Key_<Class> becomes a tiny real object of that class.
      NamedId    -> NamedId('k<i>')
      Expr       -> Integer(0)                      (no variable uses: the expression visit accepts it)
      StmtBlock  -> [x = 0 for x in gen_block(b, .)] + [return 0 if term_block(b) / not cc_block(b, True)]
      TupleBinding -> (names with binds_tuple(p, .))
      <Stmt class> -> a minimal statement of that class
    The ghost tables of the model only steer the *construction*; during replay the ghost predicates
    are evaluated by the native reference implementation spec/c15_ref.py on the built objects.
    """

    def __init__(self, doc):
        self.ghost = doc.get('ghost') or {}
        self.memo = {}
        self.names = []          # universe element names of sort NamedId
        self._scan(doc.get('args'))

    def _scan(self, v):
        if isinstance(v, list):
            for x in v:
                self._scan(x)
        elif isinstance(v, dict):
            if v.get('$key') == 'NamedId' and v['name'] not in self.names:
                self.names.append(v['name'])
            if v.get('$map') == 'NamedId' or v.get('$set') == 'NamedId':
                for u in v.get('universe', []):
                    if u not in self.names:
                        self.names.append(u)
            for x in v.values():
                self._scan(x)

    def table(self, name, *args, default=False):
        ent = self.ghost.get(name)
        if ent is None:
            return default
        for a, r in ent['table']:
            if list(a) == list(args):
                return r
        return ent['else'] if ent['else'] is not None else default

    def all_keys(self):
        return list(self.memo.values())

    def key(self, kname, name):
        mk = (kname, name)
        if mk in self.memo:
            return self.memo[mk]
        from fpy2.utils import NamedId
        import fpy2.ast.fpyast as A
        zero = lambda: A.Integer(0, None)
        if kname == 'NamedId':
            if name not in self.names:
                self.names.append(name)
            o = NamedId('k' + 'abcdefghij'[self.names.index(name) % 10] * (1 + self.names.index(name) // 10))
        elif kname == 'Expr':
            # C15 extension: an expression that uses exactly the names the model's `uses(e, .)` table lists
            used = [u for u in list(self.names) if self.table('uses', name, u, True) or self.table('uses', name, u, False)]
            o = zero() if not used else (A.Var(self.key('NamedId', used[0]), None) if len(used) == 1 else
                                         A.TupleExpr([A.Var(self.key('NamedId', u), None) for u in used], None))
        elif kname == 'StmtBlock':
            gen = [u for u in list(self.names) if self.table('gen_block', name, u)]
            if 'term_block' in self.ghost or 'gen_block' in self.ghost:
                ret = bool(self.table('term_block', name))
            else:
                ret = not self.table('cc_block', name, True, default=True)
            stmts = [A.Assign(self.key('NamedId', u), None, zero(), None) for u in gen]
            if ret:
                stmts.append(A.ReturnStmt(zero(), None))
            if not stmts:
                stmts.append(A.PassStmt(None))
            o = A.StmtBlock(stmts)
        elif kname == 'Stmt':
            # an abstract statement with the model's gen/term (or can-complete) behaviour
            gen = [u for u in list(self.names) if self.table('gen_stmt', name, u)]
            if 'term_stmt' in self.ghost or 'gen_stmt' in self.ghost:
                ret = bool(self.table('term_stmt', name))
            else:
                ret = not self.table('cc_stmt', name, True, default=True)
            if ret:
                o = A.ReturnStmt(zero(), None)
            elif gen:
                mk = lambda: A.StmtBlock([A.Assign(self.key('NamedId', u), None, zero(), None) for u in gen])
                o = A.IfStmt(zero(), mk(), mk(), None)
            else:
                o = A.PassStmt(None)
        elif kname == 'TupleBinding':
            o = A.TupleBinding([self.key('NamedId', u) for u in list(self.names) if self.table('binds_tuple', name, u)], None)
        elif kname == 'Assign':
            o = A.Assign(NamedId('tmp'), None, zero(), None)
        elif kname == 'IndexedAssign':
            o = A.IndexedAssign(NamedId('tmp'), [zero()], zero(), None)
        elif kname == 'AssertStmt':
            o = A.AssertStmt(zero(), None, None)
        elif kname == 'EffectStmt':
            o = A.EffectStmt(zero(), None)
        elif kname == 'ReturnStmt':
            o = A.ReturnStmt(zero(), None)
        elif kname == 'PassStmt':
            o = A.PassStmt(None)
        else:
            raise ValueError(f'no template for a key of class {kname}')
        self.memo[mk] = o
        return o


_KB = None
_ABSTRACT_STANDINS: dict = {}


def build(v, env, ghost_fn):
    if v is None or isinstance(v, (bool, int, str)):
        return v
    if isinstance(v, list):
        return [build(x, env, ghost_fn) for x in v]
    if isinstance(v, dict):
        if '$ref' in v:
            return env[v['$ref']]
        if '$frac' in v:
            return Fraction(v['$frac'][0], v['$frac'][1])
        if '$float_bits' in v:
            return struct.unpack('<d', v['$float_bits'].to_bytes(8, 'little'))[0]
        if '$tuple' in v:
            return tuple(build(x, env, ghost_fn) for x in v['$tuple'])
        if '$range' in v:
            return range(v['$range'][0], v['$range'][1])
        if '$enum' in v:
            return getattr(_cls(v['$enum']), v['member'])
        if '$flag' in v:
            return _cls(v['$flag'])(v['bits'])
        if '$default' in v:
            from fpy2.utils import DEFAULT
            return DEFAULT
        if '$key' in v:
            return _KB.key(v['$key'], v['name'])
        if '$map' in v:
            for u in v.get('universe', []):
                _KB.key(v['$map'], u)
            return {_KB.key(v['$map'], k): x for k, x in v['items']}
        if '$set' in v:
            for u in v.get('universe', []):
                _KB.key(v['$set'], u)
            return {_KB.key(v['$set'], k) for k in v['items']}
        if '$kseq' in v and v.get('pairs'):      # zipseqs: tuple[tuple[str, K], ...]
            return tuple((f'kw{i}', _KB.key(v['$kseq'], k)) for i, k in enumerate(v['items']))
        if '$kseq' in v:
            return tuple(_KB.key(v['$kseq'], k) for k in v['items'])
        if '$numstr' in v:
            return build_numstr(v['$numstr'])
        if '$opaque' in v:
            tag = v['$opaque']
            if 'rng' in tag or 'Random' in tag:
                return ScriptedRandom(ghost_fn('draw'))
            if 'FpyCtx' in tag:
                # the ambient context of an FPy-dialect contract: a concrete stand-in chosen by replay()
                env['__used_ctx__'] = True
                return env.get('__ctx__')
            return None
        if '$obj' in v:
            cls = _cls(v['$obj'])
            if getattr(cls, '__standin_abstract__', False):
                if 'id' in v:
                    env[v['id']] = None
                return None         # C07: an abstract program / analysis; replaced by a candidate (replay())
            import inspect as _inspect
            if _inspect.isabstract(cls) and cls.__name__ == 'Context':
                # an ARBITRARY rounding context (C20): a concrete stand-in chosen by replay()
                env['__used_ctx__'] = True
                return env.get('__ctx__')
            if _inspect.isabstract(cls):
                # an object of an abstract class (C19x: an arbitrary `Expr` child): a concrete subclass that adds nothing
                cls = _ABSTRACT_STANDINS.setdefault(cls, type(cls.__name__, (cls,), {
                    m: (lambda self, *a, **k: None) for m in cls.__abstractmethods__}))
            obj = cls.__new__(cls)
            if 'id' in v:
                env[v['id']] = obj
            for k, x in v['fields'].items():
                try:
                    object.__setattr__(obj, k, build(x, env, ghost_fn))
                except AttributeError:
                    pass
            return obj
    raise ValueError(f'cannot build {v!r}')


def digit_string(val, length, base):
    """the base-`base` digit string of exactly `length` digits (leading zeros) whose positional value is `val`"""
    if val < 0 or length < 0 or val >= base ** length:
        raise ValueError(f'non-standard digit string: value {val} does not fit {length} base-{base} digits')
    out = ''
    for _ in range(length):
        out = '0123456789abcdef'[val % base] + out
        val //= base
    return out


def build_numstr(d):
    """rebuild the text of a symbolic numeral spelling from its decomposition (pyvc/strings.py)"""
    kind = d.get('kind')
    if kind == 'none':
        return '0'
    if not d['matches']:
        return '?'              # any string outside the grammar
    base, prefix, marker = (10, '', 'e') if kind == 'dec' else (16, '0x', 'p')
    sg = ['', '+', '-']
    out = sg[d['sign']] + prefix + digit_string(d['I'][0], d['I'][1], base)
    if d['has_frac']:
        out += '.' + digit_string(d['F'][0], d['F'][1], base)
    if d['has_exp']:
        out += marker + sg[d['esign']] + digit_string(d['E'][0], d['E'][1], 10)
    return out


def make_ghost(ghost):
    def get(name):
        ent = (ghost or {}).get(name, {'table': [], 'else': 0})
        table = {tuple(a): r for a, r in ent['table']}

        def fn(*args):
            return table.get(tuple(args), ent['else'] if ent['else'] is not None else 0)
        return fn
    return get


def show(v, depth=0):
    try:
        if type(v).__name__ == '_Env':
            return f'_Env(env={v.env!r}, terminated={v.terminated})'
        if type(v).__name__ == '_DeadCodeEliminate':
            return f'_DeadCodeEliminate(func={show(v.func)})'
        if type(v).__name__ == 'FuncDefM':
            return 'FuncDef<' + ' ; '.join(v.format().split('\n')[1:]) + '>'
        if type(v).__name__ == '_Ctx':
            return f'_Ctx(env={show(v.env)}, within_call={v.within_call})'
        return repr(v)
    except Exception as e:
        return f'<{type(v).__name__} (repr failed: {e})>'


def candidate_contexts(doc, C):
    """concrete contexts tried in place of an arbitrary / ambient context"""
    import fpy2 as fp
    opts = getattr(C, 'options', {}) or {}
    if opts.get('fpy_rnd') == 'rne':
        return [fp.MPFloatContext(int(doc['args']['p']), fp.RM.RNE)]
    if opts.get('fpy_rnd'):
        # bounded dialect under another rounding mode (pyvc/fpyround.py): the option names it, or the parameter `rm`
        rm = doc['args'].get('rm')
        name = rm['member'] if isinstance(rm, dict) else str(opts['fpy_rnd']).upper()
        return [fp.MPFloatContext(int(doc['args']['p']), getattr(fp.RM, name))]
    return [fp.REAL, fp.FP64, fp.MPFloatContext(2, fp.RM.RNE), fp.MPFloatContext(3, fp.RM.RNE), fp.MPFloatContext(3, fp.RM.RTZ),
            fp.MPFloatContext(5, fp.RM.RTP), fp.FP32, fp.INTEGER, fp.S1E4M3, fp.MPFixedContext(-3, fp.RM.RNE)]


def replay(doc, ghost_override=None):
    """replay once; when the inputs contain an arbitrary context, once per concrete stand-in (first violation wins)"""
    cmod = importlib.import_module(doc['contract_module'])
    cands = getattr(getattr(cmod, doc['contract']), 'native_candidates', None)
    if cands:
        # C07: the counterexample is an ABSTRACT program (def-use structure); search the contract's family of
        # real candidate programs for one that violates the contract (first violation wins)
        first = None
        for i, cand in enumerate(_cls(cands)(doc)):
            try:
                out, code = replay_with(doc, None, ghost_override, cand=cand)
            except Exception as e:
                out, code = {'verdict': 'harness-error', 'error': f'{type(e).__name__}: {e}',
                             'traceback': traceback.format_exc()[-1500:]}, 3
            out['candidate'] = i
            if code == 1:
                return out, code
            if first is None or (first[1] == 3 and code == 0):
                first = (out, code)
        return first
    out, code = replay_with(doc, None, ghost_override)
    if not out.get('abstract_ctx'):
        return out, code
    first = None
    for cand in candidate_contexts(doc, getattr(cmod, doc['contract'])):
        try:
            out, code = replay_with(doc, cand, ghost_override)
        except Exception as e:
            out, code = {'verdict': 'harness-error', 'error': f'{type(e).__name__}: {e}', 'ctx': repr(cand)}, 3
        out['ctx'] = repr(cand)
        if code == 1:
            return out, code
        if first is None or (first[1] == 3 and code == 0):
            first = (out, code)
    return first


def replay_with(doc, ctx_standin, ghost_override=None, cand=None):
    import speclib
    ghost_fn = make_ghost(doc.get('ghost'))
    speclib.GHOST.clear()
    for name in (doc.get('ghost') or {}):
        speclib.GHOST[name] = ghost_fn(name)
    speclib.GHOST.setdefault('draw', ghost_fn('draw'))
    if ghost_override is not None:
        speclib.GHOST['draw'] = ghost_override
        ghost_fn = lambda name: ghost_override
    cmod = importlib.import_module(doc['contract_module'])
    C = getattr(cmod, doc['contract'])
    env = {'__ctx__': ctx_standin}
    global _KB
    _KB = KeyBuilder(doc)
    pending = {k: v for k, v in doc['args'].items() if cand is None or k not in cand}
    built = {}
    for _ in range(len(pending) + 1):          # a '$ref' may point at an argument built later
        for k in list(pending):
            try:
                built[k] = build(pending[k], env, ghost_fn)
                del pending[k]
            except KeyError:
                pass
    if pending:
        raise KeyError(f'unresolved $ref in arguments {sorted(pending)}')
    args = {k: (cand[k] if cand is not None and k in cand else built[k]) for k in doc['args']}
    if _KB.memo:
        # C15: ghosts over AST nodes mean the reference rule set on the real objects; forall_keys ranges
        # over every key built from the model plus two names that occur nowhere
        from spec import c15_ref
        from fpy2.utils import NamedId
        speclib.GHOST.update(c15_ref.GHOSTS)
        from spec import c15x_ref     # C15 extension: free uses of expressions, comprehension scoping
        speclib.GHOST.update(c15x_ref.GHOSTS)
        speclib.KEY_UNIVERSE[:] = _KB.all_keys() + [NamedId('zz_unused_a'), NamedId('zz_unused_b')]
    if getattr(C, 'native_ghosts', None):
        # C07: ghosts read off the real analyses; forall_keys ranges over the nodes / definitions of the program
        speclib.GHOST.update(_cls(C.native_ghosts))
        speclib.KEY_UNIVERSE[:] = _cls(C.native_universe)(args)
    out = {'contract': doc['contract'], 'obligation': doc.get('obligation'), 'inputs': {k: show(v) for k, v in args.items()}}
    if env.get('__used_ctx__') and ctx_standin is None:
        out['abstract_ctx'] = True
        out['verdict'] = 'needs-context'
        return out, 0

    def spec(fname, extra=None):
        fn = C.__dict__.get(fname)
        if fn is None:
            return {}
        import inspect
        names = list(inspect.signature(fn).parameters)
        kw = {}
        for n in names:
            if n in args:
                kw[n] = args[n]
            elif extra and n in extra:
                kw[n] = extra[n]
            elif n == 'self':
                kw[n] = None        # contract of a module-level function
                if fname == 'post' and extra and 'result' in extra and str(getattr(C, 'target', '')).endswith('.__init__'):
                    kw[n] = extra['result']      # constructor: the post speaks about the constructed object
        return fn(**kw)

    pre = spec('pre')
    out['pre'] = {k: bool(v) for k, v in pre.items()}
    if not all(out['pre'].values()):
        out['verdict'] = 'precondition-not-met'
        return out, 0
    kind = getattr(C, '__bases__', ())
    target = getattr(C, 'target', None)
    failed = []
    if target is None:
        # lemma
        post = spec('post')
        out['post'] = {k: bool(v) for k, v in post.items()}
        failed = [k for k, v in out['post'].items() if not v]
        out['verdict'] = 'lemma-fails' if failed else 'holds'
        out['failed'] = failed
        return out, (1 if failed else 0)
    mod, _, qual = target.partition(':')
    m = importlib.import_module(mod)
    parts = qual.split('.')
    old_ns = type('Old', (), {})()
    try:
        snap = copy.deepcopy({k: v for k, v in args.items() if not isinstance(v, ScriptedRandom)})
    except Exception:
        snap = {}
    for k, v in snap.items():
        setattr(old_ns, k, v)
    is_init = parts[-1] == '__init__'
    # callees that the contract treats by a TRUSTED contract may name a native stub realising it
    for tgt, stub in (getattr(C, 'native_stubs', None) or {}).items():
        owner = _cls(tgt.rpartition('.')[0]) if '.' in tgt.partition(':')[2] else importlib.import_module(tgt.partition(':')[0])
        attr = tgt.rpartition('.')[2] if '.' in tgt.partition(':')[2] else tgt.partition(':')[2]
        setattr(owner, attr, _cls(stub)(getattr(owner, attr)))
    try:
        if len(parts) == 1:
            fn = getattr(m, parts[0])
            kind = type(fn).__name__
            if kind == 'Primitive':
                # @fpy_primitive: the decorated Python function itself
                res = fn.func(**args)
            elif kind == 'Function':
                # @fpy: positional operands (assembled from (m, e) pairs for bounded contracts), ambient context by keyword
                pairs = (getattr(C, 'options', {}) or {}).get('fpy_operands') or {}
                pos = []
                for a in fn.args:
                    nm = str(a.name)
                    if nm in args:
                        pos.append(args[nm])
                    else:
                        mm, ee = pairs[nm]
                        pos.append(Fraction(args[mm]) * Fraction(2) ** args[ee])
                res = fn(*pos, ctx=args['ctx'])
            else:
                # GHOST parameters (declared by the contract, not by the target) are for pre/post only (C19x)
                call_args = args
                try:
                    import inspect
                    sig = inspect.signature(fn)
                    if not any(p.kind == p.VAR_KEYWORD for p in sig.parameters.values()):
                        call_args = {k: v for k, v in args.items() if k in sig.parameters}
                except (TypeError, ValueError):
                    pass
                res = fn(**call_args)
        else:
            cls = getattr(m, parts[0])
            raw = cls.__dict__.get(parts[1])
            if raw is None:
                raw = getattr(cls, parts[1])
            rest = {k: v for k, v in args.items() if k not in ('self', 'cls')}
            # GHOST parameters (declared by the contract, not by the target) are for pre/post only
            try:
                import inspect
                fobj = raw.__func__ if isinstance(raw, (staticmethod, classmethod)) else (raw.fget if isinstance(raw, property) else raw)
                sig = inspect.signature(fobj)
                if not any(p.kind == p.VAR_KEYWORD for p in sig.parameters.values()):
                    rest = {k: v for k, v in rest.items() if k in sig.parameters}
            except (TypeError, ValueError):
                pass
            if is_init:
                obj = cls.__new__(cls)
                cls.__init__(obj, **rest)
                res = obj
                if 'self' in args:
                    args['self'] = obj      # the postcondition of __init__ speaks about the constructed object
            elif isinstance(raw, staticmethod):
                res = raw.__func__(**rest)
            elif isinstance(raw, classmethod):
                res = raw.__func__(args.get('cls', cls), **rest)
            elif isinstance(raw, property):
                res = raw.fget(args['self'])
            else:
                res = raw(args['self'], **rest)
        outcome = ('return', res)
    except Exception as e:           # the real code raised
        outcome = ('raise', type(e).__name__, [c.__name__ for c in type(e).__mro__[1:]], str(e)[:300])
    out['outcome'] = outcome[0] if outcome[0] == 'return' else f'raise {outcome[1]}: {outcome[3]}'
    rz = spec('raises')
    out['raises_spec'] = {k: bool(v) for k, v in rz.items()}
    if outcome[0] == 'raise':
        ename = outcome[1]
        key = ename if ename in rz else next((b for b in outcome[2] if b in rz), None)
        if key is None and (ename in getattr(C, 'may_raise', []) or any(b in getattr(C, 'may_raise', []) for b in outcome[2])):
            pass
        elif key is None:
            failed.append(f'raises[unexpected:{ename}]')
        elif not rz[key]:
            failed.append(f'raises[{key}]')
    else:
        out['result'] = show(outcome[1])
        if getattr(C, 'native_demo', None):
            try:
                out['demo'] = _cls(C.native_demo)(args, outcome[1])
            except Exception as e:
                out['demo'] = f'{type(e).__name__}: {e}'
        for k, v in rz.items():
            if v:
                failed.append(f'noraise[{k}]')
        try:
            post = spec('post', {'result': outcome[1], 'old': old_ns})
            out['post'] = {k: bool(v) for k, v in post.items()}
            failed += [f'post[{k}]' for k, v in out['post'].items() if not v]
        except Exception as e:
            out['post_error'] = f'{type(e).__name__}: {e}'
            out['traceback'] = traceback.format_exc()[-1500:]
            out['verdict'] = 'harness-error'
            return out, 3
        for a in args.values():
            if isinstance(a, ScriptedRandom):
                out['draws'] = a.draws
        cc = (getattr(C, 'options', {}) or {}).get('call_counts', {})
        for callee, cnt in cc.items():
            if 'randbits' in callee and 'draws' in out and out['draws'] != cnt:
                failed.append(f'calls[{callee}=={cnt}]')
    out['failed'] = failed
    out['verdict'] = 'contract-violated' if failed else 'holds'
    return out, (1 if failed else 0)


def main():
    path = sys.argv[1]
    with open(path) as f:
        doc = json.load(f)
    try:
        out, code = replay(doc)
    except Exception as e:
        out = {'verdict': 'harness-error', 'error': f'{type(e).__name__}: {e}', 'traceback': traceback.format_exc()[-2000:]}
        code = 3
    print(json.dumps(out, indent=1, default=str))
    sys.exit(code)


if __name__ == '__main__':
    main()
