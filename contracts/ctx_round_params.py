"""
T3 (C03) / C17 mechanism "engine precision widened by the random bits": every
stochastic-capable context reports (max_p, min_n) widened by its k random bits,
so that the round-to-odd intermediate keeps the k extra digits the stochastic
step inspects: (pmax + k, nmin - k), with None for an unbounded component, and
(None, None) when all bits are random (k is None).
"""
from speclib import *


def _widened(pmax, nmin, k, result):
    p, n = result
    return {
        'all_bits': implies(k is None, p is None and n is None),
        'p': (((p is not None and p == pmax + k) if pmax is not None else p is None)) if k is not None else True,
        'n': (((n is not None and n == nmin - k) if nmin is not None else n is None)) if k is not None else True,
    }


class MPFloatContext_round_params(Contract):
    target = 'fpy2.number.context.mp_float:MPFloatContext.round_params'
    params = {'self': 'MPFloatContext'}
    returns = 'tuple[int | None, int | None]'
    properties = ['C17', 'C03']

    def post(self, result):
        return _widened(self.pmax, None, self.num_randbits, result)

    def raises(self):
        return {}


class MPSFloatContext_round_params(Contract):
    target = 'fpy2.number.context.mps_float:MPSFloatContext.round_params'
    params = {'self': 'MPSFloatContext'}
    returns = 'tuple[int | None, int | None]'
    properties = ['C17', 'C03']

    def post(self, result):
        return _widened(self.pmax, self.nmin, self.num_randbits, result)

    def raises(self):
        return {}


class MPBFloatContext_round_params(Contract):
    target = 'fpy2.number.context.mpb_float:MPBFloatContext.round_params'
    params = {'self': 'MPBFloatContext'}
    returns = 'tuple[int | None, int | None]'
    properties = ['C17', 'C03']

    def post(self, result):
        return _widened(self.pmax, self.nmin, self.num_randbits, result)

    def raises(self):
        return {}


class MPFixedContext_round_params(Contract):
    target = 'fpy2.number.context.mp_fixed:MPFixedContext.round_params'
    params = {'self': 'MPFixedContext'}
    returns = 'tuple[int | None, int | None]'
    properties = ['C17', 'C03']

    def post(self, result):
        return _widened(None, self.nmin, self.num_randbits, result)

    def raises(self):
        return {}


class MPBFixedContext_round_params(Contract):
    target = 'fpy2.number.context.mpb_fixed:MPBFixedContext.round_params'
    params = {'self': 'MPBFixedContext'}
    returns = 'tuple[int | None, int | None]'
    properties = ['C17', 'C03']

    def post(self, result):
        return _widened(None, self.nmin, self.num_randbits, result)

    def raises(self):
        return {}
