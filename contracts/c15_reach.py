"""
C15 / D4: `Reachability` — each `_visit_<stmt>` returns can_complete(stmt) per the rules, and
`Reachability.analyze(check_no_fallthrough=True)` raises iff the body can complete.

    can_complete(simple stmt, entry) = entry            can_complete(return) = False
    can_complete(if c: b) = can_complete(while) = can_complete(for) = entry or cc_block(body, entry)
    can_complete(if/else) = cc_block(ift, entry) or cc_block(iff, entry)
    can_complete(with)    = cc_block(body, entry)

ASSUMED (trusted): `_ReachabilityInstance._visit_block(block, ctx)` returns cc_block(block, ctx.is_reachable)
(uninterpreted; the fold over block.stmts, which also records has_entry/has_exit, is not verified).
"""
from speclib import *
from spec.c15 import *
from spec.c15x import *


class RI__visit_statement(Contract):
    target = 'fpy2.analysis.reachability:_ReachabilityInstance._visit_statement'
    params = {'self': '_ReachabilityInstance',
              'stmt': 'Assign | IndexedAssign | If1Stmt | IfStmt | WhileStmt | ForStmt | ContextStmt | AssertStmt | EffectStmt | ReturnStmt | PassStmt',
              'ctx': '_ReachabilityCtx'}
    overrides = {'stmt.target': 'Key[NamedId] | UnderscoreId | Key[TupleBinding]', 'stmt.expr': 'Key[Expr]',
                 'stmt.cond': 'Key[Expr]', 'stmt.body': 'Key[StmtBlock]', 'stmt.ift': 'Key[StmtBlock]',
                 'stmt.iff': 'Key[StmtBlock]', 'stmt.iterable': 'Key[Expr]', 'stmt.ctx': 'Key[Expr]',
                 'stmt.test': 'Key[Expr]', 'stmt.msg': 'Key[Expr] | None', 'stmt.var': 'Key[NamedId]',
                 'stmt.indices': 'KeySeq[Expr]'}
    split = ['stmt']
    returns = 'bool'
    properties = ['C15']
    modifies = ['self.has_entry', 'self.has_exit', 'self.ret_stmts']
    note = ('verified per statement class: records has_entry/has_exit, dispatches (ast/visitor.py) to the rule of the '
            'class and returns cc_stmt(stmt, entry) = the can-complete rule of spec/c15.py')

    def post(self, stmt, ctx, result, old):
        return dict(rctx_frame(ctx, old.ctx), **{'cc': result == cc_stmt(stmt, ctx.is_reachable)})

    def raises(self, stmt, ctx):
        return {}


class RI__visit_block(Contract):
    target = 'fpy2.analysis.reachability:_ReachabilityInstance._visit_block'
    params = {'self': '_ReachabilityInstance', 'block': 'StmtBlock', 'ctx': '_ReachabilityCtx'}
    overrides = {'block.stmts': 'KeySeq[Stmt]'}
    returns = 'bool'
    properties = ['C15']
    modifies = ['self.has_entry', 'self.has_exit', 'self.ret_stmts']
    options = {'loop_modifies': {0: ['self.has_entry', 'self.has_exit', 'self.ret_stmts']}}
    note = ('verified: loop over block.stmts with invariant inv0; axioms = DEFINITION of cc_block as the fold of cc_stmt')

    def axioms(self, block, ctx):
        return cc_fold_def(block, ctx.is_reachable)

    def inv0(self, block, ctx, done, old):
        return {'cc': ctx.is_reachable == cc_prefix(block, done, old.ctx.is_reachable)}

    def post(self, block, ctx, result, old):
        return dict(rctx_frame(ctx, old.ctx), **{'cc': result == cc_block(block, ctx.is_reachable)})

    def raises(self, block, ctx):
        return {}


class RI_simple(Contract):
    target = 'fpy2.analysis.reachability:_ReachabilityInstance._visit_assign'
    params = {'self': '_ReachabilityInstance', 'stmt': 'Key[Assign]', 'ctx': '_ReachabilityCtx'}
    returns = 'bool'
    properties = ['C15']

    def post(self, stmt, ctx, result, old):
        return dict(rctx_frame(ctx, old.ctx), **{'cc': result == ctx.is_reachable})

    def raises(self, stmt, ctx):
        return {}


class RI_indexed_assign(Contract):
    target = 'fpy2.analysis.reachability:_ReachabilityInstance._visit_indexed_assign'
    params = {'self': '_ReachabilityInstance', 'stmt': 'Key[IndexedAssign]', 'ctx': '_ReachabilityCtx'}
    returns = 'bool'
    properties = ['C15']

    def post(self, stmt, ctx, result, old):
        return dict(rctx_frame(ctx, old.ctx), **{'cc': result == ctx.is_reachable})

    def raises(self, stmt, ctx):
        return {}


class RI_assert(Contract):
    target = 'fpy2.analysis.reachability:_ReachabilityInstance._visit_assert'
    params = {'self': '_ReachabilityInstance', 'stmt': 'Key[AssertStmt]', 'ctx': '_ReachabilityCtx'}
    returns = 'bool'
    properties = ['C15']

    def post(self, stmt, ctx, result, old):
        return dict(rctx_frame(ctx, old.ctx), **{'cc': result == ctx.is_reachable})

    def raises(self, stmt, ctx):
        return {}


class RI_effect(Contract):
    target = 'fpy2.analysis.reachability:_ReachabilityInstance._visit_effect'
    params = {'self': '_ReachabilityInstance', 'stmt': 'Key[EffectStmt]', 'ctx': '_ReachabilityCtx'}
    returns = 'bool'
    properties = ['C15']

    def post(self, stmt, ctx, result, old):
        return dict(rctx_frame(ctx, old.ctx), **{'cc': result == ctx.is_reachable})

    def raises(self, stmt, ctx):
        return {}


class RI_pass(Contract):
    target = 'fpy2.analysis.reachability:_ReachabilityInstance._visit_pass'
    params = {'self': '_ReachabilityInstance', 'stmt': 'Key[PassStmt]', 'ctx': '_ReachabilityCtx'}
    returns = 'bool'
    properties = ['C15']

    def post(self, stmt, ctx, result, old):
        return dict(rctx_frame(ctx, old.ctx), **{'cc': result == ctx.is_reachable})

    def raises(self, stmt, ctx):
        return {}


class RI_return(Contract):
    target = 'fpy2.analysis.reachability:_ReachabilityInstance._visit_return'
    params = {'self': '_ReachabilityInstance', 'stmt': 'Key[ReturnStmt]', 'ctx': '_ReachabilityCtx'}
    returns = 'bool'
    properties = ['C15']
    modifies = ['self.ret_stmts']

    def post(self, stmt, ctx, result, old):
        return dict(rctx_frame(ctx, old.ctx), **{
            'cc': result == False,
            'recorded': forall_keys('ReturnStmt', lambda k: (k in self.ret_stmts) == ((k in old.self.ret_stmts) or k == stmt)),
        })

    def raises(self, stmt, ctx):
        return {}


class RI_if1(Contract):
    target = 'fpy2.analysis.reachability:_ReachabilityInstance._visit_if1'
    params = {'self': '_ReachabilityInstance', 'stmt': 'If1Stmt', 'ctx': '_ReachabilityCtx'}
    overrides = {'stmt.cond': 'Key[Expr]', 'stmt.body': 'Key[StmtBlock]'}
    returns = 'bool'
    properties = ['C15']
    modifies = ['self.has_entry', 'self.has_exit', 'self.ret_stmts']

    def post(self, stmt, ctx, result, old):
        return dict(rctx_frame(ctx, old.ctx), **{'cc': result == (ctx.is_reachable or cc_block(stmt.body, ctx.is_reachable))})

    def raises(self, stmt, ctx):
        return {}


class RI_while(Contract):
    target = 'fpy2.analysis.reachability:_ReachabilityInstance._visit_while'
    params = {'self': '_ReachabilityInstance', 'stmt': 'WhileStmt', 'ctx': '_ReachabilityCtx'}
    overrides = {'stmt.cond': 'Key[Expr]', 'stmt.body': 'Key[StmtBlock]'}
    returns = 'bool'
    properties = ['C15']
    modifies = ['self.has_entry', 'self.has_exit', 'self.ret_stmts']

    def post(self, stmt, ctx, result, old):
        return dict(rctx_frame(ctx, old.ctx), **{'cc': result == (ctx.is_reachable or cc_block(stmt.body, ctx.is_reachable))})

    def raises(self, stmt, ctx):
        return {}


class RI_for(Contract):
    target = 'fpy2.analysis.reachability:_ReachabilityInstance._visit_for'
    params = {'self': '_ReachabilityInstance', 'stmt': 'ForStmt', 'ctx': '_ReachabilityCtx'}
    overrides = {'stmt.target': 'Key[NamedId] | UnderscoreId | Key[TupleBinding]', 'stmt.iterable': 'Key[Expr]',
                 'stmt.body': 'Key[StmtBlock]'}
    returns = 'bool'
    properties = ['C15']
    modifies = ['self.has_entry', 'self.has_exit', 'self.ret_stmts']

    def post(self, stmt, ctx, result, old):
        return dict(rctx_frame(ctx, old.ctx), **{'cc': result == (ctx.is_reachable or cc_block(stmt.body, ctx.is_reachable))})

    def raises(self, stmt, ctx):
        return {}


class RI_if(Contract):
    target = 'fpy2.analysis.reachability:_ReachabilityInstance._visit_if'
    params = {'self': '_ReachabilityInstance', 'stmt': 'IfStmt', 'ctx': '_ReachabilityCtx'}
    overrides = {'stmt.cond': 'Key[Expr]', 'stmt.ift': 'Key[StmtBlock]', 'stmt.iff': 'Key[StmtBlock]'}
    returns = 'bool'
    properties = ['C15']
    modifies = ['self.has_entry', 'self.has_exit', 'self.ret_stmts']

    def post(self, stmt, ctx, result, old):
        return dict(rctx_frame(ctx, old.ctx), **{'cc': result == (cc_block(stmt.ift, ctx.is_reachable) or cc_block(stmt.iff, ctx.is_reachable))})

    def raises(self, stmt, ctx):
        return {}


class RI_context(Contract):
    target = 'fpy2.analysis.reachability:_ReachabilityInstance._visit_context'
    params = {'self': '_ReachabilityInstance', 'stmt': 'ContextStmt', 'ctx': '_ReachabilityCtx'}
    overrides = {'stmt.target': 'Key[NamedId] | UnderscoreId', 'stmt.ctx': 'Key[Expr]', 'stmt.body': 'Key[StmtBlock]'}
    returns = 'bool'
    properties = ['C15']
    modifies = ['self.has_entry', 'self.has_exit', 'self.ret_stmts']

    def post(self, stmt, ctx, result, old):
        return dict(rctx_frame(ctx, old.ctx), **{'cc': result == cc_block(stmt.body, ctx.is_reachable)})

    def raises(self, stmt, ctx):
        return {}


class RI_analyze(Contract):
    target = 'fpy2.analysis.reachability:_ReachabilityInstance.analyze'
    params = {'self': '_ReachabilityInstance'}
    overrides = {'self.func.body': 'Key[StmtBlock]'}
    returns = 'ReachabilityAnalysis'
    properties = ['C15']
    modifies = ['self.has_entry', 'self.has_exit', 'self.ret_stmts']

    def post(self, result):
        return {'fallthrough': result.has_fallthrough == cc_block(self.func.body, True)}

    def raises(self):
        return {}


class Reachability_analyze(Contract):
    target = 'fpy2.analysis.reachability:Reachability.analyze'
    params = {'func': 'FuncDef', 'check_all_reachable': 'bool', 'check_no_fallthrough': 'bool', 'check_single_exit': 'bool'}
    overrides = {'func.body': 'Key[StmtBlock]'}
    returns = 'ReachabilityAnalysis'
    properties = ['C15']
    note = ('restricted to check_all_reachable=False, check_single_exit=False (those two checks iterate the '
            'has_entry table / count ret_stmts and raise the same exception class; not covered)')

    def pre(check_all_reachable, check_single_exit):      # staticmethod target: no self
        return {'only_fallthrough_check': (not check_all_reachable) and (not check_single_exit)}

    def post(func, result):
        return {'fallthrough': result.has_fallthrough == cc_block(func.body, True)}

    def raises(func, check_no_fallthrough):
        # raises iff the body can complete (falls off its end)
        return {'ReachabilityError': check_no_fallthrough and cc_block(func.body, True)}
