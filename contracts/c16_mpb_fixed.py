from speclib import *
from spec.real import *
from spec.floats import *
from spec.c16 import *


class MPBFixedFormat_representable_in(Contract):
    target = 'fpy2.number.context.mpb_fixed:MPBFixedFormat.representable_in'
    options = {'light_axioms': True}     # propositional over the callee contracts: no product-splitting instances needed
    params = {'self': 'MPBFixedFormat', 'x': 'RealFloat | Float'}
    returns = 'bool'
    properties = ['C16']

    def post(self, x, result):
        # B4: member of the unbounded fixed-point set and within [neg_maxval, pos_maxval]
        return {'B4_member': result == mpbfx_inF(self, x)}

    def raises(self, x):
        return {}


class MPBFixedFormat_to_ordinal(Contract):
    target = 'fpy2.number.context.mpb_fixed:MPBFixedFormat.to_ordinal'
    options = {'light_axioms': True}     # propositional over the callee contracts: no product-splitting instances needed
    params = {'self': 'MPBFixedFormat', 'x': 'Float', 'infval': 'bool'}
    returns = 'int'
    properties = ['C16']

    def pre(self, x, infval):
        return {'ords': mpbfx_ords(self)}

    def post(self, x, infval, result):
        return {
            'B5_ord': implies(fl_finite(x), result == fx_ord(self._mp_fmt, x._real)),
            # with infval: the infinities sit one step beyond the extreme ordinals (= ord(pos_maxval), ord(neg_maxval))
            'pos_inf': implies(x._isinf and not x._real._s, result == self._pos_maxval_ord + 1),
            'neg_inf': implies(x._isinf and x._real._s, result == self._neg_maxval_ord - 1),
        }

    def raises(self, x, infval):
        return {
            'TypeError': not mpbfx_inF(self, x),
            'ValueError': mpbfx_inF(self, x) and (x._isnan or (x._isinf and not infval)),
        }


class MPBFixedFormat_from_ordinal(Contract):
    target = 'fpy2.number.context.mpb_fixed:MPBFixedFormat.from_ordinal'
    params = {'self': 'MPBFixedFormat', 'x': 'int', 'infval': 'bool'}
    returns = 'Float'
    properties = ['C16']

    def pre(self, x, infval):
        return {'ords': mpbfx_ords(self)}

    def post(self, x, infval, result):
        r = result
        lo = self._neg_maxval_ord
        hi = self._pos_maxval_ord
        inr = lo <= x and x <= hi
        return {
            # B5: the ordinals of the finite members are exactly the contiguous range [ord(neg_maxval), ord(pos_maxval)]
            'finite': implies(inr, fl_finite(r)),
            'fx_member': implies(inr, fx_inF(self._mp_fmt, r)),
            'B5_to_from': implies(inr, fx_ord(self._mp_fmt, r._real) == x),
            'pos_inf': implies(x > hi, r._isinf and not r._isnan and not r._real._s),
            'neg_inf': implies(x < lo, r._isinf and not r._isnan and r._real._s),
        }

    def raises(self, x, infval):
        lo = self._neg_maxval_ord
        hi = self._pos_maxval_ord
        return {'ValueError': ite(infval, x > hi + 1 or x < lo - 1, x > hi or x < lo)}


class MPBFixedFormat_maxval(Contract):
    target = 'fpy2.number.context.mpb_fixed:MPBFixedFormat.maxval'
    options = {'light_axioms': True}     # propositional over the callee contracts: no product-splitting instances needed
    params = {'self': 'MPBFixedFormat', 's': 'bool'}
    returns = 'Float'
    properties = ['C16']

    def pre(self, s):
        return {'bounds': mpbfx_ords(self)}

    def pre(self, s):
        return {'bounds': mpbfx_ords(self)}

    def pre(self, s):
        return {'bounds': mpbfx_ords(self)}

    def post(self, s, result):
        r = result
        return {
            'finite': fl_finite(r),
            # B6: the extreme member of the requested sign
            'B6_pos': implies(not s, same_real(r._real, self.pos_maxval)),
            'B6_neg': implies(s, same_real(r._real, self.neg_maxval)),
            # the returned extreme value is itself a member; stated separately for a zero bound
            # (MPBFixedFormat accepts pos_maxval = -0 even when -0 is not representable)
            'member': implies(s or self.pos_maxval._c > 0, mpbfx_inF(self, r)),
            'member_zero_bound': implies(not s and self.pos_maxval._c == 0, mpbfx_inF(self, r)),
        }

    def raises(self, s):
        return {'ValueError': s and self.neg_maxval._c == 0}


class MPBFixedFormat_minval(Contract):
    target = 'fpy2.number.context.mpb_fixed:MPBFixedFormat.minval'
    options = {'split_heavy': True}
    params = {'self': 'MPBFixedFormat', 's': 'bool'}
    returns = 'Float'
    properties = ['C16']

    def pre(self, s):
        return {'bounds': mpbfx_ords(self)}

    def pre(self, s):
        return {'bounds': mpbfx_ords(self)}

    def pre(self, s):
        return {'bounds': mpbfx_ords(self)}

    def post(self, s, result):
        r = result
        return {
            'finite': fl_finite(r),
            'sign': r._real._s == s,
            'B6_ord': fx_ord(self._mp_fmt, r._real) == ite(s, -1, 1),
            # the value of least magnitude is a member (ordinal within the range of the format)
            'B6_in_range': implies(s or self.pos_maxval._c > 0,
                                   self._neg_maxval_ord <= fx_ord(self._mp_fmt, r._real)
                                   and fx_ord(self._mp_fmt, r._real) <= self._pos_maxval_ord),
            'B6_in_range_zero_bound': implies(not s and self.pos_maxval._c == 0,
                                              fx_ord(self._mp_fmt, r._real) <= self._pos_maxval_ord),
        }

    def raises(self, s):
        return {'ValueError': s and self.neg_maxval._c == 0}


class MPBFixedFormat_infval(Contract):
    target = 'fpy2.number.context.mpb_fixed:MPBFixedFormat.infval'
    params = {'self': 'MPBFixedFormat', 's': 'bool'}
    returns = 'Float'
    properties = ['C16']
    options = {'split_heavy': True, 'symbolic_tier': 'thorough'}     # ~500 s alone: thorough tier

    def pre(self, s):
        return {'bounds': mpbfx_ords(self)}

    def pre(self, s):
        return {'bounds': mpbfx_ords(self)}

    def pre(self, s):
        return {'bounds': mpbfx_ords(self)}

    def post(self, s, result):
        r = result
        return {
            'finite': fl_finite(r),
            # the "next" value after the maximum: one ordinal step beyond
            'pos_grid': implies(not s, mult_of(r._real, self.nmin + 1)),
            'neg_grid': implies(s, mult_of(r._real, self.nmin + 1)),
            'pos': implies(not s and not self.pos_maxval._s, fx_ord(self._mp_fmt, r._real) == self._pos_maxval_ord + 1),
            'neg': implies(s and self.neg_maxval._s, fx_ord(self._mp_fmt, r._real) == self._neg_maxval_ord - 1),
            # zero bounds of the opposite sign (pos_maxval = -0, neg_maxval = +0 are accepted by the constructor)
            'pos_zero_bound': implies(not s and self.pos_maxval._s, fx_ord(self._mp_fmt, r._real) == self._pos_maxval_ord + 1),
            'neg_zero_bound': implies(s and not self.neg_maxval._s, fx_ord(self._mp_fmt, r._real) == self._neg_maxval_ord - 1),
        }

    def raises(self, s):
        return {}


class MPBFixedFormat_normalize(Contract):
    target = 'fpy2.number.context.mpb_fixed:MPBFixedFormat.normalize'
    options = {'light_axioms': True}     # propositional over the callee contracts: no product-splitting instances needed
    params = {'self': 'MPBFixedFormat', 'x': 'Float'}
    returns = 'Float'
    properties = ['C16']

    def post(self, x, result):
        r = result
        fin = fl_finite(x)
        return {
            'nan': r._isnan == x._isnan,
            'inf': r._isinf == x._isinf,
            'sign': r._real._s == x._real._s,
            'B6_value': implies(fin, dy_eqv(r._real, x._real)),
            'B6_canonical': implies(fin, r._real._exp == self.nmin + 1),
        }

    def raises(self, x):
        return {'TypeError': not mpbfx_inF(self, x)}
