"""
C02 / C03 core: the round-to-odd intermediate (gmputils.py).

  GmpEval            TRUSTED  the MPFR contract (DESIGN section 8 item 5)
  FloatToMpfr        TRUSTED  Float -> mpfr conversion through a hex string is exact
  RoundOdd           _round_odd turns (RTZ_P value, inexact) into the round-to-odd value (T1)
  L5_core            Lemma: L5 over an abstract grid spacing that is a multiple of 4 (chained proof steps)
  L5_reround         Lemma: re-rounding a round-to-odd value that has >= 2 extra digits == rounding the real (rnd_at form)
  L5_scale           Lemma: the fine representation of a real rounds the same at every scale
  MpfrCall           mpfr_call: precision choice prec+2 / two-pass down to n-1 (T2), result = RTO of the exact value
"""
from speclib import *
from spec.real import *
from spec.floats import *
from spec.c02 import *
from fpy2.number.round import RoundingMode


class GmpEval(Contract):
    target = 'spec.c02:gmp_eval'
    params = {'fid': 'int', 'args': 'tuple[MPFR, MPFR]', 'prec': 'int', 'rtz': 'bool'}
    returns = 'MPFR'
    properties = ['C02', 'C03']
    trusted = True
    note = ('MPFR/gmpy2 contract: under gmp.context(precision=P, round=RoundToZero, emin/emax at the limits) a primitive f '
            'returns RTZ_P(f_R(args)) with rc != 0 iff inexact; f_R is uninterpreted; NaN/inf/zero results per the MPFR '
            'manual carry rc == 0; results do not reach the exponent limits of MPFR; as_mantissa_exp gives a P-bit '
            'significand; get_exp = exponent of the leading digit + 1')

    def pre(self, fid, args, prec, rtz):
        return {
            'precision_valid': prec >= 1,
            'round_toward_zero': rtz,
        }

    def post(self, fid, args, prec, rtz, result):
        r = result
        y = app_id(fid, args)
        fnz = y_fnz(y)
        return {
            'prec': r._prec == prec,
            'nan': r._nan == y_nan(y),
            'inf': r._inf == y_inf(y),
            'zero': implies(not y_nan(y) and not y_inf(y), (r._m == 0) == y_zero(y)),
            'sign': implies(not y_nan(y), r._s == y_neg(y)),
            'special_exact': implies(not fnz, r.rc == 0),
            'exp': implies(fnz, r._e == y_e(y) - prec + 1),
            'digits': implies(fnz, r._m == y_dig(y, r._e)),
            'ternary': implies(fnz, (r.rc != 0) == y_stk(y, r._e)),
            'classes_exclusive': not (y_nan(y) and y_inf(y)) and not (y_zero(y) and (y_nan(y) or y_inf(y))),
        }


class FloatToMpfr(Contract):
    target = 'fpy2.number.gmputils:float_to_mpfr'
    params = {'x': 'RealFloat | Float'}
    returns = 'MPFR'
    properties = ['C02', 'C03']
    trusted = True
    note = ('float_to_mpfr formats the significand as a hex string and gmpy2 parses it with precision = number of '
            'significant digits: the conversion is exact (string formatting / parsing is not modelled)')

    def post(self, x, result):
        r = result
        isf = cls_name(x) == 'Float'
        nan = isf and x._isnan
        inf = isf and x._isinf and not x._isnan
        xr = x._real if isf else x
        return {
            'nan': r._nan == nan,
            'inf': r._inf == inf,
            'sign': implies(not nan, r._s == xr._s),
            'zero': implies(not nan and not inf, (r._m == 0) == (xr._c == 0)),
            'vid': r._vid == ghost('fvid', b2i(nan), b2i(inf), b2i(xr._s), xr._exp, xr._c),
            'exact': r.rc == 0,
        }


class RoundOdd(Contract):
    target = 'fpy2.number.gmputils:_round_odd'
    params = {'x': 'MPFR', 'inexact': 'bool'}
    returns = 'Float'
    properties = ['C02', 'C03']

    def post(self, x, inexact, result):
        r = result
        fin = not x._nan and not x._inf
        nz = fin and x._m != 0
        return {
            'nan': implies(x._nan, r._isnan and not r._isinf),
            'inf': implies(x._inf, r._isinf and not r._isnan and r._real._s == x._s),
            # an infinity is inexact only when MPFR overflowed
            'inf_flag': implies(x._inf, r._real._flags.inexact == inexact),
            'zero': implies(fin and x._m == 0 and not inexact,
                            fl_finite(r) and r._real._c == 0 and r._real._s == x._s and flags_clear(r._real)),
            # MPFR underflow: some nonzero (odd) value of the right sign below every MPFR exponent
            'zero_inexact': implies(fin and x._m == 0 and inexact,
                                    fl_finite(r) and r._real._c == 1 and r._real._s == x._s
                                    and r._real._exp < -4611686018427387903),
            'finite': implies(nz, fl_finite(r)),
            'sign': implies(nz, r._real._s == x._s),
            'exp': implies(nz, r._real._exp == x._e),
            # round to odd: last digit forced to 1 iff inexact
            'c': implies(nz, r._real._c == rto_c(x._m, inexact)),
            'odd_if_inexact': implies(nz and inexact, fmod(r._real._c, 2) == 1),
            # T1: exact results pass through unchanged, and nothing is flagged here
            'exact_unchanged': implies(nz and not inexact, r._real._c == x._m),
            'no_flags': implies(nz, flags_clear(r._real)),
            'width': implies(nz, bl(r._real._c) == x._prec),
            'no_ctx': r._ctx is None,
        }

    def raises(self, x, inexact):
        return {}


class L5_core(Lemma):
    """
    L5 (core).  y > 0 real, at some scale E: dig = floor(y / 2^E), stk = (y mod 2^E != 0).
      c1 = dig with its last digit forced to 1 iff stk      (round to odd, last digit at E)
      c2 = 2*dig + stk                                       (fine representation, last digit at E-1: rounds as y does)
    For every grid spacing A (in units of 2^E) that is a multiple of 4 -- i.e. at least two digits of c1 are
    dropped: a half digit and a sticky digit -- rounding c1 on the grid A and c2 on the grid 2*A give the same
    quotient, the same increment decision, the same inexact flag and the same carry, for every mode and sign.
    The clauses are proof steps (option `chain`): each is proved from the precondition and the earlier ones.
    """
    params = {'s': 'bool', 'dig': 'int', 'stk': 'bool', 'A': 'int', 'H': 'int', 'A2': 'int',
              'p': 'int | None', 'n': 'int', 'rm': 'RoundingMode'}
    properties = ['C02', 'C03']
    split = ['rm']
    options = {'chain': True}

    def pre(self, s, dig, stk, A, H, A2, p, n, rm):
        return {'dig': dig >= 0, 'two_extra_digits': H >= 1 and A == 4 * H, 'A2': A2 == 2 * A, 'p': p is None or p >= 1}

    def post(self, s, dig, stk, A, H, A2, p, n, rm):
        c1 = rto_c(dig, stk)
        c2 = fine_c(dig, stk)
        q1 = fdiv(c1, A)
        r1 = fmod(c1, A)
        q2 = fdiv(c2, A2)
        r2 = fmod(c2, A2)
        X = rnd_grid(s, c1, A, p, n, rm)
        Y = rnd_grid(s, c2, A2, p, n, rm)
        return {
            # c2 is 2*c1 up to one unit; Euclidean division of both
            'delta': -1 <= 2 * c1 - c2 and 2 * c1 - c2 <= 1 and c1 >= 0 and c2 >= 0,
            'div1': c1 == q1 * A + r1 and 0 <= r1 and r1 < A,
            'parity0': fmod(r1, 2) == fmod(c1, 2),
            'delta_parity': implies(2 * c1 - c2 == 1, fmod(c1, 2) == 1),
            'quotient': q1 == q2,
            'remainder': r2 == 2 * r1 - (2 * c1 - c2),
            'parity': fmod(r1, 2) == fmod(c1, 2),
            'zero_iff': (r1 == 0) == (r2 == 0),
            'above_half_iff': (2 * r1 > A) == (2 * r2 > A2),
            'half_iff': (2 * r1 == A) == (2 * r2 == A2),
            'increment': incr(rm, s, q1, r1, A) == incr(rm, s, q2, r2, A2),
            'exp': X[0] == Y[0],
            'c': X[1] == Y[1],
            'inexact': X[2] == Y[2],
            'carry': X[3] == Y[3],
        }


class L5_reround(Lemma):
    """
    L5.  y > 0 real, E a scale: dig = floor(y / 2^E), stk = (y mod 2^E != 0).
      co = round-to-odd of y with last digit at E      = (s, E,   dig with last digit forced to 1 iff stk)
      w  = fine representation of y (sticky appended)   = (s, E-1, 2*dig + stk)   [rounds exactly as y does]
    For every rounding position n >= E + 1 (at least two digits of co are dropped), every precision p, sign and
    rounding mode, rounding co at n (spec.real.rnd_at, the C01 definition) equals rounding w at n in all four
    components (exponent, significand, inexact, carry).  Proof: L5_core at the grid spacing A = 2^(n+1-E).
    """
    params = {'s': 'bool', 'E': 'int', 'dig': 'int', 'stk': 'bool', 'p': 'int | None', 'n': 'int', 'rm': 'RoundingMode',
              'co': 'RealFloat', 'w': 'RealFloat'}
    properties = ['C02', 'C03']
    split = ['rm']
    options = {'chain': True}

    def pre(self, s, E, dig, stk, p, n, rm, co, w):
        return {
            'dig': dig >= 0,
            'two_extra_digits': n >= E + 1,
            'p': p is None or p >= 1,
            'co': co._s == s and co._exp == E and co._c == rto_c(dig, stk),
            'w': w._s == s and w._exp == E - 1 and w._c == fine_c(dig, stk),
        }

    def post(self, s, E, dig, stk, p, n, rm, co, w):
        A = pow2(n + 1 - E)
        A2 = pow2(n + 2 - E)
        apply_lemma('L5_core', s=s, dig=dig, stk=stk, A=A, H=pow2(n - 1 - E), A2=A2, p=p, n=n, rm=rm)
        X = rnd_at(co, p, n, rm)
        Y = rnd_at(w, p, n, rm)
        return {
            'co_grid': rnd_grid_eq(X, rnd_grid(s, co._c, A, p, n, rm)),
            'w_grid': rnd_grid_eq(Y, rnd_grid(s, w._c, A2, p, n, rm)),
            'exp': X[0] == Y[0],
            'c': X[1] == Y[1],
            'inexact': X[2] == Y[2],
            'carry': X[3] == Y[3],
        }


class MpfrCall(Contract):
    target = 'fpy2.number.gmputils:mpfr_call'
    params = {'fn': 'GmpFn', 'args': 'tuple[()] | tuple[MPFR] | tuple[MPFR, MPFR] | tuple[MPFR, MPFR, MPFR]',
              'prec': 'int | None', 'n': 'int | None'}
    returns = 'Float'
    properties = ['C02', 'C03']

    def pre(self, fn, args, prec, n):
        return {'prec_pos': prec is None or prec >= 1}

    def post(self, fn, args, prec, n, result):
        r = result
        y = app_id(fn_id(fn), args)
        fnz = y_fnz(y)
        E = rto_exp(y_e(y), prec, n)
        return {
            'nan': implies(y_nan(y), r._isnan and not r._isinf),
            'inf': implies(y_inf(y), r._isinf and not r._isnan and r._real._s == y_neg(y) and not r._real._flags.inexact),
            'zero': implies(y_zero(y), fl_finite(r) and r._real._c == 0 and r._real._s == y_neg(y) and flags_clear(r._real)),
            'finite': implies(fnz, fl_finite(r)),
            'sign': implies(fnz, r._real._s == y_neg(y)),
            # the round-to-odd value of the exact result with last digit at E
            'exp': implies(fnz, r._real._exp == E),
            'c': implies(fnz, r._real._c == rto_c(y_dig(y, E), y_stk(y, E))),
            'no_flags': implies(fnz, flags_clear(r._real)),
            # T2: enough digits for L5 -- prec + 2 digits, or digits down to n - 1 and at least two
            'digits_prec': (implies(fnz, bl(r._real._c) == prec + 2)) if prec is not None else True,
            'digits_n': (implies(fnz, r._real._exp <= n - 1 and bl(r._real._c) >= 2
                                 and r._real._exp + bl(r._real._c) - 1 == y_e(y))) if prec is None else True,
            'no_ctx': r._ctx is None,
        }

    def raises(self, fn, args, prec, n):
        return {'ValueError': prec is None and n is None}
