"""
C07 / O2: `_SubstVar._visit_var` replaces exactly the uses whose reaching definition is a key of the
substitution; every other Var is rebuilt unchanged (same name, same location).
"""
from speclib import *
from spec.c07 import *


class SubstVar__visit_var(Contract):
    target = 'fpy2.transform.subst_var:_SubstVar._visit_var'
    params = {'self': '_SubstVar', 'e': 'Key[UseSite]', 'ctx': 'None'}
    overrides = {'self.func': 'FuncDefM', 'self.def_use': 'DUModel', 'self.subst': 'dict[Key[Definition], Key[Expr]]'}
    returns = 'Key[Expr] | Var'
    properties = ['C07']
    options = {'key_attrs': 'spec.c07:KEY_ATTRS'}
    note = ('the use site is an abstract node (a Var); use_to_def / subst are symbolic maps; '
            'DUModel.find_def_from_use mirrors DefineUseAnalysis.find_def_from_use')

    def pre(self, e):
        return {'is_var': key_isa(e, 'Var')}

    def post(self, e, result):
        du = self.def_use
        hit = (e in du.use_to_def) and (map_val(du.use_to_def, e) in self.subst)
        return {
            # a use whose reaching definition is a key of the substitution becomes the mapped expression
            'replaced': (result == map_val(self.subst, map_val(du.use_to_def, e))) if cls_name(result) != 'Var' else not hit,
            'replaced_iff': (cls_name(result) != 'Var') == hit,
            # every other use is rebuilt unchanged
            'kept_name': (result.name == key_attr(e, 'name')) if cls_name(result) == 'Var' else hit,
            'kept_loc': (result.loc == key_attr(e, 'loc')) if cls_name(result) == 'Var' else hit,
        }

    def raises(self, e):
        return {'KeyError': not (e in self.def_use.use_to_def)}
