"""
C14 part (4): branch refinement of format inference is IMPLIED by the branch outcome.

`_magnitude_constraint(op, c)` turns `x op c` (c a numeric literal) into an AbstractFormat to meet with;
`_FormatInferInstance._implied(cond, truth)` collects such constraints for the variables a condition tests.
Soundness: for every value v of the variable for which the comparison has the stated outcome, v is a
member (`mem` of spec/c14.py: NaN, infinities, signed zeros, bounds on the ghost grid) of the constraint.

The lemmas run the REAL code from /repo inside `post`.
"""
from speclib import *
from spec.real import *
from spec.floats import *
from spec.c14 import *
from spec.c14x_refine import *
from fpy2.analysis.format_infer.analysis import _magnitude_constraint


class C14x_magnitude_constraint_sound(Lemma):
    """`v op c` holds  ==>  v is a member of _magnitude_constraint(op, c) (when that is not None); the
    constraint is well-formed, leaves every axis but one bound at its top, and is stated exactly for the
    comparisons that bound the variable toward zero."""
    params = {'op': 'CompareOp', 'c': 'Fraction', 'v': 'Float'}
    split = ['op']
    properties = ['C14']

    def pre(op, c, v):
        g = GRID()
        return {'grid': g <= v._real._exp and g <= lit_exp(c) and g <= 0}

    def post(op, c, v):
        g = GRID()
        R = _magnitude_constraint(op, c)
        out = {'stated': (R is not None) == statable(op.name, c)}
        if R is not None:
            out.update(wf_clauses(R, 'wf'))
            out.update({
                'dyadic': lit_dyadic(c),
                'grid': grid_ok_fmt(R, g),
                'sound': implies(cmp_holds(op.name, v, c, g), mem(v, R, g)),
                'specials_top': R.has_nan and R.has_pos_inf and R.has_neg_inf and R.has_neg_zero,
                'prec_top': is_fl(R.prec) and R.prec == PINF,
                'exp_top': is_fl(R.exp) and R.exp == NINF,
            })
        return out


# ---------------------------------------------------------------------------
# `_implied_compare`: the comparison `x op c` / `c op x` (x a variable use, c a literal) with outcome `truth`.
# The valuation of the program variables is a family of ghost functions of the DEFINITION that reaches the use
# (spec/c14x_refine.py: val_nan/val_inf/val_s/val_e/val_c); the analysis' DefineUse result is the abstract
# stand-in DefUseM of spec/c14x_refine.py (use_to_def: use site -> definition).  The literal is a `Rational` node p/q (every
# RationalVal subclass is read through as_rational() only; those have C06 contracts); `Rational.as_rational` is
# inlined so that the spec and the code read the numerator / denominator of the SAME Fraction term.

from fractions import Fraction
from fpy2.ast.fpyast import Compare, Not, And, Or
from fpy2.analysis.format_infer.analysis import _FormatInferInstance


def _cmp_pre(inst, x, y):
    if y.q == 0:
        return {'lit': False}       # Fraction(p, 0) raises: not a literal
    g = GRID()
    d = map_at(inst.def_use.use_to_def, x)
    c = Fraction(y.p, y.q)
    return {'lit': y.q != 0, 'use': x in inst.def_use.use_to_def,
            # `_implied_logb` (refinement of v through t = logb(v)) is not covered
            'not_logb': not logb_def(d),
            'val': val_ok(d, g), 'grid': g <= 0 and g <= lit_exp(c)}


def _cmp_post(inst, x, y, opname, truth, out):
    """out = the refinements returned for the comparison `x opname c` having outcome `truth`"""
    g = GRID()
    d = map_at(inst.def_use.use_to_def, x)
    c = Fraction(y.p, y.q)
    holds = val_cmp(opname, d, c, g)
    res = {'at_most_one': len(out) <= 1}
    if len(out) == 1:
        dd, cons = out[0]
        res.update(wf_clauses(cons, 'wf'))
        res.update({
            'def': dd == d,
            'grid': grid_ok_fmt(cons, g),
            'implied': implies(holds == truth, val_mem(d, cons, g)),
        })
    return res


class C14x_implied_compare_var_lit(Lemma):
    """`x op c` has outcome `truth`  ==>  the value of x is a member of the constraint returned for x's definition"""
    params = {'inst': '_FormatInferInstance', 'op': 'CompareOp', 'truth': 'bool', 'x': 'Var', 'y': 'Rational'}
    overrides = {'inst.type_info.def_use': 'DefUseM'}
    split = ['op', 'truth']
    no_use = ['Rational_as_rational']
    properties = ['C14']
    options = {'key_attrs': 'spec.c14x_refine:KEY_ATTRS'}

    def pre(inst, op, truth, x, y):
        return _cmp_pre(inst, x, y)

    def post(inst, op, truth, x, y):
        out = inst._implied_compare(Compare([op], [x, y], None), truth)
        return _cmp_post(inst, x, y, op.name, truth, out)


class C14x_implied_compare_lit_var(Lemma):
    """`c op x` has outcome `truth` (i.e. `x swap(op) c`)  ==>  the value of x is a member of the constraint returned"""
    params = {'inst': '_FormatInferInstance', 'op': 'CompareOp', 'truth': 'bool', 'x': 'Var', 'y': 'Rational'}
    overrides = {'inst.type_info.def_use': 'DefUseM'}
    split = ['op', 'truth']
    no_use = ['Rational_as_rational']
    properties = ['C14']
    options = {'key_attrs': 'spec.c14x_refine:KEY_ATTRS'}

    def pre(inst, op, truth, x, y):
        return _cmp_pre(inst, x, y)

    def post(inst, op, truth, x, y):
        out = inst._implied_compare(Compare([op], [y, x], None), truth)
        return _cmp_post(inst, x, y, swap_name(op.name), truth, out)
