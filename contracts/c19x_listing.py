"""
C19x (listing side): `sub_exprs` / `sub_blocks` of fpy2/transform/path.py enumerate, for every node class, exactly
the children the visitor reaches, in the visitor's order (reference: spec/c19x.py VISIT_ORDER, one case per class).

Sequence-valued fields (`indices`, `args`, `kwargs`, `elts`, `iterables`) have SYMBOLIC length; `j` is a ghost
parameter (not a parameter of the target): an arbitrary position of such a field, so `<field>_each` is the
universally quantified statement "entry off + j of the listing is (field, j, node.<field>[j])".
"""
from speclib import *
from spec.c19x import *


class sub_exprs_stmt(Contract):
    target = 'fpy2.transform.path:sub_exprs'
    params = {'node': 'Assign | IndexedAssign | If1Stmt | IfStmt | WhileStmt | ForStmt | ContextStmt | AssertStmt | EffectStmt | ReturnStmt | PassStmt',
              'j': 'int'}
    returns = 'tuple'
    properties = ['C19']
    split = ['node']
    inline = True

    def post(self, node, j, result):
        return expr_listing_clauses(node, result, j)

    def raises(self, node, j):
        return {}


class sub_exprs_expr(Contract):
    target = 'fpy2.transform.path:sub_exprs'
    params = {'node': 'Call | NullaryOp | UnaryOp | BinaryOp | TernaryOp | NaryOp | Compare | TupleExpr | ListExpr | ListComp | ListRef | ListSlice | IfExpr | Attribute',
              'j': 'int'}
    returns = 'tuple'
    properties = ['C19']
    split = ['node']
    inline = True

    def post(self, node, j, result):
        return expr_listing_clauses(node, result, j)

    def raises(self, node, j):
        return {}


class sub_exprs_subclass(Contract):
    """representatives of the operator subclasses (the `match` of sub_exprs is by isinstance): same rows as their bases"""
    target = 'fpy2.transform.path:sub_exprs'
    params = {'node': 'Round | RoundAt | Cast | Add | Neg | Not | Sqrt | Fma | Max | And | ConstPi | Sum | Range3 | Zip | Size',
              'j': 'int'}
    returns = 'tuple'
    properties = ['C19']
    split = ['node']
    inline = True

    def post(self, node, j, result):
        return expr_listing_clauses(node, result, j)

    def raises(self, node, j):
        return {}


class sub_exprs_leaf(Contract):
    """the value expressions hold no expression (the visitor rebuilds them from their scalars)"""
    target = 'fpy2.transform.path:sub_exprs'
    params = {'node': 'Var | BoolVal | ForeignVal | Decnum | Hexnum | Integer | Rational | Digits', 'j': 'int'}
    returns = 'tuple'
    properties = ['C19']
    split = ['node']
    inline = True

    def post(self, node, j, result):
        return expr_listing_clauses(node, result, j)

    def raises(self, node, j):
        return {}


class sub_blocks_(Contract):
    target = 'fpy2.transform.path:sub_blocks'
    params = {'stmt': 'Assign | IndexedAssign | If1Stmt | IfStmt | WhileStmt | ForStmt | ContextStmt | AssertStmt | EffectStmt | ReturnStmt | PassStmt'}
    returns = 'tuple'
    properties = ['C19']
    split = ['stmt']
    inline = True

    def post(self, stmt, result):
        return block_listing_clauses(stmt, result)

    def raises(self, stmt):
        return {}
